"""Catalogue of one-construct modules: (name, input text, substrings that must survive parse+print).
Keyword families are taken from the REGENERATED enum table (every constant of ir/enum); structured
attributes, instructions, constants and debug-info nodes are a hand-written list."""


def kw_entries(rows):
    """rows: (type, const, value, string, back) from regen.enum_table"""
    out = []
    seen = set()
    for t, const, val, s, back in rows:
        if t == "untyped" or not s or (t, s) in seen or "(" in s:
            continue
        seen.add((t, s))
        e = None
        if t == "Linkage" and s != "none":
            e = ("@g = %s global i32%s\n" % (s, "" if s in ("external", "extern_weak") else " 0"), [s + " global"])
        elif t == "Visibility" and s != "none":
            e = ("@g = %s global i32 0\n" % s, [s + " global"])
        elif t == "DLLStorageClass" and s != "none":
            e = ("@g = %s global i32 0\n" % s, [s])
        elif t == "TLSModel" and s not in ("none", "generic"):
            e = ("@g = thread_local(%s) global i32 0\n" % s, ["thread_local(%s)" % s])
        elif t == "UnnamedAddr" and s != "none":
            e = ("@g = %s global i32 0\n" % s, [s + " global"])
        elif t == "Preemption" and s not in ("none", "dso_local_equivalent"):
            e = ("@g = %s global i32 0\n" % s, [s + " global"])
        elif t == "CallingConv" and s not in ("none",) and not s.startswith("cc "):
            e = ("declare %s void @f()\n" % s, ["declare %s void" % s])
        elif t == "FuncAttr":
            e = ("declare void @f() #0\n\nattributes #0 = { %s }\n" % s, ["{ %s }" % s])
        elif t == "ParamAttr":
            e = ("declare void @f(i32* %s)\n" % s, ["i32* %s" % s])
        elif t == "ReturnAttr":
            e = ("declare %s i32* @f()\n" % s, ["declare %s i32*" % s])
        elif t == "IPred":
            e = ("define i1 @f(i32 %%a) {\n\t%%r = icmp %s i32 %%a, 0\n\tret i1 %%r\n}\n" % s, ["icmp %s i32" % s])
        elif t == "FPred":
            e = ("define i1 @f(float %%a) {\n\t%%r = fcmp %s float %%a, %%a\n\tret i1 %%r\n}\n" % s, ["fcmp %s float" % s])
        elif t == "AtomicOrdering" and s not in ("none", "unordered", "monotonic"):
            e = ("define void @f() {\n\tfence %s\n\tret void\n}\n" % s, ["fence " + s])
        elif t == "AtomicOp":
            ty = "float" if s.startswith("f") else "i32"
            e = ("define void @f(%s* %%p, %s %%v) {\n\t%%r = atomicrmw %s %s* %%p, %s %%v seq_cst\n\tret void\n}\n" % (ty, ty, s, ty, ty), ["atomicrmw %s %s*" % (s, ty)])
        elif t == "FastMathFlag":
            e = ("define float @f(float %%a) {\n\t%%r = fadd %s float %%a, %%a\n\tret float %%r\n}\n" % s, ["fadd %s float" % s])
        elif t == "OverflowFlag":
            e = ("define i32 @f(i32 %%a) {\n\t%%r = add %s i32 %%a, 1\n\tret i32 %%r\n}\n" % s, ["add %s i32" % s])
        elif t == "Tail" and s != "none":
            e = ("declare void @g()\n\ndefine void @f() {\n\t%s call void @g()\n\tret void\n}\n" % s, ["%s call void" % s])
        elif t == "SelectionKind":
            e = ("$c = comdat %s\n" % s, ["comdat " + s])
        elif t == "DwarfTag":
            e = ("!0 = !DICompositeType(tag: %s, name: \"n\")\n" % s, ["tag: " + s])
        elif t == "DwarfLang":
            e = ("!0 = distinct !DICompileUnit(language: %s, file: !1)\n!1 = !DIFile(filename: \"a\", directory: \"b\")\n" % s, ["language: " + s])
        elif t == "DwarfAttEncoding":
            e = ("!0 = !DIBasicType(name: \"n\", size: 8, encoding: %s)\n" % s, ["encoding: " + s])
        elif t == "DwarfCC":
            e = ("!0 = !DISubroutineType(cc: %s, types: !1)\n!1 = !{}\n" % s, ["cc: " + s])
        elif t == "DwarfOp":
            e = ("!0 = !DIExpression(%s)\n" % s, [s])
        elif t == "DwarfVirtuality" and s != "DW_VIRTUALITY_none":
            e = ("!0 = !DISubprogram(name: \"f\", virtuality: %s)\n" % s, ["virtuality: " + s])
        elif t == "EmissionKind":
            e = ("!0 = distinct !DICompileUnit(language: DW_LANG_C, file: !1, emissionKind: %s)\n!1 = !DIFile(filename: \"a\", directory: \"b\")\n" % s, ["emissionKind: " + s] if s != "NoDebug" else ["DICompileUnit"])
        elif t == "NameTableKind" and s != "Default":
            e = ("!0 = distinct !DICompileUnit(language: DW_LANG_C, file: !1, nameTableKind: %s)\n!1 = !DIFile(filename: \"a\", directory: \"b\")\n" % s, ["nameTableKind: " + s])
        elif t == "ChecksumKind":
            e = ("!0 = !DIFile(filename: \"a\", directory: \"b\", checksumkind: %s, checksum: \"00\")\n" % s, ["checksumkind: " + s])
        elif t == "DwarfMacinfo":
            e = ("!0 = !DIMacro(type: %s, name: \"n\")\n" % s, ["type: " + s] if s != "DW_MACINFO_define" else ["DIMacro"])
        elif t == "DIFlag" and s != "DIFlagZero":
            e = ("!0 = !DIBasicType(name: \"n\", flags: %s)\n" % s, None)
        elif t == "DISPFlag" and s != "DISPFlagZero":
            e = ("!0 = !DISubprogram(name: \"f\", spFlags: %s)\n" % s, None)
        elif t == "ClauseType":
            e = ("define void @f() personality i8* null {\n\t%%lp = landingpad { i8*, i32 }\n\t\t%s %s\n\tret void\n}\n" % (s, "i8* null" if s == "catch" else "[0 x i8*] zeroinitializer"), ["\t\t" + s + " "])
        elif t == "FloatKind":
            e = ("@g = global %s* null\n" % s, [s + "* null"])
        if e:
            out.append(("%s.%s" % (t, s), e[0], e[1]))
    return out


STRUCTURED = [
    ("fattr.alignstack-pair", "declare void @f() #0\n\nattributes #0 = { alignstack=8 }\n", ["alignstack = 8"]),
    ("fattr.align-pair", "declare void @f() #0\n\nattributes #0 = { align=16 }\n", ["align = 16"]),
    ("fattr.alignstack", "declare void @f() alignstack(16)\n", ["alignstack(16)"]),
    ("fattr.allocsize1", "declare void @f() allocsize(0)\n", ["allocsize(0)"]),
    ("fattr.allocsize2", "declare void @f() allocsize(0, 1)\n", ["allocsize(0, 1)"]),
    ("fattr.string", "declare void @f() \"no-frame-pointer-elim\"\n", ["\"no-frame-pointer-elim\""]),
    ("fattr.pair", "declare void @f() \"k\"=\"v\"\n", ["\"k\"=\"v\""]),
    ("fattr.vscale_range", "declare void @f() vscale_range(1, 2)\n", ["vscale_range(1, 2)"]),
    ("fattr.uwtable-sync", "declare void @f() uwtable(sync)\n", ["uwtable(sync)"]),
    ("fattr.allockind", "declare void @f() allockind(\"alloc,zeroed\")\n", ["allockind(\"alloc,zeroed\")"]),
    ("func.align", "declare void @f() align 32\n", ["align 32"]),
    ("func.section", "declare void @f() section \"s\"\n", ["section \"s\""]),
    ("func.gc", "define void @f() gc \"g\" {\n\tret void\n}\n", ["gc \"g\""]),
    ("func.addrspace", "declare void @f() addrspace(3)\n", ["addrspace(3)"]),
    ("func.prefix", "define void @f() prefix i32 1 {\n\tret void\n}\n", ["prefix i32 1"]),
    ("func.prologue", "define void @f() prologue i8 2 {\n\tret void\n}\n", ["prologue i8 2"]),
    ("func.personality", "define void @f() personality i8* null {\n\tret void\n}\n", ["personality i8* null"]),
    ("pattr.align", "declare void @f(i32* align 8 %0)\n", ["align 8"]),
    ("pattr.deref", "declare void @f(i32* dereferenceable(8) %0)\n", ["dereferenceable(8)"]),
    ("pattr.deref_or_null", "declare void @f(i32* dereferenceable_or_null(8) %0)\n", ["dereferenceable_or_null(8)"]),
    ("pattr.byval", "declare void @f(i32* byval(i32) %0)\n", ["byval(i32)"]),
    ("pattr.sret", "declare void @f(i32* sret(i32) %0)\n", ["sret(i32)"]),
    ("pattr.byref", "declare void @f(i32* byref(i32) %0)\n", ["byref(i32)"]),
    ("pattr.inalloca", "declare void @f(i32* inalloca(i32) %0)\n", ["inalloca(i32)"]),
    ("pattr.elementtype", "declare void @f(i32* elementtype(i32) %0)\n", ["elementtype(i32)"]),
    ("pattr.preallocated", "declare void @f(i32* preallocated(i32) %0)\n", ["preallocated(i32)"]),
    ("rattr.deref", "declare dereferenceable(4) i32* @f()\n", ["dereferenceable(4)"]),
    ("global.section-align", "@g = global i32 0, section \"s\", align 8\n", ["section \"s\"", "align 8"]),
    ("global.partition", "@g = global i32 0, partition \"p\"\n", ["partition \"p\""]),
    ("global.addrspace", "@g = addrspace(2) global i32 0\n", ["addrspace(2) global"]),
    ("global.externally_initialized", "@g = externally_initialized global i32 0\n", ["externally_initialized"]),
    ("global.constant", "@g = constant i32 0\n", ["constant i32 0"]),
    ("global.tls", "@g = thread_local global i32 0\n", ["thread_local global"]),
    ("global.cc-number", "declare cc 200 void @f()\n", ["cc 200"]),
    ("ifunc", "@i = ifunc void (), void ()* ()* @r\n\ndeclare void ()* @r()\n", ["ifunc void ()"]),
    ("alias.linkage", "@g = global i32 0\n\n@a = weak alias i32, i32* @g\n", ["weak alias"]),
    ("comdat.implicit-unnamed-global", "$\"0\" = comdat any\n\n@0 = global i32 0, comdat($\"0\")\n", ["= comdat any", "@0 = global i32 0, comdat"]),
    ("comdat.implicit-unnamed-second", "$\"1\" = comdat any\n\n@0 = global i32 0\n@1 = global i32 0, comdat($\"1\")\n", ["@1 = global i32 0, comdat"]),
    ("comdat.implicit-named", "$g = comdat any\n\n@g = global i32 0, comdat\n", ["@g = global i32 0, comdat"]),
    ("comdat.implicit-func", "$f = comdat any\n\ndefine void @f() comdat {\n\tret void\n}\n", ["define void @f() comdat {"]),
    ("comdat.explicit-other", "$c = comdat any\n\n@g = global i32 0, comdat($c)\n", ["comdat($c)"]),
    ("names.numeric-quoted", "@\"0\" = global i32 5\n@p = global i32* @\"0\"\n\ndefine void @f(i32 %\"2\") {\n\"1\":\n\tbr label %\"3\"\n\n\"3\":\n\t%\"0\" = load i32, i32* @\"0\"\n\t%0 = add i32 %\"0\", %\"2\"\n\tbr label %\"1\"\n}\n",
     ["@\"0\" = global i32 5", "i32* @\"0\"", "\"1\":", "br label %\"3\"", "%\"0\" = load i32, i32* @\"0\"", "%0 = add i32 %\"0\", %\"2\""]),
    ("module.asm", "module asm \"nop\"\n", ["module asm \"nop\""]),
    ("datalayout", "target datalayout = \"e-m:e\"\n", ["target datalayout = \"e-m:e\""]),
    ("type.packed", "%T = type <{ i8, i32 }>\n", ["<{ i8, i32 }>"]),
    ("type.func", "@g = global void (i32, ...)* null\n", ["void (i32, ...)*"]),
    ("type.vec", "@g = global <4 x i32> zeroinitializer\n", ["<4 x i32>"]),
    ("type.scalable-vec", "@g = global <vscale x 4 x i32> zeroinitializer\n", ["<vscale x 4 x i32>"]),
    ("type.scalable-vec-typedef", "%v = type <vscale x 2 x i32>\n\n@g = global %v zeroinitializer\n", ["%v = type <vscale x 2 x i32>"]),
    ("type.vec-typedef", "%v = type <4 x i8>\n\n@g = global %v zeroinitializer\n", ["%v = type <4 x i8>"]),
    ("type.array", "@g = global [2 x [3 x i8]] zeroinitializer\n", ["[2 x [3 x i8]]"]),
    ("type.ptr-as", "@g = global i8 addrspace(5)* null\n", ["i8 addrspace(5)*"]),
    ("type.x86_mmx", "@g = external global x86_mmx\n", ["x86_mmx"]),
    ("type.token", "declare token @f()\n", ["token"]),
    ("type.metadata", "declare void @f(metadata %0)\n", ["metadata"]),
    ("const.struct", "@g = global { i32, i8 } { i32 1, i8 2 }\n", ["{ i32 1, i8 2 }"]),
    ("const.packed-struct", "@g = global <{ i32, i8 }> <{ i32 1, i8 2 }>\n", ["<{ i32 1, i8 2 }>"]),
    ("const.array", "@g = global [2 x i32] [i32 1, i32 2]\n", ["[i32 1, i32 2]"]),
    ("const.vector", "@g = global <2 x i32> <i32 1, i32 2>\n", ["<i32 1, i32 2>"]),
    ("const.chararray", "@g = global [3 x i8] c\"a\\22\\00\"\n", ["c\"a\\22\\00\""]),
    ("const.undef", "@g = global i32 undef\n", ["i32 undef"]),
    ("const.poison", "@g = global i32 poison\n", ["i32 poison"]),
    ("const.float", "@g = global double 1.5\n", ["double 1.5"]),
    ("const.float-hex", "@g = global double 0x7FF0000000000000\n", ["0x7FF0000000000000"]),
    ("const.half", "@g = global half 0xH3C00\n", ["half"]),
    ("const.fp80", "@g = global x86_fp80 0xK3FFF8000000000000000\n", ["0xK3FFF8000000000000000"]),
    ("const.fp128", "@g = global fp128 0xL00000000000000003FFF000000000000\n", ["0xL00000000000000003FFF000000000000"]),
    ("const.ppc", "@g = global ppc_fp128 0xM3FF00000000000000000000000000000\n", ["0xM3FF00000000000000000000000000000"]),
    ("const.none", "define void @f() {\n\t%c = cleanuppad within none []\n\tret void\n}\n", ["within none"]),
    ("const.blockaddress", "@g = global i8* blockaddress(@f, %b)\n\ndefine void @f() {\nb:\n\tret void\n}\n", ["blockaddress(@f, %b)"]),
    ("const.dso_local_equivalent", "declare void @f()\n\n@g = global void ()* dso_local_equivalent @f\n", ["dso_local_equivalent @f"]),
    ("const.no_cfi", "declare void @f()\n\n@g = global void ()* no_cfi @f\n", ["no_cfi @f"]),
    ("expr.gep-inbounds", "@a = global [4 x i32] zeroinitializer\n@g = global i32* getelementptr inbounds ([4 x i32], [4 x i32]* @a, i64 0, i64 1)\n", ["getelementptr inbounds ([4 x i32], [4 x i32]* @a, i64 0, i64 1)"]),
    ("expr.gep-inrange-first", "@a = global [4 x [4 x i8]] zeroinitializer\n@g = global i8* getelementptr inbounds ([4 x [4 x i8]], [4 x [4 x i8]]* @a, inrange i64 0, i64 1, i64 2)\n", ["@a, inrange i64 0, i64 1, i64 2)"]),
    ("expr.gep-inrange-last", "@a = global [4 x [4 x i8]] zeroinitializer\n@g = global i8* getelementptr ([4 x [4 x i8]], [4 x [4 x i8]]* @a, i64 0, i64 1, inrange i64 2)\n", ["i64 0, i64 1, inrange i64 2)"]),
    ("expr.gep-inrange", "@a = global [4 x i32] zeroinitializer\n@g = global i32* getelementptr ([4 x i32], [4 x i32]* @a, i64 0, inrange i64 1)\n", ["inrange i64 1"]),
    ("expr.ptrtoint", "@a = global i32 0\n@g = global i64 ptrtoint (i32* @a to i64)\n", ["ptrtoint (i32* @a to i64)"]),
    ("expr.add-nsw", "@g = global i32 add nsw (i32 1, i32 2)\n", ["add nsw (i32 1, i32 2)"]),
    ("expr.icmp", "@g = global i1 icmp ult (i32 1, i32 2)\n", ["icmp ult (i32 1, i32 2)"]),
    ("expr.select", "@g = global i32 select (i1 true, i32 1, i32 2)\n", ["select (i1 true, i32 1, i32 2)"]),
    ("expr.extractelement", "@g = global i32 extractelement (<2 x i32> <i32 1, i32 2>, i32 0)\n", ["extractelement ("]),
    ("expr.shufflevector", "@g = global <2 x i32> shufflevector (<2 x i32> <i32 1, i32 2>, <2 x i32> undef, <2 x i32> <i32 1, i32 0>)\n", ["shufflevector ("]),
    ("expr.addrspacecast", "@a = global i32 0\n@g = global i32 addrspace(1)* addrspacecast (i32* @a to i32 addrspace(1)*)\n", ["addrspacecast ("]),
    ("expr.fneg", "@g = global float fneg (float 1.0)\n", ["fneg (float 1.0)"]),
]

NAMED_NONSTRUCT = [
    ("named.i1", "%bool = type i1\n\ndefine %bool @f() {\n\tret %bool true\n}\n", ["true"]),
    ("named.i32", "%int = type i32\n\n@g = global %int 5\n", ["global %int 5"]),
    ("named.float", "%flt = type float\n\n@g = global %flt 1.0\n", ["global %flt 1.0"]),
    ("named.ptr", "%ptr = type i8*\n\n@g = global %ptr null\n", ["global %ptr null"]),
    ("named.vec", "%vec = type <2 x i32>\n\n@g = global %vec zeroinitializer\n", ["global %vec zeroinitializer"]),
    ("named.arr", "%arr = type [2 x i8]\n\n@g = global %arr zeroinitializer\n", ["global %arr zeroinitializer"]),
    ("named.func", "%fn = type void ()\n\n@g = global %fn* null\n", ["global %fn* null"]),
    ("named.i1-false", "%b2 = type i1\n\n@g = global %b2 false\n", ["false"]),
    ("named.void", "%v = type void\n\ndeclare %v @f()\n", ["declare %v @f()"]),
    ("named.token-none", "%tok = type token\n\ndefine void @f() {\n\t%c = cleanuppad within none []\n\tret void\n}\n", ["cleanuppad within none"]),
    ("named.metadata", "%md = type metadata\n\ndeclare void @f(%md %0)\n", ["%md %0"]),
    ("named.label", "%lbl = type label\n", ["%lbl = type label"]),
    # named (fixed and scalable) vector types used through vector constant expressions whose own result type is printed inline
    ("named.svec-shuffle", "%sv = type <vscale x 4 x i32>\n\ndefine %sv @f() {\n\tret %sv shufflevector (%sv undef, %sv undef, %sv zeroinitializer)\n}\n", ["shufflevector (%sv undef, %sv undef, %sv zeroinitializer)"]),
    ("named.fvec-shuffle", "%fv = type <4 x i32>\n\ndefine %fv @f() {\n\tret %fv shufflevector (%fv undef, %fv undef, %fv zeroinitializer)\n}\n", ["shufflevector (%fv undef, %fv undef, %fv zeroinitializer)"]),
    ("named.svec-icmp", "%sv = type <vscale x 2 x i64>\n\ndefine <vscale x 2 x i1> @f() {\n\tret <vscale x 2 x i1> icmp eq (%sv undef, %sv zeroinitializer)\n}\n", ["icmp eq (%sv undef, %sv zeroinitializer)"]),
    ("named.svec-fcmp", "%sf = type <vscale x 2 x double>\n\ndefine <vscale x 2 x i1> @f() {\n\tret <vscale x 2 x i1> fcmp oeq (%sf undef, %sf zeroinitializer)\n}\n", ["fcmp oeq (%sf undef, %sf zeroinitializer)"]),
    ("named.svec-gep", "%si = type <vscale x 2 x i64>\n\n@a = global i8 0\n\ndefine <vscale x 2 x i8*> @f() {\n\tret <vscale x 2 x i8*> getelementptr (i8, i8* @a, %si zeroinitializer)\n}\n", ["getelementptr (i8, i8* @a, %si zeroinitializer)"]),
    ("named.svec-inst", "%sv = type <vscale x 4 x i32>\n\ndefine void @f(%sv %a) {\n\t%c = icmp eq %sv %a, zeroinitializer\n\t%s = select <vscale x 4 x i1> %c, %sv %a, %sv %a\n\tret void\n}\n", ["select <vscale x 4 x i1> %c, %sv %a, %sv %a"]),
]

INSTS = [
    ("fneg", "float %a", "%r = fneg float %a"), ("sub-nuw-nsw", "i32 %a", "%r = sub nuw nsw i32 %a, 1"), ("mul", "i32 %a", "%r = mul i32 %a, %a"),
    ("udiv-exact", "i32 %a", "%r = udiv exact i32 %a, 3"), ("sdiv", "i32 %a", "%r = sdiv i32 %a, 3"), ("urem", "i32 %a", "%r = urem i32 %a, 3"), ("srem", "i32 %a", "%r = srem i32 %a, 3"),
    ("fsub", "float %a", "%r = fsub float %a, %a"), ("fmul-fast", "float %a", "%r = fmul fast float %a, %a"), ("fdiv", "float %a", "%r = fdiv float %a, %a"), ("frem", "float %a", "%r = frem float %a, %a"),
    ("shl", "i32 %a", "%r = shl i32 %a, 1"), ("lshr-exact", "i32 %a", "%r = lshr exact i32 %a, 1"), ("ashr", "i32 %a", "%r = ashr i32 %a, 1"), ("and", "i32 %a", "%r = and i32 %a, 1"), ("or", "i32 %a", "%r = or i32 %a, 1"), ("xor", "i32 %a", "%r = xor i32 %a, 1"),
    ("extractelement", "<2 x i32> %a", "%r = extractelement <2 x i32> %a, i32 0"), ("insertelement", "<2 x i32> %a", "%r = insertelement <2 x i32> %a, i32 1, i32 0"),
    ("shufflevector", "<2 x i32> %a", "%r = shufflevector <2 x i32> %a, <2 x i32> undef, <4 x i32> zeroinitializer"),
    ("extractvalue", "{ i32, [2 x i8] } %a", "%r = extractvalue { i32, [2 x i8] } %a, 1, 0"), ("insertvalue", "{ i32, i8 } %a", "%r = insertvalue { i32, i8 } %a, i8 1, 1"),
    ("alloca", "i32 %a", "%r = alloca i32, i32 %a, align 4"), ("alloca-as", "i32 %a", "%r = alloca i32, addrspace(5)"), ("alloca-inalloca", "i32 %a", "%r = alloca inalloca i32"),
    ("load-volatile", "i32* %a", "%r = load volatile i32, i32* %a, align 4"), ("load-atomic", "i32* %a", "%r = load atomic i32, i32* %a acquire, align 4"),
    ("store-volatile", "i32* %a", "store volatile i32 1, i32* %a"), ("store-atomic", "i32* %a", "store atomic i32 1, i32* %a release, align 4"),
    ("fence-syncscope", "i32 %a", "fence syncscope(\"singlethread\") seq_cst"), ("cmpxchg", "i32* %a", "%r = cmpxchg weak volatile i32* %a, i32 1, i32 2 acq_rel monotonic"),
    ("atomicrmw-volatile", "i32* %a", "%r = atomicrmw volatile xchg i32* %a, i32 1 monotonic"), ("gep-inbounds", "{ i32, [4 x i8] }* %a", "%r = getelementptr inbounds { i32, [4 x i8] }, { i32, [4 x i8] }* %a, i64 0, i32 1, i64 2"),
    ("trunc", "i32 %a", "%r = trunc i32 %a to i8"), ("zext", "i8 %a", "%r = zext i8 %a to i32"), ("sext", "i8 %a", "%r = sext i8 %a to i32"), ("fptrunc", "double %a", "%r = fptrunc double %a to float"),
    ("fpext", "float %a", "%r = fpext float %a to double"), ("fptoui", "float %a", "%r = fptoui float %a to i32"), ("fptosi", "float %a", "%r = fptosi float %a to i32"), ("uitofp", "i32 %a", "%r = uitofp i32 %a to float"),
    ("sitofp", "i32 %a", "%r = sitofp i32 %a to float"), ("ptrtoint", "i8* %a", "%r = ptrtoint i8* %a to i64"), ("inttoptr", "i64 %a", "%r = inttoptr i64 %a to i8*"), ("bitcast", "i8* %a", "%r = bitcast i8* %a to i32*"),
    ("addrspacecast", "i8* %a", "%r = addrspacecast i8* %a to i8 addrspace(1)*"), ("select", "i1 %a", "%r = select i1 %a, i32 1, i32 2"), ("freeze", "i32 %a", "%r = freeze i32 %a"),
    ("va_arg", "i8* %a", "%r = va_arg i8* %a, i32"), ("call-cc-attrs", "i32 %a", "%r = call fastcc zeroext i32 @g(i32 signext %a) nounwind"), ("call-bundle", "i32 %a", "%r = call i32 @g(i32 %a) [ \"deopt\"(i32 %a, i32 7) ]"),
    ("call-musttail", "i32 %a", "%r = musttail call i32 @g(i32 %a)"), ("call-fmf", "float %a", "%r = call nnan float @h(float %a)"),
    ("inline-asm", "i32 %a", "%r = call i32 asm sideeffect \"nop\", \"=r,r\"(i32 %a)"),
]

TERMS = [
    ("ret-value", "i32 %a", "ret i32 %a", "i32"), ("switch", "i32 %a", "switch i32 %a, label %b1 [\n\t\ti32 1, label %b1\n\t\ti32 2, label %b2\n\t]", "void"),
    ("indirectbr", "i8* %a", "indirectbr i8* %a, [label %b1, label %b2]", "void"), ("invoke", "i32 %a", "%r = invoke i32 @g(i32 %a)\n\t\tto label %b1 unwind label %b2", "void"),
    ("callbr", "i32 %a", "callbr void asm \"\", \"r,i\"(i32 %a, i8* blockaddress(@f, %b2))\n\t\tto label %b1 [label %b2]", "void"), ("resume", "{ i8*, i32 } %a", "resume { i8*, i32 } %a", "void"),
    ("unreachable", "i32 %a", "unreachable", "void"), ("condbr", "i1 %a", "br i1 %a, label %b1, label %b2", "void"),
]


def inst_entries():
    out = []
    import itertools
    for se, al, intel, unwind in itertools.product(["", " sideeffect"], ["", " alignstack"], ["", " inteldialect"], ["", " unwind"]):
        flags = se + al + intel + unwind
        inst = 'call void asm%s "nop", "~{memory}"()' % flags
        out.append(("inst.inline-asm-flags%s" % flags.replace(" ", "-"), "define void @f() {\n\t%s\n\tret void\n}\n" % inst, [inst]))
    for name, param, inst in INSTS:
        text = "declare i32 @g(i32 %%0)\n\ndeclare float @h(float %%0)\n\ndefine void @f(%s) {\n\t%s\n\tret void\n}\n" % (param, inst)
        out.append(("inst." + name, text, [inst]))
    for name, param, term, ret in TERMS:
        text = ("declare i32 @g(i32 %%0)\n\ndefine %s @f(%s) personality i8* null {\n\t%s\n\nb1:\n\tret %s\n\nb2:\n\t%%lp = landingpad { i8*, i32 }\n\t\tcleanup\n\tret %s\n}\n"
                % (ret, param, term, "void" if ret == "void" else "i32 0", "void" if ret == "void" else "i32 0"))
        out.append(("term." + name, text, [term.split("\n")[0]]))
    return out


FOOT = ('!90 = !DIFile(filename: "a", directory: "b")\n!91 = distinct !DISubprogram(name: "f")\n!92 = !DIBasicType(name: "int")\n!93 = !{}\n'
        '!94 = !DILocation(line: 9, scope: !91)\n!96 = distinct !DIGlobalVariable(name: "v")\n')

DI_RAW = [
    ("DILocation", '!DILocation(line: 1, column: 2, scope: !91, inlinedAt: !94, isImplicitCode: true)', ["line: 1", "column: 2", "scope: !91", "inlinedAt: !94", "isImplicitCode: true"]),
    ("DIFile", '!DIFile(filename: "a.c", directory: "/d", source: "int x;")', ['filename: "a.c"', 'directory: "/d"', 'source: "int x;"']),
    ("DIBasicType", '!DIBasicType(name: "int", size: 32, align: 32, encoding: DW_ATE_signed, flags: DIFlagBigEndian)', ['name: "int"', "size: 32", "align: 32", "DW_ATE_signed", "DIFlagBigEndian"]),
    ("DIDerivedType", '!DIDerivedType(tag: DW_TAG_member, name: "m", scope: !91, file: !90, line: 3, baseType: !92, size: 8, offset: 16, flags: DIFlagPublic, extraData: i32 7, dwarfAddressSpace: 1)',
     ["tag: DW_TAG_member", 'name: "m"', "line: 3", "baseType: !92", "size: 8", "offset: 16", "DIFlagPublic", "extraData: i32 7", "dwarfAddressSpace: 1"]),
    ("DICompositeType", '!DICompositeType(tag: DW_TAG_structure_type, name: "s", file: !90, line: 1, size: 64, elements: !93, runtimeLang: DW_LANG_C, identifier: "id")',
     ["DW_TAG_structure_type", "elements: !93", "runtimeLang: DW_LANG_C", 'identifier: "id"']),
    ("DISubrange", '!DISubrange(count: 4, lowerBound: 1)', ["count: 4", "lowerBound: 1"]),
    ("DIEnumerator", '!DIEnumerator(name: "e", value: -5, isUnsigned: false)', ['name: "e"', "value: -5"]),
    ("DITemplateTypeParameter", '!DITemplateTypeParameter(name: "T", type: !92)', ['name: "T"', "type: !92"]),
    ("DITemplateValueParameter", '!DITemplateValueParameter(name: "V", type: !92, value: i32 7)', ["value: i32 7"]),
    ("DINamespace", '!DINamespace(name: "ns", scope: !90, exportSymbols: true)', ['name: "ns"', "exportSymbols: true"]),
    ("DIGlobalVariable", 'distinct !DIGlobalVariable(name: "g", linkageName: "_g", scope: !90, file: !90, line: 2, type: !92, isLocal: true, isDefinition: true, align: 8)',
     ['linkageName: "_g"', "isLocal: true", "isDefinition: true", "align: 8"]),
    ("DIGlobalVariableExpression", '!DIGlobalVariableExpression(var: !96, expr: !DIExpression())', ["var: !96", "expr: !DIExpression()"]),
    ("DILocalVariable", '!DILocalVariable(name: "x", arg: 1, scope: !91, file: !90, line: 2, type: !92, flags: DIFlagArtificial, align: 8)', ["arg: 1", "DIFlagArtificial", "align: 8"]),
    ("DILabel", '!DILabel(scope: !91, name: "l", file: !90, line: 7)', ['name: "l"', "line: 7"]),
    ("DILexicalBlock", 'distinct !DILexicalBlock(scope: !91, file: !90, line: 3, column: 4)', ["line: 3", "column: 4"]),
    ("DILexicalBlockFile", '!DILexicalBlockFile(scope: !91, file: !90, discriminator: 9)', ["discriminator: 9"]),
    ("DIImportedEntity", '!DIImportedEntity(tag: DW_TAG_imported_module, scope: !91, entity: !92, file: !90, line: 5, name: "n")', ["DW_TAG_imported_module", "entity: !92", "line: 5"]),
    ("DIMacroFile", '!DIMacroFile(line: 3, file: !90, nodes: !93)', ["line: 3", "nodes: !93"]),
    ("DIModule", '!DIModule(scope: !90, name: "M", configMacros: "-D", includePath: "/i", apinotes: "a", file: !90, line: 2, isDecl: true)', ['configMacros: "-D"', 'includePath: "/i"', "line: 2", "isDecl: true"]),
    ("DIObjCProperty", '!DIObjCProperty(name: "p", file: !90, line: 1, setter: "s", getter: "g", attributes: 7, type: !92)', ['setter: "s"', 'getter: "g"', "attributes: 7"]),
    ("DICommonBlock", '!DICommonBlock(scope: !91, declaration: !96, name: "c", file: !90, line: 4)', ["declaration: !96", "line: 4"]),
    ("DIStringType", '!DIStringType(name: "s", size: 32, align: 8, encoding: DW_ATE_ASCII)', ["size: 32", "DW_ATE_ASCII"]),
    ("GenericDINode", '!GenericDINode(tag: DW_TAG_member, header: "h", operands: {!93})', ['header: "h"']),
    ("DISubprogram-full", 'distinct !DISubprogram(name: "f", linkageName: "_f", scope: !90, file: !90, line: 1, type: !93, scopeLine: 2, containingType: !92, virtualIndex: 3, thisAdjustment: -4, flags: DIFlagPrototyped, spFlags: DISPFlagDefinition | DISPFlagOptimized, templateParams: !93, retainedNodes: !93, thrownTypes: !93)',
     ['linkageName: "_f"', "scopeLine: 2", "virtualIndex: 3", "thisAdjustment: -4", "DIFlagPrototyped", "DISPFlagDefinition | DISPFlagOptimized", "retainedNodes: !93", "thrownTypes: !93"]),
    ("DICompileUnit-full", 'distinct !DICompileUnit(language: DW_LANG_C99, file: !90, producer: "p", isOptimized: true, flags: "-O2", runtimeVersion: 2, splitDebugFilename: "s", emissionKind: FullDebug, enums: !93, retainedTypes: !93, globals: !93, imports: !93, macros: !93, dwoId: 7, debugInfoForProfiling: true, nameTableKind: GNU, rangesBaseAddress: true, sysroot: "/s", sdk: "k")',
     ['producer: "p"', "isOptimized: true", 'flags: "-O2"', "runtimeVersion: 2", "dwoId: 7", "debugInfoForProfiling: true", "nameTableKind: GNU", "rangesBaseAddress: true", 'sysroot: "/s"', 'sdk: "k"']),
]

DI = [(n, "!0 = " + t + "\n" + FOOT, fr) for n, t, fr in DI_RAW] + [
    # the same specialised nodes written INLINE as a tuple operand (not a numbered definition): printed in place, never as `!N`
    (n + ".inline", "!0 = !{" + t + "}\n" + FOOT, fr + ["!{" + t.split("(")[0] + "("]) for n, t, fr in DI_RAW if not t.startswith("distinct ")] + [
    ("DICompileUnit.splitDebugInlining-false", "!0 = distinct !DICompileUnit(language: DW_LANG_C99, file: !1, splitDebugInlining: false)\n!1 = !DIFile(filename: \"a\", directory: \"b\")\n", ["splitDebugInlining: false"]),
    ("md.value-in-call", "declare void @llvm.dbg.value(metadata %0, metadata %1, metadata %2)\n\ndefine void @f(i32 %a) {\n\tcall void @llvm.dbg.value(metadata i32 %a, metadata !0, metadata !DIExpression(DW_OP_plus_uconst, 3))\n\tret void\n}\n\n!0 = !{}\n", ["metadata i32 %a", "DW_OP_plus_uconst, 3"]),
    ("DIGlobalVariableExpression.numbered-expr", "!0 = !DIGlobalVariableExpression(var: !96, expr: !97)\n" + FOOT + "!97 = !DIExpression(DW_OP_deref)\n", ["var: !96", "expr: !97", "!97 = !DIExpression(DW_OP_deref)"]),
    ("md.numbered-diexpression-in-tuple", "!0 = !{!97, !97}\n!97 = !DIExpression(DW_OP_plus_uconst, 3)\n", ["!0 = !{!97, !97}"]),
    ("md.attachments-multi", "@g = global i32 0, !a !0, !b !1\n\n!0 = !{}\n!1 = !{}\n", ["!a !0", "!b !1"]),
    ("uselistorder", "@g = global i32 0\n@p = global i32* @g\n@q = global i32* @g\n\nuselistorder i32* @g, { 1, 0 }\n", ["uselistorder i32* @g, { 1, 0 }"]),
    ("uselistorder_bb", "define void @f() {\nb:\n\tbr label %b\n}\n\nuselistorder_bb @f, %b, { 1, 0 }\n", ["uselistorder_bb @f, %b, { 1, 0 }"]),
]


def comdat_entries():
    """entity kind x name spelling (plain, all-digit quoted, quoted with a space, unnamed) x comdat written explicitly / implicitly: the printer's short
    form ` comdat` and the parser's reading of it must agree on what the implicit name is"""
    out = []
    for nm, ident, cd in (("plain", "@g", "$g"), ("digits", '@"42"', '$"42"'), ("leading-zero", '@"007"', '$"007"'), ("space", '@"a b"', '$"a b"'), ("unnamed", "@0", '$"0"')):
        for spell in ("explicit", "implicit"):
            c = "comdat(%s)" % cd if spell == "explicit" else "comdat"
            if nm == "unnamed" and spell == "implicit":
                continue        # covered above (comdat.implicit-unnamed-*)
            out.append(("comdat.x.global.%s.%s" % (nm, spell), "%s = comdat any\n\n%s = global i32 0, %s\n" % (cd, ident, c), ["%s = global i32 0, comdat" % ident, "%s = comdat any" % cd]))
            out.append(("comdat.x.define.%s.%s" % (nm, spell), "%s = comdat any\n\ndefine void %s() %s {\n\tret void\n}\n" % (cd, ident, c), ["define void %s() comdat" % ident]))
            out.append(("comdat.x.declare.%s.%s" % (nm, spell), "%s = comdat any\n\ndeclare void %s() %s\n" % (cd, ident, c), ["declare void %s() comdat" % ident]))
    return out


def flag_cross_entries():
    """every flag-carrying instruction kind x operand type shape (scalar, fixed vector, scalable vector) x flag set: each instruction has its own
    translation function in package asm, and a flag lost on ONE kind for ONE shape is a silent change of meaning"""
    out = []
    fshapes = (("float", "float"), ("v4", "<4 x float>"), ("sv2", "<vscale x 2 x double>"))
    ishapes = (("i32", "i32"), ("v4", "<4 x i32>"), ("sv2", "<vscale x 2 x i64>"))
    def fn(ret, params, body):
        return "define %s @f(%s) {\n\t%s\n\tret %s %%r\n}\n" % (ret, params, body, ret)
    for fl in ("fast", "nnan arcp", "ninf nsz contract afn reassoc"):
        for sn, t in fshapes:
            for op in ("fadd", "fsub", "fmul", "fdiv", "frem"):
                line = "%%r = %s %s %s %%a, %%b" % (op, fl, t)
                out.append(("fmf.%s.%s.%s" % (op, sn, fl.replace(" ", "-")), fn(t, "%s %%a, %s %%b" % (t, t), line), [line]))
            line = "%%r = fneg %s %s %%a" % (fl, t)
            out.append(("fmf.fneg.%s.%s" % (sn, fl.replace(" ", "-")), fn(t, "%s %%a" % t, line), [line]))
            line = "%%c = fcmp %s olt %s %%a, %%b" % (fl, t)
            ct = "i1" if sn == "float" else t.replace("float", "i1").replace("double", "i1")
            out.append(("fmf.fcmp.%s.%s" % (sn, fl.replace(" ", "-")), "define %s @f(%s %%a, %s %%b) {\n\t%s\n\tret %s %%c\n}\n" % (ct, t, t, line, ct), [line]))
            line = "%%r = select %s i1 %%c, %s %%a, %s %%b" % (fl, t, t)
            out.append(("fmf.select.%s.%s" % (sn, fl.replace(" ", "-")), fn(t, "i1 %%c, %s %%a, %s %%b" % (t, t), line), [line]))
            line = "%%r = call %s %s @g(%s %%a)" % (fl, t, t)
            out.append(("fmf.call.%s.%s" % (sn, fl.replace(" ", "-")), "declare %s @g(%s)\n\n" % (t, t) + fn(t, "%s %%a" % t, line), [line]))
            line = "%%r = phi %s %s [ %%a, %%e ]" % (fl, t)
            out.append(("fmf.phi.%s.%s" % (sn, fl.replace(" ", "-")), "define %s @f(%s %%a) {\ne:\n\tbr label %%n\n\nn:\n\t%s\n\tret %s %%r\n}\n" % (t, t, line, t), [line]))
    for sn, t in ishapes:
        for op in ("add", "sub", "mul", "shl"):
            for fl in ("nuw", "nsw", "nuw nsw"):
                line = "%%r = %s %s %s %%a, %%b" % (op, fl, t)
                out.append(("ovf.%s.%s.%s" % (op, sn, fl.replace(" ", "-")), fn(t, "%s %%a, %s %%b" % (t, t), line), [line]))
        for op in ("udiv", "sdiv", "lshr", "ashr"):
            line = "%%r = %s exact %s %%a, %%b" % (op, t)
            out.append(("exact.%s.%s" % (op, sn), fn(t, "%s %%a, %s %%b" % (t, t), line), [line]))
    for sn, pt, it in (("scalar", "i32*", "i64"), ("v2", "<2 x i32*>", "<2 x i64>"), ("sv2", "<vscale x 2 x i32*>", "<vscale x 2 x i64>")):
        line = "%%r = getelementptr inbounds i32, %s %%p, %s %%i" % (pt, it)
        out.append(("inbounds.gep.%s" % sn, fn(pt, "%s %%p, %s %%i" % (pt, it), line), [line]))
    # the same flags on constant expressions
    for op in ("add", "sub", "mul", "shl"):
        for fl in ("nuw", "nsw", "nuw nsw"):
            out.append(("ovf.expr.%s.%s" % (op, fl.replace(" ", "-")), "@g = global i32 %s %s (i32 ptrtoint (i32* @g to i32), i32 1)\n" % (op, fl), ["%s %s (i32" % (op, fl)]))
    for op in ("lshr", "ashr"):          # (udiv / sdiv constant expressions no longer exist in the grammar)
        out.append(("exact.expr.%s" % op, "@g = global i32 %s exact (i32 ptrtoint (i32* @g to i32), i32 1)\n" % op, ["%s exact (i32" % op]))
    out.append(("inbounds.expr.gep", "@a = global [4 x i32] zeroinitializer\n@g = global i32* getelementptr inbounds ([4 x i32], [4 x i32]* @a, i64 0, i64 1)\n", ["getelementptr inbounds ([4 x i32]"]))
    return out


def all_entries(rows):
    return kw_entries(rows) + STRUCTURED + NAMED_NONSTRUCT + inst_entries() + DI + comdat_entries() + flag_cross_entries()
