"""Catalogue of one-construct modules: (name, input text, substrings that must survive parse+print).
Keyword families are taken from the REGENERATED enum table (every constant of ir/enum); structured
attributes, instructions, constants and debug-info nodes are a hand-written list."""


def kw_entries(rows):
    """rows: (type, const, value, string, back) from regen.enum_table"""
    out = []
    seen = set()
    for t, const, val, s, back in rows:
        if t == "untyped" or not s or (t, s) in seen or "(" in s:
            continue
        seen.add((t, s))
        e = None
        if t == "Linkage" and s != "none":
            e = ("@g = %s global i32%s\n" % (s, "" if s in ("external", "extern_weak") else " 0"), [s + " global"])
        elif t == "Visibility" and s != "none":
            e = ("@g = %s global i32 0\n" % s, [s + " global"])
        elif t == "DLLStorageClass" and s != "none":
            e = ("@g = %s global i32 0\n" % s, [s])
        elif t == "TLSModel" and s not in ("none", "generic"):
            e = ("@g = thread_local(%s) global i32 0\n" % s, ["thread_local(%s)" % s])
        elif t == "UnnamedAddr" and s != "none":
            e = ("@g = %s global i32 0\n" % s, [s + " global"])
        elif t == "Preemption" and s not in ("none", "dso_local_equivalent"):
            e = ("@g = %s global i32 0\n" % s, [s + " global"])
        elif t == "CallingConv" and s not in ("none",) and not s.startswith("cc "):
            e = ("declare %s void @f()\n" % s, ["declare %s void" % s])
        elif t == "FuncAttr":
            e = ("declare void @f() #0\n\nattributes #0 = { %s }\n" % s, ["{ %s }" % s])
        elif t == "ParamAttr":
            e = ("declare void @f(i32* %s)\n" % s, ["i32* %s" % s])
        elif t == "ReturnAttr":
            e = ("declare %s i32* @f()\n" % s, ["declare %s i32*" % s])
        elif t == "IPred":
            e = ("define i1 @f(i32 %%a) {\n\t%%r = icmp %s i32 %%a, 0\n\tret i1 %%r\n}\n" % s, ["icmp %s i32" % s])
        elif t == "FPred":
            e = ("define i1 @f(float %%a) {\n\t%%r = fcmp %s float %%a, %%a\n\tret i1 %%r\n}\n" % s, ["fcmp %s float" % s])
        elif t == "AtomicOrdering" and s not in ("none", "unordered", "monotonic"):
            e = ("define void @f() {\n\tfence %s\n\tret void\n}\n" % s, ["fence " + s])
        elif t == "AtomicOp":
            ty = "float" if s.startswith("f") else "i32"
            e = ("define void @f(%s* %%p, %s %%v) {\n\t%%r = atomicrmw %s %s* %%p, %s %%v seq_cst\n\tret void\n}\n" % (ty, ty, s, ty, ty), ["atomicrmw %s %s*" % (s, ty)])
        elif t == "FastMathFlag":
            e = ("define float @f(float %%a) {\n\t%%r = fadd %s float %%a, %%a\n\tret float %%r\n}\n" % s, ["fadd %s float" % s])
        elif t == "OverflowFlag":
            e = ("define i32 @f(i32 %%a) {\n\t%%r = add %s i32 %%a, 1\n\tret i32 %%r\n}\n" % s, ["add %s i32" % s])
        elif t == "Tail" and s != "none":
            e = ("declare void @g()\n\ndefine void @f() {\n\t%s call void @g()\n\tret void\n}\n" % s, ["%s call void" % s])
        elif t == "SelectionKind":
            e = ("$c = comdat %s\n" % s, ["comdat " + s])
        elif t == "DwarfTag":
            e = ("!0 = !DICompositeType(tag: %s, name: \"n\")\n" % s, ["tag: " + s])
        elif t == "DwarfLang":
            e = ("!0 = distinct !DICompileUnit(language: %s, file: !1)\n!1 = !DIFile(filename: \"a\", directory: \"b\")\n" % s, ["language: " + s])
        elif t == "DwarfAttEncoding":
            e = ("!0 = !DIBasicType(name: \"n\", size: 8, encoding: %s)\n" % s, ["encoding: " + s])
        elif t == "DwarfCC":
            e = ("!0 = !DISubroutineType(cc: %s, types: !1)\n!1 = !{}\n" % s, ["cc: " + s])
        elif t == "DwarfOp":
            e = ("!0 = !DIExpression(%s)\n" % s, [s])
        elif t == "DwarfVirtuality" and s != "DW_VIRTUALITY_none":
            e = ("!0 = !DISubprogram(name: \"f\", virtuality: %s)\n" % s, ["virtuality: " + s])
        elif t == "EmissionKind":
            e = ("!0 = distinct !DICompileUnit(language: DW_LANG_C, file: !1, emissionKind: %s)\n!1 = !DIFile(filename: \"a\", directory: \"b\")\n" % s, ["emissionKind: " + s] if s != "NoDebug" else ["DICompileUnit"])
        elif t == "NameTableKind" and s != "Default":
            e = ("!0 = distinct !DICompileUnit(language: DW_LANG_C, file: !1, nameTableKind: %s)\n!1 = !DIFile(filename: \"a\", directory: \"b\")\n" % s, ["nameTableKind: " + s])
        elif t == "ChecksumKind":
            e = ("!0 = !DIFile(filename: \"a\", directory: \"b\", checksumkind: %s, checksum: \"00\")\n" % s, ["checksumkind: " + s])
        elif t == "DwarfMacinfo":
            e = ("!0 = !DIMacro(type: %s, name: \"n\")\n" % s, ["type: " + s] if s != "DW_MACINFO_define" else ["DIMacro"])
        elif t == "DIFlag" and s != "DIFlagZero":
            e = ("!0 = !DIBasicType(name: \"n\", flags: %s)\n" % s, None)
        elif t == "DISPFlag" and s != "DISPFlagZero":
            e = ("!0 = !DISubprogram(name: \"f\", spFlags: %s)\n" % s, None)
        elif t == "ClauseType":
            e = ("define void @f() personality i8* null {\n\t%%lp = landingpad { i8*, i32 }\n\t\t%s %s\n\tret void\n}\n" % (s, "i8* null" if s == "catch" else "[0 x i8*] zeroinitializer"), ["\t\t" + s + " "])
        elif t == "FloatKind":
            e = ("@g = global %s* null\n" % s, [s + "* null"])
        if e:
            out.append(("%s.%s" % (t, s), e[0], e[1]))
    return out


STRUCTURED = [
    ("fattr.alignstack-pair", "declare void @f() #0\n\nattributes #0 = { alignstack=8 }\n", ["alignstack = 8"]),
    ("fattr.align-pair", "declare void @f() #0\n\nattributes #0 = { align=16 }\n", ["align = 16"]),
    ("fattr.alignstack", "declare void @f() alignstack(16)\n", ["alignstack(16)"]),
    ("fattr.allocsize1", "declare void @f() allocsize(0)\n", ["allocsize(0)"]),
    ("fattr.allocsize2", "declare void @f() allocsize(0, 1)\n", ["allocsize(0, 1)"]),
    ("fattr.string", "declare void @f() \"no-frame-pointer-elim\"\n", ["\"no-frame-pointer-elim\""]),
    ("fattr.pair", "declare void @f() \"k\"=\"v\"\n", ["\"k\"=\"v\""]),
    ("fattr.vscale_range", "declare void @f() vscale_range(1, 2)\n", ["vscale_range(1, 2)"]),
    ("fattr.uwtable-sync", "declare void @f() uwtable(sync)\n", ["uwtable(sync)"]),
    ("fattr.allockind", "declare void @f() allockind(\"alloc,zeroed\")\n", ["allockind(\"alloc,zeroed\")"]),
    ("func.align", "declare void @f() align 32\n", ["align 32"]),
    ("func.section", "declare void @f() section \"s\"\n", ["section \"s\""]),
    ("func.gc", "define void @f() gc \"g\" {\n\tret void\n}\n", ["gc \"g\""]),
    ("func.addrspace", "declare void @f() addrspace(3)\n", ["addrspace(3)"]),
    ("func.prefix", "define void @f() prefix i32 1 {\n\tret void\n}\n", ["prefix i32 1"]),
    ("func.prologue", "define void @f() prologue i8 2 {\n\tret void\n}\n", ["prologue i8 2"]),
    ("func.personality", "define void @f() personality i8* null {\n\tret void\n}\n", ["personality i8* null"]),
    ("pattr.align", "declare void @f(i32* align 8 %0)\n", ["align 8"]),
    ("pattr.deref", "declare void @f(i32* dereferenceable(8) %0)\n", ["dereferenceable(8)"]),
    ("pattr.deref_or_null", "declare void @f(i32* dereferenceable_or_null(8) %0)\n", ["dereferenceable_or_null(8)"]),
    ("pattr.byval", "declare void @f(i32* byval(i32) %0)\n", ["byval(i32)"]),
    ("pattr.sret", "declare void @f(i32* sret(i32) %0)\n", ["sret(i32)"]),
    ("pattr.byref", "declare void @f(i32* byref(i32) %0)\n", ["byref(i32)"]),
    ("pattr.inalloca", "declare void @f(i32* inalloca(i32) %0)\n", ["inalloca(i32)"]),
    ("pattr.elementtype", "declare void @f(i32* elementtype(i32) %0)\n", ["elementtype(i32)"]),
    ("pattr.preallocated", "declare void @f(i32* preallocated(i32) %0)\n", ["preallocated(i32)"]),
    ("rattr.deref", "declare dereferenceable(4) i32* @f()\n", ["dereferenceable(4)"]),
    ("global.section-align", "@g = global i32 0, section \"s\", align 8\n", ["section \"s\"", "align 8"]),
    ("global.partition", "@g = global i32 0, partition \"p\"\n", ["partition \"p\""]),
    ("global.addrspace", "@g = addrspace(2) global i32 0\n", ["addrspace(2) global"]),
    ("global.externally_initialized", "@g = externally_initialized global i32 0\n", ["externally_initialized"]),
    ("global.constant", "@g = constant i32 0\n", ["constant i32 0"]),
    ("global.tls", "@g = thread_local global i32 0\n", ["thread_local global"]),
    ("global.cc-number", "declare cc 200 void @f()\n", ["cc 200"]),
    ("ifunc", "@i = ifunc void (), void ()* ()* @r\n\ndeclare void ()* @r()\n", ["ifunc void ()"]),
    ("alias.linkage", "@g = global i32 0\n\n@a = weak alias i32, i32* @g\n", ["weak alias"]),
    ("comdat.implicit-unnamed-global", "$\"0\" = comdat any\n\n@0 = global i32 0, comdat($\"0\")\n", ["= comdat any", "@0 = global i32 0, comdat"]),
    ("comdat.implicit-unnamed-second", "$\"1\" = comdat any\n\n@0 = global i32 0\n@1 = global i32 0, comdat($\"1\")\n", ["@1 = global i32 0, comdat"]),
    ("comdat.implicit-named", "$g = comdat any\n\n@g = global i32 0, comdat\n", ["@g = global i32 0, comdat"]),
    ("comdat.implicit-func", "$f = comdat any\n\ndefine void @f() comdat {\n\tret void\n}\n", ["define void @f() comdat {"]),
    ("comdat.explicit-other", "$c = comdat any\n\n@g = global i32 0, comdat($c)\n", ["comdat($c)"]),
    ("names.numeric-quoted", "@\"0\" = global i32 5\n@p = global i32* @\"0\"\n\ndefine void @f(i32 %\"2\") {\n\"1\":\n\tbr label %\"3\"\n\n\"3\":\n\t%\"0\" = load i32, i32* @\"0\"\n\t%0 = add i32 %\"0\", %\"2\"\n\tbr label %\"1\"\n}\n",
     ["@\"0\" = global i32 5", "i32* @\"0\"", "\"1\":", "br label %\"3\"", "%\"0\" = load i32, i32* @\"0\"", "%0 = add i32 %\"0\", %\"2\""]),
    ("module.asm", "module asm \"nop\"\n", ["module asm \"nop\""]),
    ("datalayout", "target datalayout = \"e-m:e\"\n", ["target datalayout = \"e-m:e\""]),
    ("type.packed", "%T = type <{ i8, i32 }>\n", ["<{ i8, i32 }>"]),
    ("type.func", "@g = global void (i32, ...)* null\n", ["void (i32, ...)*"]),
    ("type.vec", "@g = global <4 x i32> zeroinitializer\n", ["<4 x i32>"]),
    ("type.scalable-vec", "@g = global <vscale x 4 x i32> zeroinitializer\n", ["<vscale x 4 x i32>"]),
    ("type.scalable-vec-typedef", "%v = type <vscale x 2 x i32>\n\n@g = global %v zeroinitializer\n", ["%v = type <vscale x 2 x i32>"]),
    ("type.vec-typedef", "%v = type <4 x i8>\n\n@g = global %v zeroinitializer\n", ["%v = type <4 x i8>"]),
    ("type.array", "@g = global [2 x [3 x i8]] zeroinitializer\n", ["[2 x [3 x i8]]"]),
    ("type.ptr-as", "@g = global i8 addrspace(5)* null\n", ["i8 addrspace(5)*"]),
    ("type.x86_mmx", "@g = external global x86_mmx\n", ["x86_mmx"]),
    ("type.token", "declare token @f()\n", ["token"]),
    ("type.metadata", "declare void @f(metadata %0)\n", ["metadata"]),
    ("const.struct", "@g = global { i32, i8 } { i32 1, i8 2 }\n", ["{ i32 1, i8 2 }"]),
    ("const.packed-struct", "@g = global <{ i32, i8 }> <{ i32 1, i8 2 }>\n", ["<{ i32 1, i8 2 }>"]),
    ("const.array", "@g = global [2 x i32] [i32 1, i32 2]\n", ["[i32 1, i32 2]"]),
    ("const.vector", "@g = global <2 x i32> <i32 1, i32 2>\n", ["<i32 1, i32 2>"]),
    ("const.chararray", "@g = global [3 x i8] c\"a\\22\\00\"\n", ["c\"a\\22\\00\""]),
    ("const.undef", "@g = global i32 undef\n", ["i32 undef"]),
    ("const.poison", "@g = global i32 poison\n", ["i32 poison"]),
    ("const.float", "@g = global double 1.5\n", ["double 1.5"]),
    ("const.float-hex", "@g = global double 0x7FF0000000000000\n", ["0x7FF0000000000000"]),
    ("const.half", "@g = global half 0xH3C00\n", ["half"]),
    ("const.fp80", "@g = global x86_fp80 0xK3FFF8000000000000000\n", ["0xK3FFF8000000000000000"]),
    ("const.fp128", "@g = global fp128 0xL00000000000000003FFF000000000000\n", ["0xL00000000000000003FFF000000000000"]),
    ("const.ppc", "@g = global ppc_fp128 0xM3FF00000000000000000000000000000\n", ["0xM3FF00000000000000000000000000000"]),
    ("const.none", "define void @f() {\n\t%c = cleanuppad within none []\n\tret void\n}\n", ["within none"]),
    ("const.blockaddress", "@g = global i8* blockaddress(@f, %b)\n\ndefine void @f() {\nb:\n\tret void\n}\n", ["blockaddress(@f, %b)"]),
    ("const.dso_local_equivalent", "declare void @f()\n\n@g = global void ()* dso_local_equivalent @f\n", ["dso_local_equivalent @f"]),
    ("const.no_cfi", "declare void @f()\n\n@g = global void ()* no_cfi @f\n", ["no_cfi @f"]),
    ("expr.gep-inbounds", "@a = global [4 x i32] zeroinitializer\n@g = global i32* getelementptr inbounds ([4 x i32], [4 x i32]* @a, i64 0, i64 1)\n", ["getelementptr inbounds ([4 x i32], [4 x i32]* @a, i64 0, i64 1)"]),
    ("expr.gep-inrange-first", "@a = global [4 x [4 x i8]] zeroinitializer\n@g = global i8* getelementptr inbounds ([4 x [4 x i8]], [4 x [4 x i8]]* @a, inrange i64 0, i64 1, i64 2)\n", ["@a, inrange i64 0, i64 1, i64 2)"]),
    ("expr.gep-inrange-last", "@a = global [4 x [4 x i8]] zeroinitializer\n@g = global i8* getelementptr ([4 x [4 x i8]], [4 x [4 x i8]]* @a, i64 0, i64 1, inrange i64 2)\n", ["i64 0, i64 1, inrange i64 2)"]),
    ("expr.gep-inrange", "@a = global [4 x i32] zeroinitializer\n@g = global i32* getelementptr ([4 x i32], [4 x i32]* @a, i64 0, inrange i64 1)\n", ["inrange i64 1"]),
    ("expr.ptrtoint", "@a = global i32 0\n@g = global i64 ptrtoint (i32* @a to i64)\n", ["ptrtoint (i32* @a to i64)"]),
    ("expr.add-nsw", "@g = global i32 add nsw (i32 1, i32 2)\n", ["add nsw (i32 1, i32 2)"]),
    ("expr.icmp", "@g = global i1 icmp ult (i32 1, i32 2)\n", ["icmp ult (i32 1, i32 2)"]),
    ("expr.select", "@g = global i32 select (i1 true, i32 1, i32 2)\n", ["select (i1 true, i32 1, i32 2)"]),
    ("expr.extractelement", "@g = global i32 extractelement (<2 x i32> <i32 1, i32 2>, i32 0)\n", ["extractelement ("]),
    ("expr.shufflevector", "@g = global <2 x i32> shufflevector (<2 x i32> <i32 1, i32 2>, <2 x i32> undef, <2 x i32> <i32 1, i32 0>)\n", ["shufflevector ("]),
    ("expr.addrspacecast", "@a = global i32 0\n@g = global i32 addrspace(1)* addrspacecast (i32* @a to i32 addrspace(1)*)\n", ["addrspacecast ("]),
    ("expr.fneg", "@g = global float fneg (float 1.0)\n", ["fneg (float 1.0)"]),
]

NAMED_NONSTRUCT = [
    ("named.i1", "%bool = type i1\n\ndefine %bool @f() {\n\tret %bool true\n}\n", ["true"]),
    ("named.i32", "%int = type i32\n\n@g = global %int 5\n", ["global %int 5"]),
    ("named.float", "%flt = type float\n\n@g = global %flt 1.0\n", ["global %flt 1.0"]),
    ("named.ptr", "%ptr = type i8*\n\n@g = global %ptr null\n", ["global %ptr null"]),
    ("named.vec", "%vec = type <2 x i32>\n\n@g = global %vec zeroinitializer\n", ["global %vec zeroinitializer"]),
    ("named.arr", "%arr = type [2 x i8]\n\n@g = global %arr zeroinitializer\n", ["global %arr zeroinitializer"]),
    ("named.func", "%fn = type void ()\n\n@g = global %fn* null\n", ["global %fn* null"]),
    ("named.i1-false", "%b2 = type i1\n\n@g = global %b2 false\n", ["false"]),
    ("named.void", "%v = type void\n\ndeclare %v @f()\n", ["declare %v @f()"]),
    ("named.token-none", "%tok = type token\n\ndefine void @f() {\n\t%c = cleanuppad within none []\n\tret void\n}\n", ["cleanuppad within none"]),
    ("named.metadata", "%md = type metadata\n\ndeclare void @f(%md %0)\n", ["%md %0"]),
    ("named.label", "%lbl = type label\n", ["%lbl = type label"]),
    # named (fixed and scalable) vector types used through vector constant expressions whose own result type is printed inline
    ("named.svec-shuffle", "%sv = type <vscale x 4 x i32>\n\ndefine %sv @f() {\n\tret %sv shufflevector (%sv undef, %sv undef, %sv zeroinitializer)\n}\n", ["shufflevector (%sv undef, %sv undef, %sv zeroinitializer)"]),
    ("named.fvec-shuffle", "%fv = type <4 x i32>\n\ndefine %fv @f() {\n\tret %fv shufflevector (%fv undef, %fv undef, %fv zeroinitializer)\n}\n", ["shufflevector (%fv undef, %fv undef, %fv zeroinitializer)"]),
    ("named.svec-icmp", "%sv = type <vscale x 2 x i64>\n\ndefine <vscale x 2 x i1> @f() {\n\tret <vscale x 2 x i1> icmp eq (%sv undef, %sv zeroinitializer)\n}\n", ["icmp eq (%sv undef, %sv zeroinitializer)"]),
    ("named.svec-fcmp", "%sf = type <vscale x 2 x double>\n\ndefine <vscale x 2 x i1> @f() {\n\tret <vscale x 2 x i1> fcmp oeq (%sf undef, %sf zeroinitializer)\n}\n", ["fcmp oeq (%sf undef, %sf zeroinitializer)"]),
    ("named.svec-gep", "%si = type <vscale x 2 x i64>\n\n@a = global i8 0\n\ndefine <vscale x 2 x i8*> @f() {\n\tret <vscale x 2 x i8*> getelementptr (i8, i8* @a, %si zeroinitializer)\n}\n", ["getelementptr (i8, i8* @a, %si zeroinitializer)"]),
    ("named.svec-inst", "%sv = type <vscale x 4 x i32>\n\ndefine void @f(%sv %a) {\n\t%c = icmp eq %sv %a, zeroinitializer\n\t%s = select <vscale x 4 x i1> %c, %sv %a, %sv %a\n\tret void\n}\n", ["select <vscale x 4 x i1> %c, %sv %a, %sv %a"]),
]

INSTS = [
    ("fneg", "float %a", "%r = fneg float %a"), ("sub-nuw-nsw", "i32 %a", "%r = sub nuw nsw i32 %a, 1"), ("mul", "i32 %a", "%r = mul i32 %a, %a"),
    ("udiv-exact", "i32 %a", "%r = udiv exact i32 %a, 3"), ("sdiv", "i32 %a", "%r = sdiv i32 %a, 3"), ("urem", "i32 %a", "%r = urem i32 %a, 3"), ("srem", "i32 %a", "%r = srem i32 %a, 3"),
    ("fsub", "float %a", "%r = fsub float %a, %a"), ("fmul-fast", "float %a", "%r = fmul fast float %a, %a"), ("fdiv", "float %a", "%r = fdiv float %a, %a"), ("frem", "float %a", "%r = frem float %a, %a"),
    ("shl", "i32 %a", "%r = shl i32 %a, 1"), ("lshr-exact", "i32 %a", "%r = lshr exact i32 %a, 1"), ("ashr", "i32 %a", "%r = ashr i32 %a, 1"), ("and", "i32 %a", "%r = and i32 %a, 1"), ("or", "i32 %a", "%r = or i32 %a, 1"), ("xor", "i32 %a", "%r = xor i32 %a, 1"),
    ("extractelement", "<2 x i32> %a", "%r = extractelement <2 x i32> %a, i32 0"), ("insertelement", "<2 x i32> %a", "%r = insertelement <2 x i32> %a, i32 1, i32 0"),
    ("shufflevector", "<2 x i32> %a", "%r = shufflevector <2 x i32> %a, <2 x i32> undef, <4 x i32> zeroinitializer"),
    ("extractvalue", "{ i32, [2 x i8] } %a", "%r = extractvalue { i32, [2 x i8] } %a, 1, 0"), ("insertvalue", "{ i32, i8 } %a", "%r = insertvalue { i32, i8 } %a, i8 1, 1"),
    ("alloca", "i32 %a", "%r = alloca i32, i32 %a, align 4"), ("alloca-as", "i32 %a", "%r = alloca i32, addrspace(5)"), ("alloca-inalloca", "i32 %a", "%r = alloca inalloca i32"),
    ("load-volatile", "i32* %a", "%r = load volatile i32, i32* %a, align 4"), ("load-atomic", "i32* %a", "%r = load atomic i32, i32* %a acquire, align 4"),
    ("store-volatile", "i32* %a", "store volatile i32 1, i32* %a"), ("store-atomic", "i32* %a", "store atomic i32 1, i32* %a release, align 4"),
    ("fence-syncscope", "i32 %a", "fence syncscope(\"singlethread\") seq_cst"), ("cmpxchg", "i32* %a", "%r = cmpxchg weak volatile i32* %a, i32 1, i32 2 acq_rel monotonic"),
    ("atomicrmw-volatile", "i32* %a", "%r = atomicrmw volatile xchg i32* %a, i32 1 monotonic"), ("gep-inbounds", "{ i32, [4 x i8] }* %a", "%r = getelementptr inbounds { i32, [4 x i8] }, { i32, [4 x i8] }* %a, i64 0, i32 1, i64 2"),
    ("trunc", "i32 %a", "%r = trunc i32 %a to i8"), ("zext", "i8 %a", "%r = zext i8 %a to i32"), ("sext", "i8 %a", "%r = sext i8 %a to i32"), ("fptrunc", "double %a", "%r = fptrunc double %a to float"),
    ("fpext", "float %a", "%r = fpext float %a to double"), ("fptoui", "float %a", "%r = fptoui float %a to i32"), ("fptosi", "float %a", "%r = fptosi float %a to i32"), ("uitofp", "i32 %a", "%r = uitofp i32 %a to float"),
    ("sitofp", "i32 %a", "%r = sitofp i32 %a to float"), ("ptrtoint", "i8* %a", "%r = ptrtoint i8* %a to i64"), ("inttoptr", "i64 %a", "%r = inttoptr i64 %a to i8*"), ("bitcast", "i8* %a", "%r = bitcast i8* %a to i32*"),
    ("addrspacecast", "i8* %a", "%r = addrspacecast i8* %a to i8 addrspace(1)*"), ("select", "i1 %a", "%r = select i1 %a, i32 1, i32 2"), ("freeze", "i32 %a", "%r = freeze i32 %a"),
    ("va_arg", "i8* %a", "%r = va_arg i8* %a, i32"), ("call-cc-attrs", "i32 %a", "%r = call fastcc zeroext i32 @g(i32 signext %a) nounwind"), ("call-bundle", "i32 %a", "%r = call i32 @g(i32 %a) [ \"deopt\"(i32 %a, i32 7) ]"),
    ("call-musttail", "i32 %a", "%r = musttail call i32 @g(i32 %a)"), ("call-fmf", "float %a", "%r = call nnan float @h(float %a)"),
    ("inline-asm", "i32 %a", "%r = call i32 asm sideeffect \"nop\", \"=r,r\"(i32 %a)"),
]

TERMS = [
    ("ret-value", "i32 %a", "ret i32 %a", "i32"), ("switch", "i32 %a", "switch i32 %a, label %b1 [\n\t\ti32 1, label %b1\n\t\ti32 2, label %b2\n\t]", "void"),
    ("indirectbr", "i8* %a", "indirectbr i8* %a, [label %b1, label %b2]", "void"), ("invoke", "i32 %a", "%r = invoke i32 @g(i32 %a)\n\t\tto label %b1 unwind label %b2", "void"),
    ("callbr", "i32 %a", "callbr void asm \"\", \"r,i\"(i32 %a, i8* blockaddress(@f, %b2))\n\t\tto label %b1 [label %b2]", "void"), ("resume", "{ i8*, i32 } %a", "resume { i8*, i32 } %a", "void"),
    ("unreachable", "i32 %a", "unreachable", "void"), ("condbr", "i1 %a", "br i1 %a, label %b1, label %b2", "void"),
]


def inst_entries():
    out = []
    import itertools
    for se, al, intel, unwind in itertools.product(["", " sideeffect"], ["", " alignstack"], ["", " inteldialect"], ["", " unwind"]):
        flags = se + al + intel + unwind
        inst = 'call void asm%s "nop", "~{memory}"()' % flags
        out.append(("inst.inline-asm-flags%s" % flags.replace(" ", "-"), "define void @f() {\n\t%s\n\tret void\n}\n" % inst, [inst]))
    for name, param, inst in INSTS:
        text = "declare i32 @g(i32 %%0)\n\ndeclare float @h(float %%0)\n\ndefine void @f(%s) {\n\t%s\n\tret void\n}\n" % (param, inst)
        out.append(("inst." + name, text, [inst]))
        # the same instruction carrying a metadata attachment (the attachment is translated last, after every optional clause of the instruction)
        if name != "freeze":                     # (the grammar has no attachment on freeze)
            inst2 = inst + ", !foo !0"
            out.append(("inst-md." + name, text.replace(inst, inst2) + "\n!0 = !{}\n", [inst2]))
    for name, param, term, ret in TERMS:
        text = ("declare i32 @g(i32 %%0)\n\ndefine %s @f(%s) personality i8* null {\n\t%s\n\nb1:\n\tret %s\n\nb2:\n\t%%lp = landingpad { i8*, i32 }\n\t\tcleanup\n\tret %s\n}\n"
                % (ret, param, term, "void" if ret == "void" else "i32 0", "void" if ret == "void" else "i32 0"))
        out.append(("term." + name, text, [term.split("\n")[0]]))
    return out


FOOT = ('!90 = !DIFile(filename: "a", directory: "b")\n!91 = distinct !DISubprogram(name: "f")\n!92 = !DIBasicType(name: "int")\n!93 = !{}\n'
        '!94 = !DILocation(line: 9, scope: !91)\n!96 = distinct !DIGlobalVariable(name: "v")\n')

DI_RAW = [
    ("DILocation", '!DILocation(line: 1, column: 2, scope: !91, inlinedAt: !94, isImplicitCode: true)', ["line: 1", "column: 2", "scope: !91", "inlinedAt: !94", "isImplicitCode: true"]),
    ("DIFile", '!DIFile(filename: "a.c", directory: "/d", source: "int x;")', ['filename: "a.c"', 'directory: "/d"', 'source: "int x;"']),
    ("DIBasicType", '!DIBasicType(name: "int", size: 32, align: 32, encoding: DW_ATE_signed, flags: DIFlagBigEndian)', ['name: "int"', "size: 32", "align: 32", "DW_ATE_signed", "DIFlagBigEndian"]),
    ("DIDerivedType", '!DIDerivedType(tag: DW_TAG_member, name: "m", scope: !91, file: !90, line: 3, baseType: !92, size: 8, offset: 16, flags: DIFlagPublic, extraData: i32 7, dwarfAddressSpace: 1)',
     ["tag: DW_TAG_member", 'name: "m"', "line: 3", "baseType: !92", "size: 8", "offset: 16", "DIFlagPublic", "extraData: i32 7", "dwarfAddressSpace: 1"]),
    ("DICompositeType", '!DICompositeType(tag: DW_TAG_structure_type, name: "s", file: !90, line: 1, size: 64, elements: !93, runtimeLang: DW_LANG_C, identifier: "id")',
     ["DW_TAG_structure_type", "elements: !93", "runtimeLang: DW_LANG_C", 'identifier: "id"']),
    ("DISubrange", '!DISubrange(count: 4, lowerBound: 1)', ["count: 4", "lowerBound: 1"]),
    ("DIEnumerator", '!DIEnumerator(name: "e", value: -5, isUnsigned: false)', ['name: "e"', "value: -5"]),
    ("DITemplateTypeParameter", '!DITemplateTypeParameter(name: "T", type: !92)', ['name: "T"', "type: !92"]),
    ("DITemplateValueParameter", '!DITemplateValueParameter(name: "V", type: !92, value: i32 7)', ["value: i32 7"]),
    ("DINamespace", '!DINamespace(name: "ns", scope: !90, exportSymbols: true)', ['name: "ns"', "exportSymbols: true"]),
    ("DIGlobalVariable", 'distinct !DIGlobalVariable(name: "g", linkageName: "_g", scope: !90, file: !90, line: 2, type: !92, isLocal: true, isDefinition: true, align: 8)',
     ['linkageName: "_g"', "isLocal: true", "isDefinition: true", "align: 8"]),
    ("DIGlobalVariableExpression", '!DIGlobalVariableExpression(var: !96, expr: !DIExpression())', ["var: !96", "expr: !DIExpression()"]),
    ("DILocalVariable", '!DILocalVariable(name: "x", arg: 1, scope: !91, file: !90, line: 2, type: !92, flags: DIFlagArtificial, align: 8)', ["arg: 1", "DIFlagArtificial", "align: 8"]),
    ("DILabel", '!DILabel(scope: !91, name: "l", file: !90, line: 7)', ['name: "l"', "line: 7"]),
    ("DILexicalBlock", 'distinct !DILexicalBlock(scope: !91, file: !90, line: 3, column: 4)', ["line: 3", "column: 4"]),
    ("DILexicalBlockFile", '!DILexicalBlockFile(scope: !91, file: !90, discriminator: 9)', ["discriminator: 9"]),
    ("DIImportedEntity", '!DIImportedEntity(tag: DW_TAG_imported_module, scope: !91, entity: !92, file: !90, line: 5, name: "n")', ["DW_TAG_imported_module", "entity: !92", "line: 5"]),
    ("DIMacroFile", '!DIMacroFile(line: 3, file: !90, nodes: !93)', ["line: 3", "nodes: !93"]),
    ("DIModule", '!DIModule(scope: !90, name: "M", configMacros: "-D", includePath: "/i", apinotes: "a", file: !90, line: 2, isDecl: true)', ['configMacros: "-D"', 'includePath: "/i"', "line: 2", "isDecl: true"]),
    ("DIObjCProperty", '!DIObjCProperty(name: "p", file: !90, line: 1, setter: "s", getter: "g", attributes: 7, type: !92)', ['setter: "s"', 'getter: "g"', "attributes: 7"]),
    ("DICommonBlock", '!DICommonBlock(scope: !91, declaration: !96, name: "c", file: !90, line: 4)', ["declaration: !96", "line: 4"]),
    ("DIStringType", '!DIStringType(name: "s", size: 32, align: 8, encoding: DW_ATE_ASCII)', ["size: 32", "DW_ATE_ASCII"]),
    ("GenericDINode", '!GenericDINode(tag: DW_TAG_member, header: "h", operands: {!93})', ['header: "h"']),
    ("DISubprogram-full", 'distinct !DISubprogram(name: "f", linkageName: "_f", scope: !90, file: !90, line: 1, type: !93, scopeLine: 2, containingType: !92, virtualIndex: 3, thisAdjustment: -4, flags: DIFlagPrototyped, spFlags: DISPFlagDefinition | DISPFlagOptimized, templateParams: !93, retainedNodes: !93, thrownTypes: !93)',
     ['linkageName: "_f"', "scopeLine: 2", "virtualIndex: 3", "thisAdjustment: -4", "DIFlagPrototyped", "DISPFlagDefinition | DISPFlagOptimized", "retainedNodes: !93", "thrownTypes: !93"]),
    ("DICompileUnit-full", 'distinct !DICompileUnit(language: DW_LANG_C99, file: !90, producer: "p", isOptimized: true, flags: "-O2", runtimeVersion: 2, splitDebugFilename: "s", emissionKind: FullDebug, enums: !93, retainedTypes: !93, globals: !93, imports: !93, macros: !93, dwoId: 7, debugInfoForProfiling: true, nameTableKind: GNU, rangesBaseAddress: true, sysroot: "/s", sdk: "k")',
     ['producer: "p"', "isOptimized: true", 'flags: "-O2"', "runtimeVersion: 2", "dwoId: 7", "debugInfoForProfiling: true", "nameTableKind: GNU", "rangesBaseAddress: true", 'sysroot: "/s"', 'sdk: "k"']),
]

DI_BOUNDS = [
    # integer fields at the ends of their ranges: signed 64-bit, unsigned 64-bit (stored in an int64 and converted back on print), 32-bit
    ("DIEnumerator.unsigned-max", '!DIEnumerator(name: "big", value: 18446744073709551615, isUnsigned: true)', ["value: 18446744073709551615, isUnsigned: true"]),
    ("DIEnumerator.unsigned-2^63", '!DIEnumerator(name: "big", value: 9223372036854775808, isUnsigned: true)', ["value: 9223372036854775808, isUnsigned: true"]),
    ("DIEnumerator.signed-min", '!DIEnumerator(name: "m", value: -9223372036854775808)', ["value: -9223372036854775808"]),
    ("DIEnumerator.signed-max", '!DIEnumerator(name: "m", value: 9223372036854775807)', ["value: 9223372036854775807"]),
    ("DIBasicType.size-max", '!DIBasicType(name: "t", size: 18446744073709551615, align: 4294967295)', ["size: 18446744073709551615", "align: 4294967295"]),
    ("DIDerivedType.offset-max", '!DIDerivedType(tag: DW_TAG_member, name: "m", baseType: !92, size: 18446744073709551615, offset: 18446744073709551615)', ["offset: 18446744073709551615"]),
    ("DISubrange.bounds", '!DISubrange(count: -1, lowerBound: -9223372036854775808)', ["count: -1", "lowerBound: -9223372036854775808"]),
    ("DISubprogram.thisAdjustment-min", 'distinct !DISubprogram(name: "f", virtualIndex: 4294967295, thisAdjustment: -9223372036854775808)', ["virtualIndex: 4294967295", "thisAdjustment: -9223372036854775808"]),
    ("DICompileUnit.dwoId-max", 'distinct !DICompileUnit(language: DW_LANG_C99, file: !90, dwoId: 18446744073709551615)', ["dwoId: 18446744073709551615"]),
    ("DILocation.line-max", '!DILocation(line: 4294967295, column: 65535, scope: !91)', ["line: 4294967295", "column: 65535"]),
    ("DILexicalBlockFile.discriminator-max", '!DILexicalBlockFile(scope: !91, file: !90, discriminator: 4294967295)', ["discriminator: 4294967295"]),
    ("DIExpression.operand-max", '!DIExpression(DW_OP_constu, 18446744073709551615, DW_OP_stack_value)', ["DW_OP_constu, 18446744073709551615"]),
    ("DIExpression.operand-2^63", '!DIExpression(DW_OP_plus_uconst, 9223372036854775808)', ["DW_OP_plus_uconst, 9223372036854775808"]),
    ("DITemplateValueParameter.i64-min", '!DITemplateValueParameter(name: "V", type: !92, value: i64 -9223372036854775808)', ["value: i64 -9223372036854775808"]),
]

DI_EXTRA = '!97 = !DIExpression(DW_OP_deref)\n!98 = !DILocalVariable(name: "n", scope: !91)\n!99 = !{!92, !96}\n'
# fields that take a REFERENCE where the usual spelling is an integer or nothing; references to NON-EMPTY tuples (a tuple that is still a skeleton when the
# referring node is translated looks empty)
DI_REFS = [(n, "!0 = " + t + "\n" + FOOT + DI_EXTRA, fr) for n, t, fr in [
    ("DISubrange.count-ref", '!DISubrange(count: !98, lowerBound: !97, stride: !97)', ["count: !98", "lowerBound: !97", "stride: !97"]),
    ("DISubrange.upper-ref", '!DISubrange(lowerBound: !98, upperBound: !97, stride: !98)', ["lowerBound: !98", "upperBound: !97", "stride: !98"]),
    ("DICompositeType.rank-ref", '!DICompositeType(tag: DW_TAG_array_type, baseType: !92, elements: !99, dataLocation: !97, associated: !97, allocated: !97, rank: !97, annotations: !99)',
     ["elements: !99", "dataLocation: !97", "associated: !97", "allocated: !97", "rank: !97", "annotations: !99"]),
    ("DICompositeType.rank-int", '!DICompositeType(tag: DW_TAG_array_type, baseType: !92, rank: 3)', ["rank: 3"]),
    ("DIStringType.refs", '!DIStringType(name: "s", stringLength: !98, stringLengthExpression: !97, stringLocationExpression: !97)', ["stringLength: !98", "stringLengthExpression: !97"]),
    ("DIMacroFile.nonempty-nodes", '!DIMacroFile(line: 3, file: !90, nodes: !99)', ["nodes: !99", "!99 = !{!92, !96}"]),
    ("DICompileUnit.nonempty-lists", 'distinct !DICompileUnit(language: DW_LANG_C99, file: !90, enums: !99, retainedTypes: !99, globals: !99, imports: !99, macros: !99)',
     ["enums: !99", "retainedTypes: !99", "globals: !99", "imports: !99", "macros: !99", "!99 = !{!92, !96}"]),
    ("DISubprogram.nonempty-lists", 'distinct !DISubprogram(name: "f", templateParams: !99, declaration: !91, retainedNodes: !99, thrownTypes: !99, annotations: !99)',
     ["templateParams: !99", "declaration: !91", "retainedNodes: !99", "thrownTypes: !99", "annotations: !99"]),
    ("DISubroutineType.nonempty-types", '!DISubroutineType(types: !99)', ["types: !99"]),
    ("DIDerivedType.annotations", '!DIDerivedType(tag: DW_TAG_member, name: "m", baseType: !92, annotations: !99)', ["annotations: !99"]),
    ("DIGlobalVariable.templateParams", 'distinct !DIGlobalVariable(name: "g", templateParams: !99, declaration: !96, annotations: !99)', ["templateParams: !99", "annotations: !99"]),
    ("DILocalVariable.annotations", '!DILocalVariable(name: "x", scope: !91, annotations: !99)', ["annotations: !99"]),
    ("DIImportedEntity.elements", '!DIImportedEntity(tag: DW_TAG_imported_module, scope: !91, entity: !92, elements: !99)', ["elements: !99"]),
    ("GenericDINode.operands", '!GenericDINode(tag: DW_TAG_member, header: "h", operands: {!99, !92})', ["operands: {!99, !92}"]),
    ("DITemplateValueParameter.md-value", '!DITemplateValueParameter(name: "V", type: !92, value: !99)', ["value: !99"]),
    ("DIObjCProperty.refs", '!DIObjCProperty(name: "p", file: !90, type: !92)', ["file: !90", "type: !92"]),
]]

# boolean fields that are TRUE when absent in LLVM (isDefinition of DIGlobalVariable / DISubprogram, splitDebugInlining of DICompileUnit): absent, true and
# false must each keep their meaning (an omitted `false` is read back by LLVM as true); spFlags takes precedence over isDefinition
DI_DEFAULTS = [
    ("DIGlobalVariable.isDefinition-false", 'distinct !DIGlobalVariable(name: "g", isLocal: false, isDefinition: false)', ["isDefinition: false"]),
    ("DIGlobalVariable.isDefinition-true", 'distinct !DIGlobalVariable(name: "g", isLocal: true, isDefinition: true)', ["isLocal: true", "isDefinition: true"]),
    ("DIGlobalVariable.isDefinition-absent", 'distinct !DIGlobalVariable(name: "g")', ["isDefinition: true"]),
    ("DICompileUnit.splitDebugInlining-false2", 'distinct !DICompileUnit(language: DW_LANG_C99, file: !90, splitDebugInlining: false)', ["splitDebugInlining: false"]),
    ("DICompileUnit.splitDebugInlining-true", 'distinct !DICompileUnit(language: DW_LANG_C99, file: !90, splitDebugInlining: true)', ["file: !90"]),
    ("DICompileUnit.splitDebugInlining-absent", 'distinct !DICompileUnit(language: DW_LANG_C99, file: !90)', ["file: !90"]),
    ("DISubprogram.distinct-isDefinition-false", 'distinct !DISubprogram(name: "k", isDefinition: false)', ["isDefinition: false"]),
    ("DISubprogram.distinct-spFlags-zero", 'distinct !DISubprogram(name: "k", spFlags: 0)', ["isDefinition: false"]),
    ("DISubprogram.distinct-absent", 'distinct !DISubprogram(name: "k")', ["isDefinition: true"]),
    ("DISubprogram.distinct-spFlags-definition", 'distinct !DISubprogram(name: "k", spFlags: DISPFlagDefinition)', ["spFlags: DISPFlagDefinition"]),
    ("DISubprogram.plain-isDefinition-false", '!DISubprogram(name: "k", isDefinition: false)', ["isDefinition: false"]),
    ("DISubprogram.plain-spFlags-optimized", '!DISubprogram(name: "k", spFlags: DISPFlagOptimized)', ["spFlags: DISPFlagOptimized"]),
    # enum-valued fields given as a NUMBER that has no keyword: printed as that number
    ("DIBasicType.encoding-number", '!DIBasicType(name: "x", size: 32, encoding: 200)', ["encoding: 200"]),
    ("DIStringType.encoding-number", '!DIStringType(name: "s", size: 32, encoding: 129)', ["encoding: 129"]),
    ("DICompileUnit.language-number", 'distinct !DICompileUnit(language: 200, file: !90)', ["language: 200"]),
    ("DISubroutineType.cc-number", '!DISubroutineType(cc: 200, types: !93)', ["cc: 200"]),
    ("DICompositeType.runtimeLang-number", '!DICompositeType(tag: DW_TAG_structure_type, name: "s", runtimeLang: 200)', ["runtimeLang: 200"]),
    ("DIMacro.type-number", '!DIMacro(type: 200, line: 1, name: "N", value: "1")', ["type: 200"]),
    # zero VALUES of fields that take a reference or an integer: an explicit 0 is a different node than an absent field
    ("DISubrange.lowerBound-zero", '!DISubrange(count: 3, lowerBound: 0)', ["count: 3, lowerBound: 0"]),
    ("DISubrange.count-zero", '!DISubrange(count: 0)', ["count: 0"]),
    ("DISubrange.upperBound-zero", '!DISubrange(lowerBound: 0, upperBound: 0, stride: 0)', ["lowerBound: 0, upperBound: 0, stride: 0"]),
    ("DIStringType.both-lengths", '!DIStringType(name: "s", stringLength: !96, stringLengthExpression: !DIExpression(), size: 8)', ["stringLength: !96", "stringLengthExpression: !DIExpression()"]),
    ("DIStringType.both-lengths-reversed", '!DIStringType(name: "s", stringLengthExpression: !DIExpression(), stringLength: !96, size: 8)', ["stringLength: !96", "stringLengthExpression: !DIExpression()"]),
]

DI = [(n, "!0 = " + t + "\n" + FOOT, fr) for n, t, fr in DI_RAW + DI_BOUNDS + DI_DEFAULTS] + [
    # the same specialised nodes written INLINE as a tuple operand (not a numbered definition): printed in place, never as `!N`
    (n + ".inline", "!0 = !{" + t + "}\n" + FOOT, fr + ["!{" + t.split("(")[0] + "("]) for n, t, fr in DI_RAW if not t.startswith("distinct ")] + [
    ] + [
    # every specialised node as a DISTINCT numbered definition (distinctness is set on the pre-allocated node before its body is translated)
    (n + ".distinct", "!0 = distinct " + t + "\n" + FOOT, ["!0 = distinct " + t.split("(")[0] + "("]) for n, t, fr in DI_RAW if not t.startswith("distinct ")] + [
    ("DIExpression.distinct-numbered", "!0 = !{!97, !98, !99}\n!97 = distinct !DIExpression(DW_OP_deref)\n!98 = distinct !DIExpression()\n!99 = !DIExpression(DW_OP_plus_uconst, 3, DW_OP_stack_value)\n",
     ["!97 = distinct !DIExpression(DW_OP_deref)", "!98 = distinct !DIExpression()", "!99 = !DIExpression(DW_OP_plus_uconst, 3, DW_OP_stack_value)"]),
    ("Tuple.distinct-forms", "!0 = distinct !{}\n!1 = distinct !{}\n!2 = !{}\n!3 = distinct !{!0, !1, !2}\n!4 = distinct !{null}\n",
     ["!0 = distinct !{}", "!1 = distinct !{}", "!2 = !{}", "!3 = distinct !{!0, !1, !2}", "!4 = distinct !{null}"]),
    ("DICompileUnit.splitDebugInlining-false", "!0 = distinct !DICompileUnit(language: DW_LANG_C99, file: !1, splitDebugInlining: false)\n!1 = !DIFile(filename: \"a\", directory: \"b\")\n", ["splitDebugInlining: false"]),
    ("md.value-in-call", "declare void @llvm.dbg.value(metadata %0, metadata %1, metadata %2)\n\ndefine void @f(i32 %a) {\n\tcall void @llvm.dbg.value(metadata i32 %a, metadata !0, metadata !DIExpression(DW_OP_plus_uconst, 3))\n\tret void\n}\n\n!0 = !{}\n", ["metadata i32 %a", "DW_OP_plus_uconst, 3"]),
    ("DIGlobalVariableExpression.numbered-expr", "!0 = !DIGlobalVariableExpression(var: !96, expr: !97)\n" + FOOT + "!97 = !DIExpression(DW_OP_deref)\n", ["var: !96", "expr: !97", "!97 = !DIExpression(DW_OP_deref)"]),
    ("md.numbered-diexpression-in-tuple", "!0 = !{!97, !97}\n!97 = !DIExpression(DW_OP_plus_uconst, 3)\n", ["!0 = !{!97, !97}"]),
    ("md.attachments-multi", "@g = global i32 0, !a !0, !b !1\n\n!0 = !{}\n!1 = !{}\n", ["!a !0", "!b !1"]),
    ("uselistorder", "@g = global i32 0\n@p = global i32* @g\n@q = global i32* @g\n\nuselistorder i32* @g, { 1, 0 }\n", ["uselistorder i32* @g, { 1, 0 }"]),
    ("uselistorder_bb", "define void @f() {\nb:\n\tbr label %b\n}\n\nuselistorder_bb @f, %b, { 1, 0 }\n", ["uselistorder_bb @f, %b, { 1, 0 }"]),
]


# entries that concern neither metadata nor a clause family
MISC = [
    ("cc.number-one", "declare cc 1 void @h()\n", ["cc 1"]),
    ("blockaddress.function-addrspace", "@p = global i8 addrspace(1)* blockaddress(@f, %bb)\n@u = global i64 ptrtoint (i8 addrspace(1)* blockaddress(@f, %bb) to i64)\n\ndefine void @f() addrspace(1) {\n\tindirectbr i8 addrspace(1)* blockaddress(@f, %bb), [label %bb]\n\nbb:\n\tret void\n}\n",
     ["@p = global i8 addrspace(1)* blockaddress(@f, %bb)", "ptrtoint (i8 addrspace(1)* blockaddress(@f, %bb) to i64)", "indirectbr i8 addrspace(1)* blockaddress(@f, %bb), [label %bb]"]),
    ("ifunc.expression-resolver", "@i = ifunc void (), bitcast (i8* ()* @r to void ()* ()*)\n@k = ifunc i32 (i32), i32 (i32)* ()* bitcast (i8* ()* @r to i32 (i32)* ()*)\n\ndefine i8* @r() {\n\tret i8* null\n}\n",
     ["@i = ifunc void (), void ()* ()* bitcast (i8* ()* @r to void ()* ()*)", "@k = ifunc i32 (i32), i32 (i32)* ()* bitcast (i8* ()* @r to i32 (i32)* ()*)"]),
]


# inputs that reproduce RECORDED FINDINGS (known_findings.json) and are rejected outright: run by C01 only
FINDING_ENTRIES = [
    ("retattr.align", "declare align 8 i8* @f()\n", ["declare align 8 i8* @f()"]),
    ("retattr.string", 'declare "k"="v" i8* @f()\n', ['declare "k"="v" i8* @f()']),
    ("retattr.align-call", "declare i8* @f()\n\ndefine void @g() {\n\t%r = call align 8 i8* @f()\n\tret void\n}\n", ["%r = call align 8 i8* @f()"]),
    ("global.metadata-before-align", "@g = global i32 0, !foo !0, align 4\n\n!0 = !{}\n", ["@g = global i32 0, align 4, !foo !0"]),
    ("diderivedtype.dwarf-address-space-zero", '@g = global i32 0, !dbg !0\n!llvm.module.flags = !{!5}\n!llvm.dbg.cu = !{!3}\n!0 = !DIGlobalVariableExpression(var: !1, expr: !DIExpression())\n!1 = distinct !DIGlobalVariable(name: "g", scope: !3, file: !4, line: 1, type: !7, isLocal: false, isDefinition: true)\n!2 = !DIBasicType(name: "int", size: 32, encoding: DW_ATE_signed)\n!3 = distinct !DICompileUnit(language: DW_LANG_C99, file: !4, producer: "x", isOptimized: false, runtimeVersion: 0, emissionKind: FullDebug, globals: !6)\n!4 = !DIFile(filename: "a.c", directory: "/")\n!5 = !{i32 2, !"Debug Info Version", i32 3}\n!6 = !{!0}\n!7 = !DIDerivedType(tag: DW_TAG_pointer_type, baseType: !2, size: 64, dwarfAddressSpace: 0)\n', ['dwarfAddressSpace: 0']),
    ("freeze.metadata-attachment", "define i32 @f(i32 %a) {\n\t%r = freeze i32 %a, !x !0\n\tret i32 %r\n}\n\n!0 = !{}\n", ["%r = freeze i32 %a, !x !0"]),
]


def comdat_entries():
    """entity kind x name spelling (plain, all-digit quoted, quoted with a space, unnamed) x comdat written explicitly / implicitly: the printer's short
    form ` comdat` and the parser's reading of it must agree on what the implicit name is"""
    out = []
    for nm, ident, cd in (("plain", "@g", "$g"), ("digits", '@"42"', '$"42"'), ("leading-zero", '@"007"', '$"007"'), ("space", '@"a b"', '$"a b"'), ("unnamed", "@0", '$"0"')):
        for spell in ("explicit", "implicit"):
            c = "comdat(%s)" % cd if spell == "explicit" else "comdat"
            if nm == "unnamed" and spell == "implicit":
                continue        # covered above (comdat.implicit-unnamed-*)
            out.append(("comdat.x.global.%s.%s" % (nm, spell), "%s = comdat any\n\n%s = global i32 0, %s\n" % (cd, ident, c), ["%s = global i32 0, comdat" % ident, "%s = comdat any" % cd]))
            out.append(("comdat.x.define.%s.%s" % (nm, spell), "%s = comdat any\n\ndefine void %s() %s {\n\tret void\n}\n" % (cd, ident, c), ["define void %s() comdat" % ident]))
            out.append(("comdat.x.declare.%s.%s" % (nm, spell), "%s = comdat any\n\ndeclare void %s() %s\n" % (cd, ident, c), ["declare void %s() comdat" % ident]))
    # a comdat whose NAME is the quoted display form of a digit-named entity (`"7"` with the quote characters) is not that entity's implicit comdat
    for kind, text in (("global", '@"7" = global i32 0, comdat($"\\227\\22")\n'), ("define", 'define void @"7"() comdat($"\\227\\22") {\n\tret void\n}\n'),
                       ("declare", 'declare void @"7"() comdat($"\\227\\22")\n')):
        out.append(("comdat.x.%s.display-form-name" % kind, '$"\\227\\22" = comdat any\n\n' + text, ['comdat($"\\227\\22")']))
    return out


def flag_cross_entries():
    """every flag-carrying instruction kind x operand type shape (scalar, fixed vector, scalable vector) x flag set: each instruction has its own
    translation function in package asm, and a flag lost on ONE kind for ONE shape is a silent change of meaning"""
    out = []
    fshapes = (("float", "float"), ("v4", "<4 x float>"), ("sv2", "<vscale x 2 x double>"))
    ishapes = (("i32", "i32"), ("v4", "<4 x i32>"), ("sv2", "<vscale x 2 x i64>"))
    def fn(ret, params, body):
        return "define %s @f(%s) {\n\t%s\n\tret %s %%r\n}\n" % (ret, params, body, ret)
    for fl in ("fast", "nnan arcp", "ninf nsz contract afn reassoc"):
        for sn, t in fshapes:
            for op in ("fadd", "fsub", "fmul", "fdiv", "frem"):
                line = "%%r = %s %s %s %%a, %%b" % (op, fl, t)
                out.append(("fmf.%s.%s.%s" % (op, sn, fl.replace(" ", "-")), fn(t, "%s %%a, %s %%b" % (t, t), line), [line]))
            line = "%%r = fneg %s %s %%a" % (fl, t)
            out.append(("fmf.fneg.%s.%s" % (sn, fl.replace(" ", "-")), fn(t, "%s %%a" % t, line), [line]))
            line = "%%c = fcmp %s olt %s %%a, %%b" % (fl, t)
            ct = "i1" if sn == "float" else t.replace("float", "i1").replace("double", "i1")
            out.append(("fmf.fcmp.%s.%s" % (sn, fl.replace(" ", "-")), "define %s @f(%s %%a, %s %%b) {\n\t%s\n\tret %s %%c\n}\n" % (ct, t, t, line, ct), [line]))
            line = "%%r = select %s i1 %%c, %s %%a, %s %%b" % (fl, t, t)
            out.append(("fmf.select.%s.%s" % (sn, fl.replace(" ", "-")), fn(t, "i1 %%c, %s %%a, %s %%b" % (t, t), line), [line]))
            line = "%%r = call %s %s @g(%s %%a)" % (fl, t, t)
            out.append(("fmf.call.%s.%s" % (sn, fl.replace(" ", "-")), "declare %s @g(%s)\n\n" % (t, t) + fn(t, "%s %%a" % t, line), [line]))
            line = "%%r = phi %s %s [ %%a, %%e ]" % (fl, t)
            out.append(("fmf.phi.%s.%s" % (sn, fl.replace(" ", "-")), "define %s @f(%s %%a) {\ne:\n\tbr label %%n\n\nn:\n\t%s\n\tret %s %%r\n}\n" % (t, t, line, t), [line]))
    for sn, t in ishapes:
        for op in ("add", "sub", "mul", "shl"):
            for fl in ("nuw", "nsw", "nuw nsw"):
                line = "%%r = %s %s %s %%a, %%b" % (op, fl, t)
                out.append(("ovf.%s.%s.%s" % (op, sn, fl.replace(" ", "-")), fn(t, "%s %%a, %s %%b" % (t, t), line), [line]))
        for op in ("udiv", "sdiv", "lshr", "ashr"):
            line = "%%r = %s exact %s %%a, %%b" % (op, t)
            out.append(("exact.%s.%s" % (op, sn), fn(t, "%s %%a, %s %%b" % (t, t), line), [line]))
    for sn, pt, it in (("scalar", "i32*", "i64"), ("v2", "<2 x i32*>", "<2 x i64>"), ("sv2", "<vscale x 2 x i32*>", "<vscale x 2 x i64>")):
        line = "%%r = getelementptr inbounds i32, %s %%p, %s %%i" % (pt, it)
        out.append(("inbounds.gep.%s" % sn, fn(pt, "%s %%p, %s %%i" % (pt, it), line), [line]))
    # the same flags on constant expressions
    for op in ("add", "sub", "mul", "shl"):
        for fl in ("nuw", "nsw", "nuw nsw"):
            out.append(("ovf.expr.%s.%s" % (op, fl.replace(" ", "-")), "@g = global i32 %s %s (i32 ptrtoint (i32* @g to i32), i32 1)\n" % (op, fl), ["%s %s (i32" % (op, fl)]))
    for op in ("lshr", "ashr"):          # (udiv / sdiv constant expressions no longer exist in the grammar)
        out.append(("exact.expr.%s" % op, "@g = global i32 %s exact (i32 ptrtoint (i32* @g to i32), i32 1)\n" % op, ["%s exact (i32" % op]))
    out.append(("inbounds.expr.gep", "@a = global [4 x i32] zeroinitializer\n@g = global i32* getelementptr inbounds ([4 x i32], [4 x i32]* @a, i64 0, i64 1)\n", ["getelementptr inbounds ([4 x i32]"]))
    return out


def addrspace_cross_entries():
    """every kind of global entity placed in a non-zero address space x every kind of site at which its (pointer) type is printed"""
    out = []
    G = "@g = addrspace(3) global i32 0\n"
    H = "declare void @h() addrspace(2)\n"
    A = G + "@a = alias i32, i32 addrspace(3)* @g\n"
    def fn(body, ret="void", retv="void"):
        return "\ndefine %s @f() {\n\t%s\n\tret %s\n}\n" % (ret, body, retv)
    for nm, pre, ref in (("global", G, "@g"), ("alias", A, "@a")):
        pt = "i32 addrspace(3)*"
        for site, text, frag in (
                ("store", pre + fn("store i32 1, %s %s" % (pt, ref)), "store i32 1, %s %s" % (pt, ref)),
                ("load", pre + fn("%%v = load i32, %s %s" % (pt, ref)), "load i32, %s %s" % (pt, ref)),
                ("ret", pre + "\ndefine %s @f() {\n\tret %s %s\n}\n" % (pt, pt, ref), "ret %s %s" % (pt, ref)),
                ("call-arg", pre + "declare void @k(%s)\n" % pt + fn("call void @k(%s %s)" % (pt, ref)), "call void @k(%s %s)" % (pt, ref)),
                ("icmp", pre + fn("%%c = icmp eq %s %s, null" % (pt, ref)), "icmp eq %s %s, null" % (pt, ref)),
                ("init", pre + "@p = global %s %s\n" % (pt, ref), "@p = global %s %s" % (pt, ref)),
                ("bitcast-expr", pre + "@p = global i8 addrspace(3)* bitcast (%s %s to i8 addrspace(3)*)\n" % (pt, ref), "bitcast (%s %s to" % (pt, ref)),
                ("gep-expr", pre + "@p = global %s getelementptr (i32, %s %s, i64 1)\n" % (pt, pt, ref), "getelementptr (i32, %s %s, i64 1)" % (pt, ref)),
                ("addrspacecast-expr", pre + "@p = global i32* addrspacecast (%s %s to i32*)\n" % (pt, ref), "addrspacecast (%s %s to i32*)" % (pt, ref)),
                ("struct-field", pre + "@p = global { %s } { %s %s }\n" % (pt, pt, ref), "{ %s %s }" % (pt, ref))):
            out.append(("addrspace.%s.%s" % (nm, site), text, [frag]))
    # aliases whose aliasee is a constant EXPRESSION in a non-zero address space: the alias' own type is derived from the expression
    AG = "@g = addrspace(2) global [2 x i32] zeroinitializer\n"
    for kind, al, pt in (("gep", "@a = alias i32, getelementptr inbounds ([2 x i32], [2 x i32] addrspace(2)* @g, i32 0, i32 1)", "i32 addrspace(2)*"),
                         ("gep-noinbounds", "@a = alias i32, getelementptr ([2 x i32], [2 x i32] addrspace(2)* @g, i64 0, i64 0)", "i32 addrspace(2)*"),
                         ("bitcast", "@a = alias i8, bitcast ([2 x i32] addrspace(2)* @g to i8 addrspace(2)*)", "i8 addrspace(2)*"),
                         ("addrspacecast", "@a = alias [2 x i32], addrspacecast ([2 x i32] addrspace(2)* @g to [2 x i32] addrspace(5)*)", "[2 x i32] addrspace(5)*"),
                         ("plain", "@a = alias [2 x i32], [2 x i32] addrspace(2)* @g", "[2 x i32] addrspace(2)*")):
        out.append(("addrspace.alias-of-expr.%s" % kind, AG + al + "\n@p = global %s @a\n" % pt, [al, "@p = global %s @a" % pt]))
    ft = "void () addrspace(2)*"
    for site, text, frag in (
            ("init", H + "@p = global %s @h\n" % ft, "@p = global %s @h" % ft),
            ("call", H + fn("call addrspace(2) void @h()"), "call addrspace(2) void @h()"),
            ("icmp", H + fn("%%c = icmp eq %s @h, null" % ft), "icmp eq %s @h, null" % ft),
            ("bitcast-expr", H + "@p = global i8 addrspace(2)* bitcast (%s @h to i8 addrspace(2)*)\n" % ft, "bitcast (%s @h to" % ft),
            ("store", H + "@q = global %s null\n" % ft + fn("store %s @h, %s* @q" % (ft, ft)), "store %s @h, %s* @q" % (ft, ft))):
        out.append(("addrspace.func.%s" % site, text, [frag]))
    return out


def written_type_entries():
    """inputs the parser accepts although the type WRITTEN in front of a global reference is not the global's type (the written type is discarded),
    and named non-struct types at the same sites: print(parse x) must still be accepted and be a fixpoint (C02 quantifies over everything accepted)"""
    out = []
    G = "@g = global i32 0\n"
    body = lambda b: "\ndefine void @f() {\n\t%s\n\tret void\n}\n" % b
    for nm, text in (
            ("gep-expr-src", G + "@p = global i8* getelementptr (i8, i8* @g, i64 0)\n"),
            ("gep-expr-src-inbounds", G + "@p = global i8* getelementptr inbounds (i8, i8* @g, i64 1)\n"),
            ("bitcast-expr-from", G + "@p = global i64* bitcast (i8* @g to i64*)\n"),
            ("ptrtoint-expr-from", G + "@p = global i64 ptrtoint (i8* @g to i64)\n"),
            ("addrspacecast-expr-from", G + "@p = global i8 addrspace(1)* addrspacecast (i8* @g to i8 addrspace(1)*)\n"),
            ("icmp-expr", G + "@p = global i1 icmp eq (i8* @g, i8* null)\n"),
            ("init", G + "@p = global i8* @g\n"),
            ("load", G + body("%v = load i8, i8* @g")),
            ("store", G + body("store i8 1, i8* @g")),
            ("gep-inst", G + body("%v = getelementptr i8, i8* @g, i64 1")),
            ("call-arg", G + "declare void @k(i8*)\n" + body("call void @k(i8* @g)")),
            ("icmp-inst", G + body("%c = icmp eq i8* @g, null")),
            ("ptrtoint-inst", G + body("%c = ptrtoint i8* @g to i64")),
            ("func-ref", "declare void @h()\n@p = global i8* @h\n"),
            ("func-ref-call", "declare void @h()\n" + body("call void bitcast (i8* @h to void ()*)()")),
    ):
        out.append(("written-type.%s" % nm, text, None))
    P = "%P = type i8*\n@g = global i8* null\n"
    for nm, text in (
            ("named-ptr.gep-expr", P + "@p = global %P* getelementptr (%P, %P* @g, i64 0)\n"),
            ("named-ptr.bitcast-expr", P + "@p = global i64* bitcast (%P* @g to i64*)\n"),
            ("named-ptr.init", P + "@p = global %P* @g\n"),
            ("named-ptr.load", P + body("%v = load %P, %P* @g")),
            ("named-ptr.store", P + body("store %P null, %P* @g")),
            ("named-ptr.gep-inst", P + body("%v = getelementptr %P, %P* @g, i64 1")),
            ("named-ptr.alloca", P + body("%v = alloca %P")),
            ("named-int.add", "%I = type i32\n\ndefine %I @f(%I %a) {\n\t%r = add %I %a, 1\n\tret %I %r\n}\n"),
            ("named-int.icmp", "%I = type i32\n\ndefine i1 @f(%I %a) {\n\t%r = icmp eq %I %a, 1\n\tret i1 %r\n}\n"),
            ("named-vec.icmp", "%V = type <4 x i32>\n\ndefine <4 x i32> @f(%V %a) {\n\t%c = icmp eq %V %a, zeroinitializer\n\t%z = zext <4 x i1> %c to <4 x i32>\n\tret <4 x i32> %z\n}\n"),
            ("named-vec.fcmp", "%V = type <4 x float>\n\ndefine <4 x i1> @f(%V %a) {\n\t%c = fcmp oeq %V %a, zeroinitializer\n\tret <4 x i1> %c\n}\n"),
            ("named-arr.extractvalue", "%A = type [2 x i32]\n\ndefine i32 @f(%A %a) {\n\t%r = extractvalue %A %a, 1\n\tret i32 %r\n}\n"),
    ):
        out.append(("written-type.%s" % nm, text, None))
    return out


MDF = "\n!0 = !{}\n!1 = !{!0}\n!2 = !{i32 1}\n!3 = !{i32 0, i32 9}\n!4 = !{!1}\n"

# REPETITION: the same kind / key / name given more than once in one list (where translation might merge, de-duplicate or index by name)
REPEATS = [
    ("repeat.inst-attachments", "define i32 @f(i32 %x) {\n\t%y = add i32 %x, 1, !dbg !0, !tbaa !1, !prof !2, !range !3, !dbg !4\n\tret i32 %y\n}\n" + MDF, None),
    ("repeat.term-attachments", "define void @f() {\n\tret void, !a !0, !b !1, !c !2, !a !4, !b !0\n}\n" + MDF, None),
    ("repeat.global-attachments", "@g = global i32 0, !a !0, !b !1, !c !2, !a !4\n" + MDF, None),
    ("repeat.func-attachments", "define void @f() !a !0 !b !1 !c !2 !a !4 {\n\tret void\n}\n" + MDF, None),
    ("repeat.decl-attachments", "declare !a !0 !b !1 !c !2 !a !4 void @f()\n" + MDF, None),
    ("repeat.func-attrs", "declare void @f() nounwind readnone nounwind \"k\"=\"v\" \"k\"=\"w\" \"k\"=\"v\"\n", None),
    ("repeat.param-attrs", "declare void @f(i8* nonnull noalias nonnull \"k\" \"k\" %p)\n", None),
    ("repeat.ret-attrs", "declare noalias nonnull noalias i8* @f()\n", None),
    ("repeat.call-attrs", "declare void @g(i8*)\n\ndefine void @f(i8* %p) {\n\tcall void @g(i8* nonnull noalias nonnull %p) nounwind \"a\" nounwind \"a\"\n\tret void\n}\n", None),
    ("repeat.named-metadata", "!n = !{!0, !1}\n!m = !{!2}\n!n = !{!1, !4, !0}\n" + MDF, None),
    ("repeat.named-metadata-operands", "!n = !{!0, !0, !1, !0}\n" + MDF, None),
    ("repeat.tuple-fields", "!9 = !{!0, !0, i32 1, i32 1, !\"s\", !\"s\", null, null}\n" + MDF, None),
    ("repeat.switch-targets", "define void @f(i32 %x) {\ne:\n\tswitch i32 %x, label %a [\n\t\ti32 1, label %a\n\t\ti32 2, label %b\n\t\ti32 3, label %a\n\t\ti32 4, label %b\n\t]\n\na:\n\tret void\n\nb:\n\tret void\n}\n", None),
    ("repeat.indirectbr-targets", "define void @f(i8* %p) {\ne:\n\tindirectbr i8* %p, [label %a, label %b, label %a, label %a]\n\na:\n\tret void\n\nb:\n\tret void\n}\n", None),
    ("repeat.phi-preds", "define i32 @f(i32 %x, i32 %y) {\ne:\n\tbr label %n\n\nn:\n\t%p = phi i32 [ %x, %e ], [ %y, %e ], [ %x, %n ], [ %p, %e ]\n\tbr label %n\n}\n", None),
    ("repeat.operand-bundles", "declare void @g()\n\ndefine void @f(i32 %x) {\n\tcall void @g() [ \"t\"(i32 %x), \"u\"(), \"t\"(i32 1), \"t\"(i32 %x) ]\n\tret void\n}\n", None),
    ("landingpad.cleanup-and-clauses", "define void @f() personality i8* null {\n\t%lp = landingpad { i8*, i32 }\n\t\tcleanup\n\t\tcatch i8* null\n\t\tfilter [0 x i8*] zeroinitializer\n\tret void\n}\n",
     ["\t\tcleanup\n\t\tcatch i8* null\n\t\tfilter [0 x i8*] zeroinitializer"]),
    ("landingpad.cleanup-and-catch", "define void @f() personality i8* null {\n\t%lp = landingpad { i8*, i32 }\n\t\tcleanup\n\t\tcatch i8* null\n\tret void\n}\n", ["\t\tcleanup\n\t\tcatch i8* null"]),
    ("repeat.landingpad-clauses", "define void @f() personality i8* null {\n\t%lp = landingpad { i8*, i32 }\n\t\tcatch i8* null\n\t\tcatch i8* null\n\t\tfilter [0 x i8*] zeroinitializer\n\t\tcatch i8* null\n\tret void\n}\n", None),
    ("repeat.uselistorder", "@g = global i32 0\n@p = global i32* @g\n@q = global i32* @g\n\nuselistorder i32* @g, { 1, 0 }\nuselistorder i32* @g, { 1, 0 }\n", None),
    ("repeat.comdat-users", "$c = comdat any\n\n@a = global i32 0, comdat($c)\n@b = global i32 0, comdat($c)\n\ndefine void @f() comdat($c) {\n\tret void\n}\n", None),
    ("repeat.attrgroup-refs", "declare void @f() #0 #1 #0\n\nattributes #0 = { nounwind }\nattributes #1 = { readnone }\n", None),
    ("repeat.struct-same-const", "@g = global { i32, i32, i32 } { i32 1, i32 1, i32 1 }\n@h = global [3 x i8*] [i8* bitcast ({ i32, i32, i32 }* @g to i8*), i8* bitcast ({ i32, i32, i32 }* @g to i8*), i8* null]\n", None),
    ("repeat.gep-indices", "@a = global [4 x [4 x i32]] zeroinitializer\n@p = global i32* getelementptr ([4 x [4 x i32]], [4 x [4 x i32]]* @a, i64 0, i64 1, i64 1)\n", None),
    ("repeat.di-flags", "!0 = !DIBasicType(name: \"t\", flags: DIFlagPublic | DIFlagArtificial | DIFlagPublic)\n", None),
]


# unsigned integer literals OUTSIDE typed constants (alignments, sizes, indices, IDs ...) written with leading zeros: decimal, never octal
UINT_LITS = [
    ("uint.global-align", "@g = global i32 0, align 016\n", ["align 16"]),
    ("uint.alloca-align", "define void @f() {\n\t%a = alloca i32, align 010\n\tret void\n}\n", ["align 10"]),
    ("uint.load-store-align", "define void @f(i32* %p) {\n\t%v = load i32, i32* %p, align 08\n\tstore i32 %v, i32* %p, align 0016\n\tret void\n}\n", ["align 8", "align 16"]),
    ("uint.func-align", "define void @f() align 032 {\n\tret void\n}\n", ["align 32"]),
    ("uint.alignstack", "declare void @f() alignstack(016)\n", ["alignstack(16)"]),
    ("uint.param-align-deref", "declare void @f(i8* align 010 dereferenceable(0100) dereferenceable_or_null(010) %p)\n", ["align 10", "dereferenceable(100)", "dereferenceable_or_null(10)"]),
    ("uint.addrspace", "@g = addrspace(010) global i32 0\n@p = global i32 addrspace(010)* @g\n", ["addrspace(10)"]),
    ("uint.array-len", "@g = global [010 x i8] zeroinitializer\n", ["[10 x i8]"]),
    ("uint.vector-len", "@g = global <010 x i8> zeroinitializer\n", ["<10 x i8>"]),
    ("uint.extractvalue-idx", "define i32 @f([12 x { i32, i32 }] %a) {\n\t%r = extractvalue [12 x { i32, i32 }] %a, 010, 01\n\tret i32 %r\n}\n", ["%a, 10, 1"]),
    ("uint.insertvalue-idx", "define [12 x i32] @f([12 x i32] %a) {\n\t%r = insertvalue [12 x i32] %a, i32 1, 011\n\tret [12 x i32] %r\n}\n", ["i32 1, 11"]),
    ("uint.diexpression", "!0 = !DIExpression(DW_OP_constu, 0100, DW_OP_plus_uconst, 010)\n", ["DW_OP_constu, 100, DW_OP_plus_uconst, 10"]),
    ("uint.di-fields", "!0 = !DIBasicType(name: \"t\", size: 0100, align: 010)\n!1 = !DILocation(line: 010, column: 07, scope: !2)\n!2 = distinct !DISubprogram(name: \"f\", line: 011, scopeLine: 012)\n", ["size: 100, align: 10", "line: 10, column: 7", "line: 11", "scopeLine: 12"]),
    ("uint.cc", "declare cc 010 void @f()\n", ["ghccc void"]),
    ("uint.vscale-range", "declare void @f() vscale_range(01,010)\n", ["vscale_range(1, 10)"]),
    ("uint.allocsize", "declare i8* @f(i32, i32) allocsize(00,01)\n", ["allocsize(0, 1)"]),
    ("uint.md-id-attrgroup", "declare void @f() #010\n\nattributes #010 = { nounwind }\n", ["attributes #10 = { nounwind }"]),
    ("uint.uselistorder", "@g = global i32 0\n@p = global i32* @g\n@q = global i32* @g\n\nuselistorder i32* @g, { 01, 00 }\n", ["{ 1, 0 }"]),
    ("uint.atomic-align", "define void @f(i32* %p) {\n\t%v = load atomic i32, i32* %p seq_cst, align 04\n\tret void\n}\n", ["align 4"]),
    ("uint.int-type-width", "@g = global i032 7\n", None),
]


from . import clausegen


def order_entries():
    """the same set of flags written in the OTHER order LLVM accepts; attribute arguments at the ends of their ranges; numbering across entity kinds"""
    out = []
    fn = lambda body: "define i32 @f(i32 %%a, i32 %%b) {\n\t%s\n\tret i32 %%r\n}\n" % body
    for op in ("add", "sub", "mul", "shl"):
        out.append(("ovf-order.%s" % op, fn("%%r = %s nsw nuw i32 %%a, %%b" % op), ["nsw", "nuw"]))
        out.append(("ovf-order.expr.%s" % op, "@g = global i32 %s nsw nuw (i32 ptrtoint (i32* @g to i32), i32 1)\n" % op, ["nsw", "nuw"]))
    for fl in ("nnan ninf", "ninf nnan", "reassoc nsz arcp", "afn contract nsz", "arcp nnan contract"):
        out.append(("fmf-order.%s" % fl.replace(" ", "-"), "define float @f(float %%a) {\n\t%%r = fadd %s float %%a, %%a\n\tret float %%r\n}\n" % fl, fl.split()))
    for a, b in ((0, 0), (1, 0), (0, 1), (1, 1), (2, 0)):
        out.append(("fattr.allocsize-%d-%d" % (a, b), "declare i8* @f(i64 %%0, i64 %%1, i64 %%2) allocsize(%d, %d)\n" % (a, b), ["allocsize(%d, %d)" % (a, b)]))
        out.append(("fattr.allocsize-group-%d-%d" % (a, b), "declare i8* @f(i64 %%0, i64 %%1, i64 %%2) #0\n\nattributes #0 = { allocsize(%d, %d) }\n" % (a, b), ["allocsize(%d, %d)" % (a, b)]))
    for k in ("alloc", "realloc", "free", "uninitialized", "zeroed", "aligned", "realloc,zeroed", "realloc,aligned", "free,uninitialized", "realloc,uninitialized,aligned"):
        out.append(("fattr.allockind-%s" % k.replace(",", "-"), "declare void @f() allockind(\"%s\")\n" % k, ["allockind(\"%s\")" % k]))
    # parameter lists mixing named, nameless and explicitly numbered parameters
    out.append(("params.named-then-nameless", "define void @f(i32 %x, i32) {\n\tret void\n}\n", ["i32 %x, i32 %0"]))
    out.append(("params.named-then-nameless-decl", "declare void @g(i8* %fmt, i32)\n", ["i8* %fmt, i32 %0"]))
    out.append(("params.named-nameless-explicit", "define i32 @h(i32 %x, i32, i32 %1, i32) {\n\tret i32 %2\n}\n", ["i32 %x, i32 %0, i32 %1, i32 %2", "ret i32 %2"]))
    out.append(("params.explicit-then-nameless", "define i32 @h(i32 %0, i32 %y, i32) {\n\tret i32 %1\n}\n", ["i32 %0, i32 %y, i32 %1", "ret i32 %1"]))
    # one counter of unnamed globals across global variables, functions, aliases and ifuncs
    out.append(("numbering.unnamed-alias-then-global", "@0 = global i32 0\n@1 = alias i32, i32* @0\n@2 = global i32 2\n\ndeclare void @3()\n", ["alias i32, i32* @0", "global i32 2", "declare void"]))
    out.append(("numbering.unnamed-ifunc-then-func", "@0 = ifunc void (), void ()* ()* @1\n\ndefine void ()* @1() {\n\tret void ()* null\n}\n\ndeclare void @2()\n\n@3 = global i8 1\n", ["ifunc void ()", "global i8 1"]))
    # entities of other namespaces with IDs of their own between unnamed globals (the counter of unnamed globals is theirs alone)
    out.append(("numbering.attrgroup-before-unnamed", "attributes #1 = { nounwind }\n@0 = global i32 0\n@1 = global i32 1\n@p = global i32* @1\n\ndeclare void @2() #1\n", ["@p = global i32* @1", "@1 = global i32 1"]))
    out.append(("numbering.attrgroup-between-unnamed", "@0 = global i32 0\nattributes #0 = { nounwind }\n@1 = global i32 1\n!5 = !{}\n@2 = global i32* @1\n", ["@2 = global i32* @1"]))
    # a float held at full precision that prints in DECIMAL notation (the reader of decimal literals must keep all 24 / 11 / 53 significand bits)
    out.append(("float.full-precision-decimal", "@g = global float 0x416FFFFFE0000000\n@h = global float 0x4150000020000000\n", ["float 1.6777215e+07", "float 4.1943045e+06"]))
    out.append(("double.full-precision-decimal", "@g = global double 9007199254740991.0\n@h = global half 0xH67FF\n", ["double 9.007199254740991e+15", "half 2047.0"]))
    return out


def round13_entries():
    """closing the misses of seed round 13"""
    out = []
    # every valid floating-point extension / truncation between the six kinds (by bit width: half 16 < float 32 < double 64 < x86_fp80 80 < fp128 = ppc_fp128 128; the two
    # 128-bit kinds do not convert into each other), as instruction and constant expression, scalar and vector
    order = ["half", "float", "double", "x86_fp80"]
    pairs = [(a, b) for i, a in enumerate(order) for b in order[i + 1:]] + [(a, b) for a in order for b in ("fp128", "ppc_fp128")]
    zero = {"half": "0.0", "float": "0.0", "double": "0.0", "x86_fp80": "0xK00000000000000000000", "fp128": "0xL00000000000000000000000000000000", "ppc_fp128": "0xM00000000000000000000000000000000"}
    for a, b in pairs:
        for op, x, y in (("fpext", a, b), ("fptrunc", b, a)):
            nm = "%s.%s-%s" % (op, x, y)
            out.append(("fpconv.inst." + nm, "define %s @f(%s %%x) {\n\t%%r = %s %s %%x to %s\n\tret %s %%r\n}\n" % (y, x, op, x, y, y), ["%%r = %s %s %%x to %s" % (op, x, y)]))
            out.append(("fpconv.vec." + nm, "define <2 x %s> @f(<2 x %s> %%x) {\n\t%%r = %s <2 x %s> %%x to <2 x %s>\n\tret <2 x %s> %%r\n}\n" % (y, x, op, x, y, y), ["%%r = %s <2 x %s> %%x to <2 x %s>" % (op, x, y)]))
            out.append(("fpconv.expr." + nm, "@g = global %s %s (%s %s to %s)\n" % (y, op, x, zero[x], y), ["%s (%s %s to %s)" % (op, x, zero[x], y)]))
    # fast-math flag sets of five and more members (a printer that abbreviates `all flags` to `fast` must mean all seven), on every instruction that takes them
    five = "nnan ninf nsz arcp contract"
    for fl in (five, five + " afn", five + " reassoc", five + " afn reassoc", "reassoc afn contract arcp nsz ninf nnan", "nnan ninf nsz arcp contract afn reassoc fast", "fast"):
        tag = fl.replace(" ", "-")
        out.append(("fmf-set.fneg." + tag, "define double @f(double %%a) {\n\t%%r = fneg %s double %%a\n\tret double %%r\n}\n" % fl, ["%%r = fneg %s double %%a" % fl]))
        for op in ("fadd", "fsub", "fmul", "fdiv", "frem"):
            out.append(("fmf-set.%s.%s" % (op, tag), "define double @f(double %%a) {\n\t%%r = %s %s double %%a, %%a\n\tret double %%r\n}\n" % (op, fl), ["%%r = %s %s double %%a, %%a" % (op, fl)]))
        out.append(("fmf-set.fcmp." + tag, "define i1 @f(double %%a) {\n\t%%r = fcmp %s oeq double %%a, %%a\n\tret i1 %%r\n}\n" % fl, ["%%r = fcmp %s oeq double %%a, %%a" % fl]))
        out.append(("fmf-set.call." + tag, "declare double @g(double %%0)\n\ndefine double @f(double %%a) {\n\t%%r = call %s double @g(double %%a)\n\tret double %%r\n}\n" % fl, ["%%r = call %s double @g(double %%a)" % fl]))
        out.append(("fmf-set.select." + tag, "define double @f(i1 %%c, double %%a) {\n\t%%r = select %s i1 %%c, double %%a, double %%a\n\tret double %%r\n}\n" % fl, ["%%r = select %s i1 %%c, double %%a, double %%a" % fl]))
    # fast not written first (LLVM accepts the flags in any order)
    for fl in ("nnan fast", "arcp contract fast", "fast nnan"):
        for op in ("fadd", "fsub", "fmul", "fdiv", "frem"):
            out.append(("fmf-fast-pos.%s.%s" % (op, fl.replace(" ", "-")), "define float @f(float %%a) {\n\t%%r = %s %s float %%a, %%a\n\tret float %%r\n}\n" % (op, fl), ["%%r = %s %s float %%a, %%a" % (op, fl)]))
    # RUNS of one overflow flag (llir keeps the flags as a list: `nsw nsw nsw` stays three flags), instructions and constant expressions
    for op in ("add", "sub", "mul", "shl"):
        for fl in ("nsw nsw nsw", "nuw nuw nuw nuw", "nsw nsw nuw nuw nuw", "nuw nsw nsw nsw"):
            tag = fl.replace(" ", "-")
            out.append(("ovf-run.%s.%s" % (op, tag), "define i32 @f(i32 %%a, i32 %%b) {\n\t%%r = %s %s i32 %%a, %%b\n\tret i32 %%r\n}\n" % (op, fl), ["%%r = %s %s i32 %%a, %%b" % (op, fl)]))
            out.append(("ovf-run.expr.%s.%s" % (op, tag), "@g = global i32 %s %s (i32 ptrtoint (i32* @g to i32), i32 1)\n" % (op, fl), ["%s %s (" % (op, fl)]))
    # entities WITHOUT A NAME that are otherwise alike (two unnamed functions of one type with equally named blocks): every kind of reference to each of them
    twin = ("@a = global i8* blockaddress(@0, %b)\n@b = global i8* blockaddress(@1, %b)\n@c = global void ()* dso_local_equivalent @0\n@d = global void ()* dso_local_equivalent @1\n"
            "@e = global void ()* no_cfi @0\n@f = global void ()* no_cfi @1\n@g = global [2 x void ()*] [void ()* @1, void ()* @0]\n\n"
            "define void @0() {\nb:\n\tret void\n}\n\ndefine void @1() {\nb:\n\tcall void @0()\n\tcall void @1()\n\tret void\n}\n")
    out.append(("unnamed-twins.function-references", twin, ["blockaddress(@0, %b)", "blockaddress(@1, %b)", "dso_local_equivalent @0", "dso_local_equivalent @1", "no_cfi @0", "no_cfi @1",
                                                            "[void ()* @1, void ()* @0]", "call void @0()", "call void @1()"]))
    out.append(("unnamed-twins.blocks", "@t = global [3 x i8*] [i8* blockaddress(@f, %1), i8* blockaddress(@f, %2), i8* blockaddress(@f, %0)]\n\ndefine void @f() {\n\tbr label %1\n\n1:\n\tbr label %2\n\n2:\n\tret void\n}\n",
                ["[i8* blockaddress(@f, %1), i8* blockaddress(@f, %2), i8* blockaddress(@f, %0)]"]))
    # a call / invoke whose RETURN type is a pointer to a function, written by the return type alone (not the legacy callee-type spelling)
    out.append(("call.returns-function-pointer", "declare i32 ()* @getfp()\n\ndefine i32 @f() {\n\t%p = call i32 ()* @getfp()\n\t%r = call i32 %p()\n\tret i32 %r\n}\n", ["%p = call i32 ()* @getfp()", "%r = call i32 %p()"]))
    out.append(("invoke.returns-function-pointer", "declare i32 ()* @getfp()\n\ndefine i32 ()* @f() personality i8* null {\n\t%p = invoke i32 ()* @getfp()\n\t\tto label %ok unwind label %bad\n\nok:\n\tret i32 ()* %p\n\nbad:\n\t%l = landingpad i8\n\t\tcleanup\n\tret i32 ()* null\n}\n",
                ["%p = invoke i32 ()* @getfp()", "ret i32 ()* %p"]))
    return out


def round14_entries():
    """closing the misses of seed round 14"""
    out = []
    # an explicit maximum of 0 (LLVM: unbounded) is not an omitted maximum
    for a, b in ((1, 0), (4, 0), (0, 0), (2, 2), (1, 16)):
        out.append(("vscale_range.%d-%d" % (a, b), "declare void @f() vscale_range(%d, %d)\n" % (a, b), ["vscale_range(%d, %d)" % (a, b)]))
        out.append(("vscale_range.group.%d-%d" % (a, b), "declare void @f() #0\n\nattributes #0 = { vscale_range(%d, %d) }\n" % (a, b), ["vscale_range(%d, %d)" % (a, b)]))
    out.append(("vscale_range.single", "declare void @f() vscale_range(8)\n", ["vscale_range(8)"]))
    # a global variable with metadata attachments AND attributes (grammar: attachments first, attributes last)
    out.append(("global.metadata-then-attrs", '@c = global i32 0, align 4, !foo !0 #0\n@d = external global i8, !foo !0, !bar !0 "k"="v"\n\nattributes #0 = { "k"="v" }\n\n!0 = !{}\n',
                ['@c = global i32 0, align 4, !foo !0 #0', '@d = external global i8, !foo !0, !bar !0 "k"="v"']))
    # blocks named by digits (quoted) next to unnamed blocks with the same number, as operands of blockaddress (written in the function ITSELF: LLVM 14 resolves
    # forward-referenced blockaddress operands of another function through a map whose ordering is undefined between a named and a numbered block — the same
    # file assembles to different modules from run to run — and refuses numbered labels of a function already defined)
    def inside(uses, rest):
        return "define void @f(i8** %p) {\n" + "".join("\tstore i8* %s, i8** %%p\n" % u for u in uses) + rest
    out.append(("blockaddress.block-named-digits", inside(['blockaddress(@f, %"x1")', 'blockaddress(@f, %1)'], '\tbr label %1\n\n1:\n\tbr label %x1\n\nx1:\n\tret void\n}\n'),
                ['store i8* blockaddress(@f, %x1), i8** %p', 'store i8* blockaddress(@f, %1), i8** %p']))
    out.append(("blockaddress.quoted-digits-next-to-id", inside(['blockaddress(@f, %"1")', 'blockaddress(@f, %1)', 'blockaddress(@f, %"42")'],
                                                                '\tbr label %1\n\n1:\n\tbr label %"1"\n\n"1":\n\tbr label %"42"\n\n"42":\n\tret void\n}\n'),
                ['store i8* blockaddress(@f, %"1"), i8** %p', 'store i8* blockaddress(@f, %1), i8** %p', 'store i8* blockaddress(@f, %"42"), i8** %p']))
    out.append(("blockaddress.quoted-digits-global", '@t = global [2 x i8*] [i8* blockaddress(@f, %"7"), i8* blockaddress(@f, %"42")]\n\ndefine void @f() {\n\tbr label %"7"\n\n"7":\n\tbr label %"42"\n\n"42":\n\tret void\n}\n',
                ['[i8* blockaddress(@f, %"7"), i8* blockaddress(@f, %"42")]']))
    out.append(("blockaddress.signed-looking-names", '@t = global [2 x i8*] [i8* blockaddress(@f, %-7), i8* blockaddress(@f, %"+5")]\n\ndefine void @f() {\n\tbr label %-7\n\n-7:\n\tbr label %"+5"\n\n"+5":\n\tret void\n}\n',
                ['[i8* blockaddress(@f, %-7), i8* blockaddress(@f, %"+5")]']))
    # functions and blocks whose dotted names concatenate alike: `a.b` + `c` and `a` + `b.c`
    dotted = ('@t = global [4 x i8*] [i8* blockaddress(@a.b, %c), i8* blockaddress(@a, %b.c), i8* blockaddress(@a.b, %c), i8* blockaddress(@a, %b.c)]\n'
              '@t1 = global i8* blockaddress(@a.b, %c)\n@t2 = global i8* blockaddress(@a, %b.c)\n@t3 = global i8* blockaddress(@a.b, %c)\n@t4 = global i8* blockaddress(@a, %b.c)\n\n'
              'define void @a.b() {\n\tbr label %c\n\nc:\n\tret void\n}\n\ndefine void @a() {\n\tbr label %b.c\n\nb.c:\n\tret void\n}\n')
    out.append(("blockaddress.dotted-names", dotted, ['[i8* blockaddress(@a.b, %c), i8* blockaddress(@a, %b.c), i8* blockaddress(@a.b, %c), i8* blockaddress(@a, %b.c)]',
                                                      '@t1 = global i8* blockaddress(@a.b, %c)', '@t2 = global i8* blockaddress(@a, %b.c)', '@t3 = global i8* blockaddress(@a.b, %c)',
                                                      '@t4 = global i8* blockaddress(@a, %b.c)']))
    # more than a dozen unnamed entities of all four kinds interleaved (the IDs follow the order of the text; an unstable sort by kind shows from 13 on)
    parts, k = [], 0
    for i in range(8):
        parts.append("@%d = global i32 %d\n" % (k, 100 + k)); k += 1
        parts.append("define i32 @%d() {\n\tret i32 %d\n}\n" % (k, 100 + k)); k += 1
        if i % 2 == 0:
            parts.append("@%d = alias i32, i32* @0\n" % k); k += 1
    out.append(("unnamed.many-interleaved", "\n".join(parts), ["ret i32"]))
    # the same !DIArgList text in two functions (each refers to its own function's values)
    dal = ('declare void @llvm.dbg.value(metadata %0, metadata %1, metadata %2)\n\n'
           'define void @f(i32 %x) {\n\tcall void @llvm.dbg.value(metadata !DIArgList(i32 %x), metadata !0, metadata !DIExpression())\n\tret void\n}\n\n'
           'define void @g(i32 %x) {\n\tcall void @llvm.dbg.value(metadata !DIArgList(i32 %x), metadata !0, metadata !DIExpression())\n\tcall void @llvm.dbg.value(metadata !DIArgList(i32 %x), metadata !0, metadata !DIExpression())\n\tret void\n}\n\n!0 = !{}\n')
    out.append(("diarglist.same-text-two-functions", dal, ["metadata !DIArgList(i32 %x)"]))
    # an alignment written among the FUNCTION ATTRIBUTES (`align=8`, the attribute-group spelling, which the parser lets through everywhere a function attribute
    # may stand): printed in the same form — `align 8` would be the alignment FIELD of a function and is no syntax at all after a global variable or a call
    out.append(("funcattr-align.global", '@x = global i32 0 align=8\n@y = global i32 0, align 4 align=8 "k"\n', ['@x = global i32 0 align=8', '@y = global i32 0, align 4 align=8 "k"']))
    out.append(("funcattr-align.function", 'define void @f() align=8 {\n\tret void\n}\n\ndeclare void @g() nounwind align=16 align 4\n', ['define void @f() align=8 {', 'declare void @g() nounwind align=16 align 4']))
    out.append(("funcattr-align.call-sites", 'declare void @g()\n\ndefine void @f() personality i8* null {\n\tcall void @g() align=8\n\tinvoke void @g() align=8 nounwind\n\t\tto label %a unwind label %b\n\na:\n\tcallbr void asm "", ""() align=2\n\t\tto label %c []\n\nb:\n\t%l = landingpad i8\n\t\tcleanup\n\tret void\n\nc:\n\tret void\n}\n',
                ['call void @g() align=8', 'invoke void @g() align=8 nounwind', 'callbr void asm "", ""() align=2']))
    # `no_cfi` in front of a global VARIABLE (LLVM accepts any global value there)
    out.append(("no_cfi.global-variable", '@g = global i32 0\n@p = global i32* no_cfi @g\n@q = global i32* getelementptr (i32, i32* no_cfi @g, i64 1)\n', ['@p = global i32* no_cfi @g', 'getelementptr (i32, i32* no_cfi @g, i64 1)']))
    # operands of allocsize / vscale_range of 2^63 and more (not LLVM — the operands are 32-bit there — but accepted by the parser: what is printed must be read again)
    for a in ("allocsize(9223372036854775808)", "allocsize(0, 9223372036854775808)", "allocsize(18446744073709551615)", "allocsize(18446744073709551614, 1)",
              "vscale_range(1, 9223372036854775808)", "vscale_range(9223372036854775808, 1)", "vscale_range(9223372036854775808)"):
        out.append(("attr-operand-wide." + a, "declare void @f() %s\n" % a, [a]))
    # the EMPTY comdat name (`$""`, accepted by LLVM too): printed quoted — `$` alone is not a token
    out.append(("comdat.empty-name", '$"" = comdat any\n\n@x = global i32 0, comdat($"")\n', ['$"" = comdat any', '@x = global i32 0, comdat($"")']))
    # numbered type definitions among names that sort below the digits, between them and above them
    tys = ['%0', '%1', '%2', '%10', '%.a', '%$s', '%-m', '%"1a"', '%z9', '%z10', '%"!x"', '%"2 b"']
    out.append(("typedefs.numbered-among-names", "".join("%s = type { [%d x i8] }\n" % (t, i + 1) for i, t in enumerate(tys)) + "\n" + "".join("@g%d = global %s zeroinitializer\n" % (i, t) for i, t in enumerate(tys)),
                ["@g%d = global %s zeroinitializer" % (i, t) for i, t in enumerate(tys)]))
    return out


def round15_entries():
    """closing the misses of seed round 15"""
    out = []
    # fast-math flags on a call whose result is an ARRAY of floating-point values or vectors (LLVM 14 accepts them nested to any depth)
    for ty in ("[2 x float]", "[3 x <2 x double>]", "[2 x [2 x half]]", "{ float, float }"):
        if ty.startswith("{"):
            continue          # (a struct result takes no fast-math flags in LLVM 14)
        for fl in ("fast", "nnan ninf", "reassoc nnan ninf nsz arcp contract afn"):
            out.append(("fmf-array-call.%s.%s" % (ty.replace(" ", ""), fl.replace(" ", "-")), "declare %s @a()\n\ndefine void @f() {\n\t%%r = call %s %s @a()\n\tret void\n}\n" % (ty, fl, ty),
                        ["%%r = call %s %s @a()" % (fl, ty)]))
    # decimal literals BEYOND the range of their kind (LLVM rejects them; the parser accepts them and prints the bits of the double): what is printed must be read
    # as the very same value again
    for lit in ("1.0e39", "3.5e38", "-4.0e38", "1.0e300"):
        out.append(("float-beyond-range." + lit, "@a = global float %s\n" % lit, ["@a = global float "]))
    for lit in ("70000.0", "1.0e10", "-65520.0"):
        out.append(("half-beyond-range." + lit, "@a = global half %s\n" % lit, ["@a = global half "]))
    # the `inrange` marker of an index of a getelementptr EXPRESSION (every position; with and without inbounds)
    vt = "@vt = global { [4 x i8*], [2 x i8*] } zeroinitializer\n"
    for ib in ("", "inbounds "):
        for pos in (0, 1, 2):
            idx = ["i32 0", "i32 1", "i32 2"]
            idx[pos] = "inrange " + idx[pos]
            e = "getelementptr %s({ [4 x i8*], [2 x i8*] }, { [4 x i8*], [2 x i8*] }* @vt, %s)" % (ib, ", ".join(idx))
            out.append(("gepexpr-inrange.%s%d" % (ib.strip() or "plain", pos), vt + "@p = global i8** %s\n" % e, ["@p = global i8** " + e]))
    # a call / invoke / callbr whose written type is a NAMED type standing for a function type (`%sig = type void (i32)`): a void call takes no number, the
    # unnamed values after it keep theirs
    for site, tail in (("call %sig @sink(i32 %x)", ""), ("invoke %sig @sink(i32 %x)\n\t\tto label %n unwind label %n", "n:\n"), ("callbr %sig asm \"\", \"r\"(i32 %x)\n\t\tto label %n []", "n:\n")):
        body = ("%%sig = type void (i32)\n%%rsig = type i32 (i32)\n\ndeclare void @sink(i32 %%0)\n\ndeclare i32 @src(i32 %%0)\n\ndefine i32 @f(i32 %%x) personality i8* null {\n\t%%1 = add i32 %%x, 1\n\t%s\n\n%s"
                "\t%%%d = mul i32 %%1, %%1\n\t%%%d = call %%rsig @src(i32 %%%d)\n\tret i32 %%%d\n}\n") % ((site, tail) + (2, 3, 2, 3))
        # (printed with the return type the named type stands for)
        out.append(("aliased-signature." + site.split()[0], body, ["\t" + site.split("\n")[0].replace("%sig", "void") + "\n", "\t%2 = mul i32 %1, %1\n", "\t%3 = call i32 @src(i32 %2)\n"]))
    return out


def round16_entries():
    """closing the misses of seed round 16"""
    out = []
    # TWO call sites in one function whose inline-assembly callees differ in exactly ONE component (each flag, the assembly string, the constraints, the
    # type), in both orders: a callee must not be shared with (or taken from) its near twin
    base = dict(se=True, al=False, it=False, uw=False, asm="nop", con="~{memory}", ty="void")
    def spell(d):
        fl = "".join(k + " " for k, on in (("sideeffect", d["se"]), ("alignstack", d["al"]), ("inteldialect", d["it"]), ("unwind", d["uw"])) if on)
        return 'call %s asm %s"%s", "%s"()' % (d["ty"], fl, d["asm"], d["con"])
    variants = [("sideeffect", dict(base, se=False)), ("alignstack", dict(base, al=True)), ("inteldialect", dict(base, it=True)), ("unwind", dict(base, uw=True)),
                ("asm", dict(base, asm="nop2")), ("constraints", dict(base, con="~{dirflag}")), ("type", dict(base, ty="i32", con="=r"))]
    for name, v in variants:
        for order in (0, 1):
            a, b = (base, v) if order == 0 else (v, base)
            la = ("%x = " if a["ty"] != "void" else "") + spell(a)
            lb = ("%x = " if b["ty"] != "void" else "") + spell(b)
            lc = la.replace("%x", "%y")
            text = "define void @f() {\n\t%s\n\t%s\n\t%s\n\tret void\n}\n" % (la, lb, lc)
            out.append(("inline-asm-twins.%s.%d" % (name, order), text, ["\t%s\n\t%s\n\t%s\n" % (la, lb, lc)]))
    # the same at an invoke and a callbr next to a call
    out.append(("inline-asm-twins.invoke-callbr", 'define void @f() personality i8* null {\n\tcall void asm sideeffect "nop", ""()\n\tinvoke void asm sideeffect unwind "nop", ""()\n\t\tto label %a unwind label %b\n\na:\n'
                '\tcallbr void asm sideeffect alignstack "nop", ""()\n\t\tto label %c []\n\nb:\n\t%l = landingpad i8\n\t\tcleanup\n\tret void\n\nc:\n\tcall void asm sideeffect "nop", ""()\n\tret void\n}\n',
                ['call void asm sideeffect "nop", ""()', 'invoke void asm sideeffect unwind "nop", ""()', 'callbr void asm sideeffect alignstack "nop", ""()']))
    # the EMPTY local name `%""` (a value, a parameter, a block): an unnamed local, numbered like every other one — not an explicit `%0`
    out.append(("empty-local-name.value", 'define i32 @g(i32 %0) {\n\t%"" = add i32 1, 2\n\tret i32 %2\n}\n', ["\t%2 = add i32 1, 2\n\tret i32 %2\n"]))
    out.append(("empty-local-name.param", 'define i32 @g(i32 %0, i32 %"") {\n\tret i32 %1\n}\n\ndeclare void @d(i32 %0, i32 %"")\n', ["define i32 @g(i32 %0, i32 %1) {\n", "\tret i32 %1\n", "declare void @d(i32 %0, i32 %1)"]))
    # a boolean literal at a NAMED i1 type keeps the type it was written at (one-step fixpoint)
    out.append(("named-i1.bool-literal", '%B = type i1\n\n@g = global { %B } { %B 1 }\n@h = global { %B, i1 } { %B false, i1 true }\n\ndefine %B @f(%B %x) {\n\t%y = xor %B %x, true\n\tret %B false\n}\n',
                ["@g = global { %B } { %B true }", "@h = global { %B, i1 } { %B false, i1 true }", "\t%y = xor %B %x, true\n\tret %B false\n"]))
    # `expr: null` of a DIGlobalVariableExpression (LLVM reads it as the empty expression; the field is REQUIRED, so it must be printed)
    out.append(("digve.expr-null", '@g = global i32 0, !dbg !0\n\n!llvm.module.flags = !{!5}\n!llvm.dbg.cu = !{!3}\n\n!0 = !DIGlobalVariableExpression(var: !1, expr: null)\n'
                '!1 = distinct !DIGlobalVariable(name: "g", scope: !3, file: !4, line: 1, type: !2, isLocal: false, isDefinition: true)\n!2 = !DIBasicType(name: "int", size: 32, encoding: DW_ATE_signed)\n'
                '!3 = distinct !DICompileUnit(language: DW_LANG_C99, file: !4, producer: "x", isOptimized: false, runtimeVersion: 0, emissionKind: FullDebug, globals: !6)\n!4 = !DIFile(filename: "a.c", directory: "/")\n'
                '!5 = !{i32 2, !"Debug Info Version", i32 3}\n!6 = !{!0}\n', ["!0 = !DIGlobalVariableExpression(var: !1, expr: !DIExpression())"]))
    # attribute strings whose ONLY byte that needs an escape is a backslash, directly followed by two hexadecimal digits or by another backslash (a printer that
    # copies "harmless" strings unescaped turns `\5CDe` into the escape `\De`): every site that prints a string attribute, key and value
    for i, (src, canon) in enumerate((("C:\\5CDev", "C:\\5CDev"), ("a\\5C\\5C41", "a\\5C\\5C41"), ("\\\\00", "\\5C00"), ("x\\5Cff", "x\\5Cff"))):
        pair, lone = '"k%d"="%s"' % (i, src), '"%s"' % src
        cpair, clone = '"k%d"="%s"' % (i, canon), '"%s"' % canon
        key, ckey = '"%s"="v"' % src, '"%s"="v"' % canon
        text = ("@g = global i32 0 %s\n\ndeclare void @d(i32 %s %%0) %s\n\ndefine void @f() %s %s {\n\tcall void @d(i32 %s 1) %s\n\tret void\n}\n\nattributes #0 = { %s %s }\n"
                % (pair, lone, key, pair, lone, pair, lone, pair, key))
        out.append(("attr-string-backslash-hex.%d" % i, text + "\ndefine void @h() #0 {\n\tret void\n}\n",
                    ["@g = global i32 0 " + cpair, "declare void @d(i32 %s %%0) %s" % (clone, ckey), "define void @f() %s %s {" % (cpair, clone), "call void @d(i32 %s 1) %s" % (cpair, clone),
                     "attributes #0 = { %s %s }" % (cpair, ckey)]))
    return out


def round17_entries():
    """closing the misses of seed round 17"""
    out = []
    # enum members printed inside a structured attribute by a hand-written String method: the unwind-table kinds (function header, call site, attribute group)
    for kind in ("uwtable", "uwtable(sync)", "uwtable(async)"):
        out.append(("enumattr.uwtable.%s" % kind, "declare void @d() %s\n\ndefine void @f() %s {\n\tcall void @d() %s\n\tret void\n}\n\ndefine void @g() #0 {\n\tret void\n}\n\nattributes #0 = { %s }\n" % (kind, kind, kind, kind),
                    ["declare void @d() %s\n" % kind, "define void @f() %s {" % kind, "\tcall void @d() %s\n" % kind, "attributes #0 = { %s }" % kind]))
    # attributes with an UNSIGNED 64-bit operand at 2^63 and 2^64 - 1 (a signed print gives a minus sign): parameter, return value, call site, function header, group
    for n in (9223372036854775807, 9223372036854775808, 18446744073709551615):
        for attr in ("dereferenceable(%d)" % n, "dereferenceable_or_null(%d)" % n):
            text = ("declare %s i8* @d(i8* %s %%0)\n\ndefine void @f(i8* %%p) {\n\t%%r = call %s i8* @d(i8* %s %%p)\n\tret void\n}\n" % (attr, attr, attr, attr))
            out.append(("uint64-attr.%s" % attr, text, ["declare %s i8* @d(i8* %s %%0)" % (attr, attr), "%%r = call %s i8* @d(i8* %s %%p)" % (attr, attr)]))
        out.append(("uint64-attr.alignstack.%d" % n, "define void @f() alignstack(%d) {\n\tret void\n}\n" % n, ["define void @f() alignstack(%d) {" % n]))
    return out


def round18_entries():
    """closing the misses of seed round 18"""
    out = []
    # comdat names that BEGIN with the sigil character `$` or contain it (`$$x`: the name is `$x`), explicit and implicit (a global variable / function of that name)
    for i, nm in enumerate(("$x", "$$", "a$b", "$", "$$x$")):
        out.append(("comdat-dollar.%d" % i, "$%s = comdat any\n$x%d = comdat largest\n\n@g = global i32 0, comdat($%s)\n@%s = global i32 1, comdat\n\ndefine void @f() comdat($%s) {\n\tret void\n}\n" % (nm, i, nm, nm, nm),
                    ["$%s = comdat any" % nm, "@g = global i32 0, comdat($%s)" % nm, "@%s = global i32 1, comdat\n" % nm, "define void @f() comdat($%s) {" % nm]))
    return out

def round20_entries():
    """closing the misses of seed round 20"""
    out = []
    # a clause written TWICE on an alias / ifunc (the last one wins, as in LLVM)
    out.append(("alias.partition-twice", '@g = global i32 0\n\n@a = alias i32, i32* @g, partition "p1", partition "p2"\n', ['@a = alias i32, i32* @g, partition "p2"']))
    out.append(("ifunc.partition-twice", 'define i32 ()* @r() {\n\tret i32 ()* null\n}\n\n@i = ifunc i32 (), i32 ()* ()* @r, partition "p1", partition "p2"\n', ['@i = ifunc i32 (), i32 ()* ()* @r, partition "p2"']))
    # a NUMBERED !DIExpression (old-LLVM style) referred to by its ID from a tuple, from a field of a specialised node and from a metadata-typed call argument: every
    # reference prints the ID of the definition (a reference that became a copy prints the expression inline)
    out.append(("diexpression.numbered-references", 'declare void @llvm.dbg.value(metadata, metadata, metadata)\n\ndefine void @f(i32 %x) {\n\tcall void @llvm.dbg.value(metadata i32 %x, metadata !5, metadata !4)\n\tret void\n}\n\n'
                '!named = !{!3, !6}\n\n!3 = !{!4, !4}\n!4 = !DIExpression(DW_OP_deref)\n!5 = !{}\n!6 = !DIGlobalVariableExpression(var: !7, expr: !4)\n!7 = distinct !DIGlobalVariable(name: "g", scope: null, isLocal: false, isDefinition: true)\n',
                ["metadata !5, metadata !4)", "!3 = !{!4, !4}", "!4 = !DIExpression(DW_OP_deref)", "expr: !4)"]))
    out.append(("diexpression.numbered-empty", '!named = !{!6}\n\n!4 = !DIExpression()\n!6 = !DIGlobalVariableExpression(var: !7, expr: !4)\n!7 = distinct !DIGlobalVariable(name: "g", scope: null, isLocal: false, isDefinition: true)\n',
                ["!4 = !DIExpression()", "expr: !4)"]))
    return out

def round21_entries():
    """closing the misses of seed round 21: the text `...` INSIDE an argument list that is not the forwarded-arguments marker of a musttail call — the ellipsis of
    a variadic function TYPE (of an argument, inside a constant expression, of the callee) and the bytes of a metadata string"""
    out = []
    P = "declare i32 @printf(i8*, ...)\n\ndeclare void @reg(i32 (i8*, ...)*)\n\ndeclare void @reg2(i8*, i32)\n\ndeclare void @md(metadata)\n\n"
    out.append(("call.arg-variadic-funcptr", P + "define void @f() {\n\tcall void @reg(i32 (i8*, ...)* @printf)\n\tret void\n}\n", ["call void @reg(i32 (i8*, ...)* @printf)"]))
    out.append(("call.arg-variadic-funcptr-in-cast", P + "define void @f() {\n\tcall void @reg2(i8* bitcast (i32 (i8*, ...)* @printf to i8*), i32 7)\n\tret void\n}\n",
                ["call void @reg2(i8* bitcast (i32 (i8*, ...)* @printf to i8*), i32 7)"]))
    out.append(("call.arg-metadata-string-with-dots", P + 'define void @f() {\n\tcall void @md(metadata !"a, ...")\n\tret void\n}\n', ['call void @md(metadata !"a, ...")']))
    out.append(("call.arg-variadic-funcptr-tail", P + "define void @f() {\n\ttail call void @reg(i32 (i8*, ...)* @printf)\n\t%r = call i32 (i8*, ...) @printf(i8* null, i32 (i8*, ...)* @printf)\n\tret void\n}\n",
                ["tail call void @reg(i32 (i8*, ...)* @printf)", "%r = call i32 (i8*, ...) @printf(i8* null, i32 (i8*, ...)* @printf)"]))
    out.append(("invoke.arg-variadic-funcptr", P + "declare i32 @pers(...)\n\ndefine void @f() personality i32 (...)* @pers {\n\tinvoke void @reg(i32 (i8*, ...)* @printf)\n\t\tto label %ok unwind label %bad\n\nok:\n\tret void\n\nbad:\n\t%lp = landingpad { i8*, i32 }\n\t\tcleanup\n\tret void\n}\n",
                ["invoke void @reg(i32 (i8*, ...)* @printf)"]))
    # (round 22) a type definition whose body is a NAMED type is another name of that type: accepted, printed once under the target's name, stable
    out.append(("typedef.alias-of-pointer-type", "%b = type i8*\n%a = type %b\n\n@g = global %a null\n", ["%b = type i8*", "@g = global %b null"]))
    out.append(("typedef.alias-of-struct-forward", "%a = type %b\n%b = type { i32 }\n\n@g = global %a zeroinitializer\n", ["%b = type { i32 }", "@g = global %b zeroinitializer"]))
    out.append(("typedef.alias-chain", "%z = type %y\n%y = type %x\n%x = type { %z*, i8 }\n\n@g = global %z zeroinitializer\n", ["%x = type { %x*, i8 }", "@g = global %x zeroinitializer"]))
    out.append(("typedef.alias-of-int", "%a = type %b\n%b = type i32\n\n@g = global %a 7\n", ["%b = type i32", "@g = global %b 7"]))
    return out

def bare_digit_identifiers():
    """identifiers made of digits at the boundaries of the ID range, written BARE (2^63 - 1 is the largest ID llir reads; from 2^63 on it reads the digits as a NAME; LLVM
    reads every bare digit identifier as an ID, so these are no LLVM inputs: C02 only — whatever the parser accepts is printed as a one-step fixpoint)"""
    out = []
    for n in (9223372036854775807, 9223372036854775808, 18446744073709551615, 18446744073709551616):
        out.append("%%%d = type { i32 }\n\n@g = global %%%d zeroinitializer\n" % (n, n))
        out.append("define i32 @f(i32 %%%d) {\n%d:\n\tret i32 %%%d\n}\n" % (n, n + 1, n))
        out.append("@%d = global i32 0\n@p = global i32* @%d\n" % (n, n))
        out.append("$%d = comdat any\n\n@g = global i32 0, comdat($%d)\n" % (n, n))
    return out


def layout_entries():
    """a value USED in a block that is written BEFORE the block that defines it (legal: the definition dominates through the CFG): the parser types forward
    references from the scaffold it builds in a first pass, so a constant next to such an operand is built at the scaffold's type"""
    out = []
    D, I = "0x3FB999999999999A", "1234567890123"
    cases = [
        ("fpext", "float %a", "%e = fpext float %a to double", "double", "fadd double %e, " + D),
        ("fptrunc", "double %a", "%e = fptrunc double %a to float", "float", "fadd float %e, 0x3FB99999A0000000"),
        ("zext", "i8 %a", "%e = zext i8 %a to i64", "i64", "add i64 %e, " + I),
        ("sext", "i8 %a", "%e = sext i8 %a to i64", "i64", "add i64 %e, " + I),
        ("trunc", "i64 %a", "%e = trunc i64 %a to i8", "i8", "add i8 %e, 100"),
        # i1 on one side: a constant built at the wrong one of the two types is SPELLED differently (`1` / `true`)
        ("zext-i1", "i1 %a", "%e = zext i1 %a to i32", "i32", "add i32 %e, 1"),
        ("sext-i1", "i1 %a", "%e = sext i1 %a to i32", "i1", "icmp ne i32 %e, 0"),
        ("trunc-i1", "i64 %a", "%e = trunc i64 %a to i1", "i1", "xor i1 %e, true"),
        ("uitofp-i1", "i1 %a", "%e = uitofp i1 %a to double", "double", "fadd double %e, 1.0"),
        ("fptoui-i1", "double %a", "%e = fptoui double %a to i1", "i1", "and i1 %e, true"),
        ("icmp-i1", "i64 %a", "%e = icmp eq i64 %a, 1", "i1", "or i1 %e, false"),
        ("select-i1", "i1 %a", "%e = select i1 %a, i64 1, i64 0", "i64", "add i64 %e, 1"),
        ("ptrtoint", "i8* %a", "%e = ptrtoint i8* %a to i64", "i64", "add i64 %e, " + I),
        ("inttoptr", "i64 %a", "%e = inttoptr i64 %a to i8*", "i1", "icmp eq i8* %e, null"),
        ("bitcast", "i64 %a", "%e = bitcast i64 %a to double", "double", "fadd double %e, " + D),
        ("uitofp", "i8 %a", "%e = uitofp i8 %a to double", "double", "fadd double %e, " + D),
        ("sitofp", "i8 %a", "%e = sitofp i8 %a to double", "double", "fadd double %e, " + D),
        ("fptoui", "float %a", "%e = fptoui float %a to i64", "i64", "add i64 %e, " + I),
        ("fptosi", "float %a", "%e = fptosi float %a to i64", "i64", "add i64 %e, " + I),
        ("addrspacecast", "i8* %a", "%e = addrspacecast i8* %a to i8 addrspace(1)*", "i1", "icmp eq i8 addrspace(1)* %e, null"),
        ("load", "i64* %a", "%e = load i64, i64* %a", "i64", "add i64 %e, " + I),
        ("extractvalue", "{ i8, i64 } %a", "%e = extractvalue { i8, i64 } %a, 1", "i64", "add i64 %e, " + I),
        ("extractelement", "<2 x i64> %a", "%e = extractelement <2 x i64> %a, i8 1", "i64", "add i64 %e, " + I),
        ("icmp", "i64 %a", "%e = icmp eq i64 %a, 7", "i1", "xor i1 %e, true"),
        ("fcmp", "double %a", "%e = fcmp oeq double %a, " + D, "i1", "xor i1 %e, true"),
        ("select", "i1 %a", "%e = select i1 %a, i64 1, i64 2", "i64", "add i64 %e, " + I),
        ("call", "i8 %a", "%e = call i64 @g(i8 %a)", "i64", "add i64 %e, " + I),
        ("phi", "i8 %a", "%e = phi i64 [ 5, %entry ]", "i64", "add i64 %e, " + I),
        ("freeze", "i64 %a", "%e = freeze i64 %a", "i64", "add i64 %e, " + I),
        ("shufflevector", "<2 x i8> %a", "%e = shufflevector <2 x i8> %a, <2 x i8> undef, <4 x i32> zeroinitializer", "<4 x i8>", "add <4 x i8> %e, <i8 1, i8 2, i8 3, i8 4>"),
        ("binary", "i64 %a", "%e = mul i64 %a, 3", "i64", "add i64 %e, " + I),
    ]
    for name, param, d, rt, use in cases:
        text = ("declare i64 @g(i8 %%0)\n\ndefine %s @f(%s) {\nentry:\n\tbr label %%def\n\nuse:\n\t%%r = %s\n\tret %s %%r\n\ndef:\n\t%s\n\tbr label %%use\n}\n"
                % (rt, param, use, rt, d))
        out.append(("layout.use-before-def." + name, text, ["%r = " + use, d]))
    # a NAMED (alias) type written at an operand position that is not the result type: the result must not inherit the name
    out += [
        ("alias-operand.shufflevector-mask", "%mask = type <4 x i32>\n\ndefine <4 x float> @f(<2 x float> %a, <2 x float> %b) {\n\t%r = shufflevector <2 x float> %a, <2 x float> %b, %mask <i32 0, i32 1, i32 2, i32 3>\n\t%s = fadd <4 x float> %r, %r\n\tret <4 x float> %s\n}\n",
         ["fadd <4 x float> %r, %r", "ret <4 x float> %s"]),
        ("alias-operand.select-cond", "%c = type <2 x i1>\n\ndefine <2 x i32> @f(%c %k, <2 x i32> %a) {\n\t%r = select %c %k, <2 x i32> %a, <2 x i32> zeroinitializer\n\t%s = add <2 x i32> %r, %r\n\tret <2 x i32> %s\n}\n",
         ["add <2 x i32> %r, %r"]),
        ("alias-operand.icmp", "%v = type <2 x i32>\n\ndefine <2 x i1> @f(%v %a) {\n\t%r = icmp eq %v %a, zeroinitializer\n\t%s = xor <2 x i1> %r, %r\n\tret <2 x i1> %s\n}\n", ["xor <2 x i1> %r, %r"]),
        ("alias-operand.extractelement-index", "%ix = type i32\n\ndefine i64 @f(<2 x i64> %a, %ix %i) {\n\t%r = extractelement <2 x i64> %a, %ix %i\n\t%s = add i64 %r, %r\n\tret i64 %s\n}\n", ["add i64 %r, %r"]),
        ("alias-operand.cast-source", "%b = type i8\n\ndefine i64 @f(%b %a) {\n\t%r = zext %b %a to i64\n\t%s = add i64 %r, %r\n\tret i64 %s\n}\n", ["add i64 %r, %r"]),
        ("alias-operand.gep-index", "%ix = type i64\n\ndefine i32* @f(i32* %p, %ix %i) {\n\t%r = getelementptr i32, i32* %p, %ix %i\n\t%s = getelementptr i32, i32* %r, i64 1\n\tret i32* %s\n}\n", ["getelementptr i32, i32* %r, i64 1"]),
    ]
    # the same positions in CONSTANT EXPRESSIONS whose own type is printed (operand of `ret`): the expression's type must not inherit the name
    out += [
        ("alias-expr.shufflevector-mask", "%mask = type <4 x i32>\n\ndefine <4 x float> @f() {\n\tret <4 x float> shufflevector (<2 x float> undef, <2 x float> undef, %mask <i32 0, i32 1, i32 2, i32 3>)\n}\n",
         ["ret <4 x float> shufflevector (<2 x float> undef, <2 x float> undef, %mask <i32 0, i32 1, i32 2, i32 3>)"]),
        ("alias-expr.select-cond", "%c = type <2 x i1>\n\ndefine <2 x i32> @f() {\n\tret <2 x i32> select (%c <i1 true, i1 false>, <2 x i32> <i32 1, i32 2>, <2 x i32> zeroinitializer)\n}\n",
         ["ret <2 x i32> select (%c <i1 true, i1 false>, <2 x i32> <i32 1, i32 2>, <2 x i32> zeroinitializer)"]),
        ("alias-expr.icmp", "%v = type <2 x i32>\n\n@g = global i32 0\n\ndefine <2 x i1> @f() {\n\tret <2 x i1> icmp eq (%v <i32 ptrtoint (i32* @g to i32), i32 1>, %v zeroinitializer)\n}\n",
         ["ret <2 x i1> icmp eq (%v <i32 ptrtoint (i32* @g to i32), i32 1>, %v zeroinitializer)"]),
        ("alias-expr.extractelement-index", "%ix = type i32\n\n@g = global i32 0\n\ndefine i64 @f() {\n\tret i64 extractelement (<2 x i64> <i64 ptrtoint (i32* @g to i64), i64 2>, %ix 1)\n}\n",
         ["ret i64 extractelement (<2 x i64> <i64 ptrtoint (i32* @g to i64), i64 2>, %ix 1)"]),
        ("alias-expr.cast-source", "%b = type i32*\n\n@g = global i32 0\n\ndefine i64 @f() {\n\tret i64 ptrtoint (%b @g to i64)\n}\n", ["ret i64 ptrtoint (i32* @g to i64)"]),
        ("alias-expr.gep-index", "%ix = type i64\n\n@g = global i32 0\n\ndefine i32* @f() {\n\tret i32* getelementptr (i32, i32* @g, %ix 1)\n}\n", ["ret i32* getelementptr (i32, i32* @g, %ix 1)"]),
    ]
    # getelementptr INSTRUCTIONS whose vector shape comes from a constant index that is not a vector literal (the result type is cached when the
    # instruction is translated and is printed at every use)
    for nm, vt, c in (("zeroinitializer", "<2 x i64>", "zeroinitializer"), ("undef", "<2 x i64>", "undef"), ("scalable-zeroinitializer", "<vscale x 4 x i64>", "zeroinitializer"),
                      ("scalable-undef", "<vscale x 4 x i32>", "undef"), ("expr", "<2 x i64>", "bitcast (<4 x i32> <i32 1, i32 0, i32 2, i32 0> to <2 x i64>)")):
        rt = vt[:vt.rindex("x") + 1] + " i32*>"
        out.append(("gep-inst.vector-index-" + nm, "define %s @f(i32* %%p) {\n\t%%g = getelementptr i32, i32* %%p, %s %s\n\tret %s %%g\n}\n" % (rt, vt, c, rt),
                    ["getelementptr i32, i32* %%p, %s %s" % (vt, c), "ret %s %%g" % rt]))
    # call sites that spell out the FUNCTION TYPE of a non-variadic callee (`invoke i32 (i32) @g(...)`): the value has the RETURN type
    EH = "declare i32 @g(i32 %0)\n\ndeclare void @v()\n\ndeclare void ()* @h()\n\ndeclare i32 @pers(...)\n\n"
    TAIL = "\nlp:\n\t%e = landingpad { i8*, i32 }\n\t\t\tcleanup\n\tunreachable\n}\n"
    out += [
        ("functype-site.invoke-value", EH + "define i32 @f(i32 %x) personality i8* bitcast (i32 (...)* @pers to i8*) {\n\t%r = invoke i32 (i32) @g(i32 %x)\n\t\t\tto label %ok unwind label %lp\n\nok:\n\t%s = add i32 %r, 1\n\tret i32 %s\n" + TAIL,
         ["%s = add i32 %r, 1"]),
        ("functype-site.invoke-void", EH + "define i32 @f(i32 %x) personality i8* bitcast (i32 (...)* @pers to i8*) {\n\tinvoke void () @v()\n\t\t\tto label %ok unwind label %lp\n\nok:\n\t%1 = add i32 %x, 1\n\tret i32 %1\n" + TAIL,
         ["invoke void @v()", "%1 = add i32 %x, 1"]),
        ("functype-site.invoke-funcptr", EH + "define void ()* @f() personality i8* bitcast (i32 (...)* @pers to i8*) {\n\t%p = invoke void ()* () @h()\n\t\t\tto label %ok unwind label %lp\n\nok:\n\tret void ()* %p\n" + TAIL,
         ["ret void ()* %p"]),
        ("functype-site.call-value", EH + "define i32 @f(i32 %x) {\n\t%r = call i32 (i32) @g(i32 %x)\n\t%s = add i32 %r, 1\n\tret i32 %s\n}\n", ["%s = add i32 %r, 1"]),
        ("functype-site.call-void", EH + "define i32 @f(i32 %x) {\n\tcall void () @v()\n\t%1 = add i32 %x, 1\n\tret i32 %1\n}\n", ["call void @v()", "%1 = add i32 %x, 1"]),
        ("functype-site.callbr-value", EH + "define i32 @f(i32 %x) {\n\t%r = callbr i32 (i32) asm sideeffect \"\", \"=r,r\"(i32 %x)\n\t\t\tto label %ok []\n\nok:\n\t%s = add i32 %r, 1\n\tret i32 %s\n}\n", ["%s = add i32 %r, 1"]),
    ]
    # constant expressions nested in expressions of the SAME kind, three deep
    G = "@g = global i32 0\n"
    out += [
        ("nested-expr.bitcast", G + "@p = global i64* bitcast (i8* bitcast (i16* bitcast (i32* @g to i16*) to i8*) to i64*)\n", ["bitcast (i8* bitcast (i16* bitcast (i32* @g to i16*) to i8*) to i64*)"]),
        ("nested-expr.addrspacecast", G + "@p = global i32 addrspace(3)* addrspacecast (i32 addrspace(2)* addrspacecast (i32 addrspace(1)* addrspacecast (i32* @g to i32 addrspace(1)*) to i32 addrspace(2)*) to i32 addrspace(3)*)\n", ["addrspace(2)* addrspacecast (i32 addrspace(1)* addrspacecast"]),
        ("nested-expr.ptrtoint-inttoptr", G + "@p = global i64 ptrtoint (i8* inttoptr (i64 ptrtoint (i32* @g to i64) to i8*) to i64)\n", ["ptrtoint (i8* inttoptr (i64 ptrtoint (i32* @g to i64) to i8*) to i64)"]),
        ("nested-expr.trunc-zext", G + "@p = global i16 trunc (i64 zext (i32 trunc (i64 ptrtoint (i32* @g to i64) to i32) to i64) to i16)\n", ["trunc (i64 zext (i32 trunc (i64 ptrtoint"]),
        ("nested-expr.add", G + "@p = global i64 add (i64 add (i64 add (i64 ptrtoint (i32* @g to i64), i64 1), i64 2), i64 3)\n", ["add (i64 add (i64 add (i64 ptrtoint (i32* @g to i64), i64 1), i64 2), i64 3)"]),
        ("nested-expr.gep", "@a = global [4 x [4 x i32]] zeroinitializer\n@p = global i32* getelementptr (i32, i32* getelementptr ([4 x i32], [4 x i32]* getelementptr ([4 x [4 x i32]], [4 x [4 x i32]]* @a, i64 0, i64 1), i64 0, i64 2), i64 1)\n",
         ["getelementptr (i32, i32* getelementptr ([4 x i32], [4 x i32]* getelementptr ([4 x [4 x i32]]"]),
        ("nested-expr.xor", G + "@p = global i64 xor (i64 xor (i64 xor (i64 ptrtoint (i32* @g to i64), i64 1), i64 1), i64 1)\n", ["xor (i64 xor (i64 xor (i64 ptrtoint"]),
        ("nested-expr.select-icmp", G + "@p = global i1 icmp eq (i1 icmp eq (i1 icmp eq (i32* @g, i32* null), i1 true), i1 false)\n", ["icmp eq (i1 icmp eq (i1 icmp eq (i32* @g, i32* null), i1 true), i1 false)"]),
    ]
    # references to metadata IDs written with leading zeros are decimal
    out.append(("uint.md-id-use", "!0 = !{!010, !08, !010}\n!8 = !{}\n!010 = !{i32 1}\n\n!nm = !{!010}\n", ["!0 = !{!10, !8, !10}", "!nm = !{!10}", "!10 = !{i32 1}"]))
    return out


def all_entries(rows):
    return kw_entries(rows) + STRUCTURED + NAMED_NONSTRUCT + inst_entries() + DI + MISC + comdat_entries() + flag_cross_entries() + addrspace_cross_entries() + written_type_entries() + REPEATS + UINT_LITS + order_entries() + DI_REFS + clausegen.all_entries() + layout_entries() + round13_entries() + round14_entries() + round15_entries() + round16_entries() + round17_entries() + round18_entries() + round20_entries() + round21_entries()
