"""Typed random module generator: produces (skeleton token, canonical LLVM text) pairs.
The text is rendered in exactly the form llir/llvm prints (so it must be a fixpoint of parse+print);
`render(mod, order=..., spell=...)` can also emit non-canonical spellings / shuffled top-level order.
The skeleton token is what the Lean resolver model consumes: definitions per namespace and references."""
import random


def nat_key(s):
    """natural-sort key equal to the order of internal/natsort.Less on ASCII names"""
    out, i = [], 0
    dig = lambda c: "0" <= c <= "9"        # (str.isdigit is also true for superscripts and other Unicode digits)
    while i < len(s):
        if dig(s[i]):
            j = i
            while j < len(s) and s[j] == "0":
                j += 1
            k = j
            while k < len(s) and dig(s[k]):
                k += 1
            out.append((1, k - j, s[j:k], j - i))
            i = k
        else:
            out.append((0 if s[i] < "0" else 2, ord(s[i]), "", 0))
            i += 1
    out.append((-1, 0, "", 0))
    return out


def natsorted(names):
    return sorted(names, key=nat_key)


class Mod:
    def __init__(self):
        self.source = None
        self.triple = None
        self.types = {}        # name -> None (opaque) | list of field type strings
        self.comdats = []      # names
        self.globals = []      # dicts: kind G/A/I, name or None, ty, init (text), refs, comdat, md, linkage
        self.funcs = []        # dicts: name or None, ret, params [(ty,name|None)], attrgroups [ids], blocks|None, md
        self.attrgroups = {}   # id -> attr text
        self.namedmd = []      # (name, [ids])  (textual order, may repeat names)
        self.mds = {}          # id -> (distinct, [field texts], [refs ids])
        self.packed = set()    # names of type definitions whose body is a packed struct
        self.blockaddrs = []   # (function name, block name) of named blocks of named defined functions: available blockaddress targets
        self.uselist = []      # module-level use-list orders on blockaddress constants


TYNAMES = ["T1", "T2", "T10", "S", "struct.a", "U"]
GNAMES = ["g1", "g2", "g10", "p", "q", "tab", "x.y"]
FNAMES = ["f", "main", "h2", "h10", "ext"]
# local value names; the quoted numeric ones are NAMES (`%"1"`), distinct from the unnamed values %0, %1, ... of the same function
LNAMES = ["a", "b", "c", "x", "y", "t1", "t2", "t10", '"0"', '"1"', '"2"']
BNAMES = ["entry", "loop", "body", "exit", "bb1", "bb2"]


def gen_mod(rng, size=1.0):
    m = Mod()
    if rng.random() < 0.5:
        m.source = rng.choice(["a.c", "dir/b.ll", "x y"])
    if rng.random() < 0.4:
        m.triple = "x86_64-unknown-linux-gnu"
    # types
    tn = rng.sample(TYNAMES, rng.randint(0, min(4, len(TYNAMES))))
    for n in tn:
        m.types[n] = None if rng.random() < 0.2 else []
    for n in tn:
        if m.types[n] is not None:
            fs = []
            for _ in range(rng.randint(1, 3)):
                k = rng.random()
                if k < 0.4 and tn:
                    fs.append("%%%s*" % rng.choice(tn))
                elif k < 0.5 and tn:
                    o = rng.choice(tn)
                    fs.append("%%%s" % o if (m.types[o] is not None and o != n and nat_key(o) < nat_key(n) and not refs_type(m, o, n)) else "i64")
                else:
                    fs.append(rng.choice(["i32", "i8", "i8*", "[2 x i16]", "float", "{ i8, i32 }"]))
            m.types[n] = fs
            if rng.random() < 0.3:
                m.packed.add(n)         # packed struct body `<{ ... }>`
    m.comdats = rng.sample(["c1", "c2", "c10", "any.x"], rng.randint(0, 2))
    # attribute groups and metadata ids first (so that references can be made)
    for i in rng.sample(range(0, 12), rng.randint(0, 3)):
        m.attrgroups[i] = rng.choice(["nounwind", "noinline nounwind", "readnone \"k\"=\"v\"", "norecurse"])
    mdids = rng.sample(range(0, 15), rng.randint(0, 5))
    for i in mdids:
        fields, refs = [], []
        for _ in range(rng.randint(0, 3)):
            k = rng.random()
            if k < 0.5:
                r = rng.choice(mdids)
                fields.append("!%d" % r); refs.append(r)
            else:
                fields.append(rng.choice(["i32 1", "!\"s\"", "null", "!{}", "i64 -5"]))
        m.mds[i] = (rng.random() < 0.3, fields, refs)
    for _ in range(rng.randint(0, 2)):
        if mdids:
            m.namedmd.append((rng.choice(["llvm.x", "nm2", "nm10"]), [rng.choice(mdids) for _ in range(rng.randint(0, 3))]))
    # functions (names first, bodies later)
    fnames = rng.sample(FNAMES, rng.randint(1, 3))
    for n in fnames:
        f = {"name": n if rng.random() < 0.85 else None, "ret": rng.choice(["void", "i32"]), "params": [], "ag": [], "blocks": None, "md": None, "comdat": None,
             "as": rng.choice([0, 0, 0, 1, 3])}
        for _ in range(rng.randint(0, 2)):
            f["params"].append(("i32", None))
        if m.attrgroups and rng.random() < 0.5:
            f["ag"] = sorted(rng.sample(list(m.attrgroups), 1))
        m.funcs.append(f)
    # globals
    gn = rng.sample(GNAMES, rng.randint(0, 4))
    for n in gn:
        g = {"kind": "G", "name": n if rng.random() < 0.85 else None, "refs": [], "comdat": None, "md": None, "linkage": rng.choice(["", "", "private ", "internal "])}
        m.globals.append(g)
    named_g = [g["name"] for g in m.globals if g["name"]]
    named_f = [f["name"] for f in m.funcs if f["name"]]
    for g in m.globals:
        k = rng.random()
        if k < 0.3:
            g["ty"], g["init"] = "i32", str(rng.choice([0, 1, 42, -7]))
        elif k < 0.5 and named_g:
            t = rng.choice(named_g)
            g["ty"], g["init"], g["refs"] = "i32**" if False else "i8*", "bitcast (%s* @%s to i8*)" % (gtype(m, t), t), [t]
        elif k < 0.65 and [x for x in named_f if fas(m, x) == 0]:
            t = rng.choice([x for x in named_f if fas(m, x) == 0])
            g["ty"], g["init"], g["refs"] = "i8*", "bitcast (%s* @%s to i8*)" % (ftype(m, t), t), [t]
        elif k < 0.8 and m.types and any(v is not None for v in m.types.values()):
            t = rng.choice([n for n, v in m.types.items() if v is not None])
            g["ty"], g["init"], g["trefs"] = "%%%s" % t, "zeroinitializer", [t]
        else:
            g["ty"], g["init"] = "[2 x i8]", "c\"a\\00\""
        if m.comdats and rng.random() < 0.3:
            g["comdat"] = rng.choice(m.comdats)
        if mdids and rng.random() < 0.3:
            g["md"] = rng.choice(mdids)
    # fix types of pointer globals now that all are known (gtype used above needs ty: two-pass)
    for g in m.globals:
        if g["init"].startswith("bitcast (") and g["refs"] and g["refs"][0] in named_g:
            t = g["refs"][0]
            g["init"] = "bitcast (%s* @%s to i8*)" % (gtype(m, t), t)
    # aliases
    if named_g and rng.random() < 0.4:
        t = rng.choice(named_g)
        m.globals.append({"kind": "A", "name": rng.choice(["al1", "al2"]), "ty": gtype(m, t), "init": "%s* @%s" % (gtype(m, t), t), "refs": [t], "comdat": None, "md": None, "linkage": ""})
    # function bodies
    for f in m.funcs:
        if rng.random() < 0.7:
            gen_body(rng, m, f, named_g, named_f, mdids)
        if f["blocks"] is not None and mdids and rng.random() < 0.3:
            f["md"] = rng.choice(mdids)
    for f in m.funcs:
        if f["name"] and f["blocks"]:
            for bid in block_ids(f):
                m.blockaddrs.append((f["name"], bid))      # named and UNNAMED (%N) blocks alike
    def ba_ty(fn):
        # the address of a block is a pointer in the address space of its function
        a = next((f.get("as") or 0 for f in m.funcs if f["name"] == fn), 0)
        return "i8 addrspace(%d)*" % a if a else "i8*"
    m.ba_ty = ba_ty
    if m.blockaddrs:
        taken = {g["name"] for g in m.globals}
        for k in range(rng.randint(0, 2)):
            fn, bn = rng.choice(m.blockaddrs)
            nm = "ba%d" % k
            if nm not in taken:
                m.globals.insert(rng.randint(0, len([g for g in m.globals if g["kind"] == "G"])),
                                 {"kind": "G", "name": nm, "ty": ba_ty(fn), "init": "blockaddress(@%s, %%%s)" % (fn, bn), "refs": [fn], "comdat": None, "md": None, "linkage": "",
                                  "brefs": [(fn, bn)]})
        for i in list(m.mds):
            if rng.random() < 0.25:
                fn, bn = rng.choice(m.blockaddrs)
                d, fields, refs = m.mds[i]
                m.mds[i] = (d, fields + ["%s blockaddress(@%s, %%%s)" % (ba_ty(fn), fn, bn)], refs)
                m.mds[i] = m.mds[i] + ([fn], [(fn, bn)])
        if rng.random() < 0.3:
            fn, bn = rng.choice(m.blockaddrs)
            m.uselist.append((fn, bn))
    # comdats of function definitions (choices from an auxiliary generator that is a function of what has been chosen so far: the main stream
    # is not shifted): a comdat named like the function itself (printed `comdat`) or another one (`comdat($c)`), also while a comdat named like the
    # function exists
    import random as _random
    aux = _random.Random("fcomdat|" + ",".join(str(f["name"]) for f in m.funcs) + "|" + ",".join(m.comdats))
    m.fcomdats = []
    for f in m.funcs:
        if f["blocks"] is None or f["name"] is None or aux.random() < 0.5:
            continue
        if aux.random() < 0.6 and f["name"] not in m.comdats:
            m.fcomdats.append(f["name"])
        pool = m.comdats + m.fcomdats
        if pool:
            f["comdat"] = aux.choice(pool)
    return m


def refs_type(m, a, b):
    """does type a (transitively, by value) contain type b?"""
    seen, stack = set(), [a]
    while stack:
        x = stack.pop()
        if x in seen or m.types.get(x) is None:
            continue
        seen.add(x)
        for f in m.types[x]:
            if f.startswith("%") and not f.endswith("*"):
                y = f[1:]
                if y == b:
                    return True
                stack.append(y)
    return False


def gtype(m, name):
    for g in m.globals:
        if g["name"] == name:
            return g.get("ty", "i32")
    return "i32"


def ftype(m, name):
    for f in m.funcs:
        if f["name"] == name:
            return "%s (%s)" % (f["ret"], ", ".join(t for t, _ in f["params"]))
    return "void ()"


def fas(m, name):
    for f in m.funcs:
        if f["name"] == name:
            return f.get("as", 0)
    return 0


def fptr(m, name):
    a = fas(m, name)
    return ftype(m, name) + (" addrspace(%d)*" % a if a else "*")


def callas(m, name):
    a = fas(m, name)
    return "addrspace(%d) " % a if a else ""


def gen_body(rng, m, f, named_g, named_f, mdids):
    nb = rng.randint(1, 4)
    bnames = rng.sample(BNAMES, nb)
    for i in range(nb):
        if rng.random() < 0.25:
            bnames[i] = None          # unnamed block
    for i, (t, _) in enumerate(f["params"]):
        f["params"][i] = (t, rng.choice(LNAMES[:3]) + str(i) if rng.random() < 0.6 else None)
    blocks = []
    used_names = set(n for _, n in f["params"] if n)
    for bi in range(nb):
        insts = []
        for _ in range(rng.randint(0, 4)):
            k = rng.choice(["add", "add", "icmp", "load", "store", "call", "callv", "gep", "phi", "icmpf"])
            nm = rng.choice(LNAMES)
            if nm in used_names or rng.random() < 0.35:
                nm = None
            else:
                used_names.add(nm)
            insts.append({"op": k, "name": nm, "md": rng.choice(mdids) if mdids and rng.random() < 0.2 else None})
        blocks.append({"name": bnames[bi], "insts": insts, "term": None})
    f["blocks"] = blocks
    f["_named_g"], f["_named_f"] = named_g, named_f
    f["_seed"] = rng.getrandbits(32)


def block_ids(f):
    """identifiers of the blocks of f under LLVM numbering (same walk as finalize_body)"""
    n = sum(1 for _, nm in f["params"] if nm is None)
    out = []
    for b in f["blocks"]:
        if b["name"] is None:
            out.append("%d" % n); n += 1
        else:
            out.append(b["name"])
        for ins in b["insts"]:
            if ins["op"] not in ("store", "callv") and ins["name"] is None:
                n += 1
    return out


def finalize_body(m, f):
    """assign LLVM numbering and operands; returns list of text lines, and (local defs, local refs, global refs, type refs, md refs)"""
    rng = random.Random(f["_seed"])
    n = 0
    pids = []
    for t, nm in f["params"]:
        if nm is None:
            pids.append("%%%d" % n); n += 1
        else:
            pids.append("%" + nm)
    # first pass: value identifiers in order
    bids, vals = [], []     # vals: (ident, type) available as i32 operands
    for pid, (t, _) in zip(pids, f["params"]):
        vals.append(pid)
    plan = []
    for b in f["blocks"]:
        if b["name"] is None:
            bid = "%d" % n; n += 1
        else:
            bid = b["name"]
        bids.append(bid)
        row = []
        for ins in b["insts"]:
            produces = ins["op"] not in ("store", "callv")
            if produces:
                if ins["name"] is None:
                    ident = "%%%d" % n; n += 1
                else:
                    ident = "%" + ins["name"]
            else:
                ident = None
            row.append(ident)
        plan.append(row)
    i32s = list(vals)
    for bi, b in enumerate(f["blocks"]):
        for ii, ins in enumerate(b["insts"]):
            if ins["op"] in ("add", "load", "call", "phi") and plan[bi][ii]:
                i32s.append(plan[bi][ii])
    ptrs = [plan[bi][ii] for bi, b in enumerate(f["blocks"]) for ii, ins in enumerate(b["insts"]) if ins["op"] == "gep"]
    lines, ldefs, lrefs, grefs, trefs, mrefs = [], [], [], [], [], []
    for pid in pids:
        ldefs.append(pid[1:])
    def opnd():
        if i32s and rng.random() < 0.7:
            v = rng.choice(i32s); lrefs.append(v[1:]); return v
        return str(rng.choice([0, 1, 7, -3]))
    i32g = [g for g in f["_named_g"] if gtype(m, g) == "i32"]
    voidf = [x for x in f["_named_f"] if ftype(m, x) == "void ()"]
    i32f = [x for x in f["_named_f"] if ftype(m, x).startswith("i32 (")]
    for bi, b in enumerate(f["blocks"]):
        ldefs.append(bids[bi])
        if bi > 0:
            lines.append("")
        if not (bi == 0 and b["name"] is None):
            lines.append("%s:" % bids[bi])
        elif b["name"] is None:
            lines.append("%s:" % bids[bi])
        for ii, ins in enumerate(b["insts"]):
            ident = plan[bi][ii]
            if ident:
                ldefs.append(ident[1:])
            op = ins["op"]
            md = ""
            if ins["md"] is not None:
                md = ", !dbg !%d" % ins["md"]; mrefs.append(ins["md"])
            if op == "add":
                s = "%s = add i32 %s, %s" % (ident, opnd(), opnd())
            elif op == "icmp":
                s = "%s = icmp eq i32 %s, %s" % (ident, opnd(), opnd())
            elif op == "load":
                if i32g:
                    g = rng.choice(i32g); grefs.append(g)
                    s = "%s = load i32, i32* @%s" % (ident, g)
                elif ptrs:
                    p = rng.choice(ptrs); lrefs.append(p[1:])
                    s = "%s = load i32, i32* %s" % (ident, p)
                else:
                    s = "%s = load i32, i32* null" % ident
            elif op == "store":
                if i32g:
                    g = rng.choice(i32g); grefs.append(g)
                    s = "store i32 %s, i32* @%s" % (opnd(), g)
                else:
                    s = "store i32 %s, i32* null" % opnd()
            elif op == "call":
                if i32f:
                    c = rng.choice(i32f); grefs.append(c)
                    nargs = ftype(m, c).count("i32") - 1
                    s = "%s = call %si32 @%s(%s)" % (ident, callas(m, c), c, ", ".join("i32 " + opnd() for _ in range(nargs)))
                else:
                    s = "%s = add i32 %s, 0" % (ident, opnd())
            elif op == "callv":
                if voidf:
                    c = rng.choice(voidf); grefs.append(c)
                    s = "call %svoid @%s()" % (callas(m, c), c)
                else:
                    s = "store i32 0, i32* null"
            elif op == "gep":
                if i32g:
                    g = rng.choice(i32g); grefs.append(g)
                    s = "%s = getelementptr i32, i32* @%s, i64 %s" % (ident, g, rng.choice(["0", "1"]))
                else:
                    s = "%s = getelementptr i32, i32* null, i64 1" % ident
            elif op == "icmpf":
                # the TYPE of a function (pointer, in the function's address space) is evaluated while the referring body is translated
                if f["_named_f"]:
                    c = rng.choice(f["_named_f"]); grefs.append(c)
                    s = "%s = icmp eq %s @%s, null" % (ident, fptr(m, c), c)
                else:
                    s = "%s = icmp eq i8* null, null" % ident
            elif op == "phi":
                # incoming from every block would be needed for validity in LLVM; llir does not check dominance.
                pred = rng.choice(bids); lrefs.append(pred)
                s = "%s = phi i32 [ %s, %%%s ]" % (ident, opnd(), pred)
            lines.append("\t" + s + md)
        # terminator
        k = rng.random()
        if bi + 1 < len(bids) and k < 0.5:
            t = rng.choice(bids); lrefs.append(t)
            lines.append("\tbr label %%%s" % t)
        elif bi + 1 < len(bids) and k < 0.8:
            c = [plan[bj][ij] for bj, bb in enumerate(f["blocks"]) for ij, ins in enumerate(bb["insts"]) if ins["op"] == "icmp"]
            t1, t2 = rng.choice(bids), rng.choice(bids); lrefs += [t1, t2]
            if c:
                cv = rng.choice(c); lrefs.append(cv[1:])
            else:
                cv = "true"
            lines.append("\tbr i1 %s, label %%%s, label %%%s" % (cv, t1, t2))
        else:
            if f["ret"] == "void":
                lines.append("\tret void")
            else:
                lines.append("\tret i32 %s" % opnd())
    return lines, ldefs, lrefs, grefs, trefs, mrefs


def render(m, rng=None, shuffle=False):
    """returns (text, skeleton). With shuffle=True the top-level entities are emitted in a random order
    (unnamed entities keep their relative order so that their numbering is unchanged)."""
    secs = []   # (section, [entity texts])
    sk = []     # skeleton entities: "ns|key|refs"
    head = []
    if m.source is not None:
        head.append('source_filename = "%s"' % m.source)
    if m.triple is not None:
        head.append('target triple = "%s"' % m.triple)
    tys = []
    for n in natsorted(m.types):
        body = m.types[n]
        packed = n in getattr(m, "packed", ())
        tys.append("%%%s = type %s" % (n, "opaque" if body is None else ("<{ %s }>" if packed else "{ %s }") % ", ".join(body)))
        refs = []
        for fld in (body or []):
            if fld.startswith("%"):
                refs.append("T=" + fld[1:].rstrip("*"))
        sk.append("T|%s|%s" % (n, "!opaque" if body is None else " ".join(refs)))
    allcd = m.comdats + getattr(m, "fcomdats", [])
    cds = ["$%s = comdat any" % n for n in natsorted(allcd)]
    for n in allcd:
        sk.append("C|%s|" % n)
    gid = 0
    glob, alias = [], []
    ents = []   # for the unnamed numbering we need group order: globals, aliases, ifuncs, funcs
    def gident(e):
        nonlocal gid
        if e["name"] is None:
            s = "@%d" % gid; gid += 1
            return s
        return "@" + e["name"]
    for g in [x for x in m.globals if x["kind"] == "G"]:
        ident = gident(g)
        s = "%s = %sglobal %s %s" % (ident, g["linkage"], g["ty"], g["init"])
        refs = ["G=" + r for r in g["refs"]] + ["T=" + t for t in g.get("trefs", [])]
        if g["comdat"]:
            s += ", comdat" if g["comdat"] == g["name"] else ", comdat($%s)" % g["comdat"]
            refs.append("C=" + g["comdat"])
        if g["md"] is not None:
            s += ", !dbg !%d" % g["md"]; refs.append("M=%d" % g["md"])
        glob.append(s)
        sk.append("G|%s|%s|||%s" % (ident[1:] if g["name"] else "#", " ".join(refs), " ".join("%s:%s" % b for b in g.get("brefs", []))))
    for g in [x for x in m.globals if x["kind"] == "A"]:
        ident = gident(g)
        alias.append("%s = alias %s, %s" % (ident, g["ty"], g["init"]))
        sk.append("L|%s|%s" % (ident[1:] if g["name"] else "#", " ".join("G=" + r for r in g["refs"])))
    funcs = []
    for f in m.funcs:
        ident = gident(f)
        ags = "".join(" #%d" % a for a in f["ag"])
        refs = ["A=%d" % a for a in f["ag"]]
        if f["blocks"] is None:
            ps = ", ".join("%s %%%d" % (t, i) for i, (t, _) in enumerate(f["params"]))
            funcs.append("declare %s %s(%s)%s%s" % (f["ret"], ident, ps, " addrspace(%d)" % f["as"] if f.get("as") else "", ags))
            sk.append("F|%s|%s||" % (ident[1:] if f["name"] else "#", " ".join(refs)))
        else:
            lines, ldefs, lrefs, grefs, trefs, mrefs = finalize_body(m, f)
            n = 0
            ps = []
            for t, nm in f["params"]:
                if nm is None:
                    ps.append("%s %%%d" % (t, n)); n += 1
                else:
                    ps.append("%s %%%s" % (t, nm))
            md = ""
            if f["md"] is not None:
                md = " !dbg !%d" % f["md"]; mrefs = mrefs + [f["md"]]
            cd = ""
            if f.get("comdat"):
                cd = " comdat" if f["comdat"] == f["name"] else " comdat($%s)" % f["comdat"]
                refs.append("C=" + f["comdat"])
            funcs.append("define %s %s(%s)%s%s%s%s {\n%s\n}" % (f["ret"], ident, ", ".join(ps), " addrspace(%d)" % f["as"] if f.get("as") else "", ags, cd, md, "\n".join(lines)))
            refs += ["G=" + g for g in grefs] + ["M=%d" % x for x in mrefs]
            sk.append("F|%s|%s|%s|%s" % (ident[1:] if f["name"] else "#", " ".join(refs), " ".join(ldefs), " ".join(lrefs)))
    ags = ["attributes #%d = { %s }" % (i, m.attrgroups[i]) for i in sorted(m.attrgroups)]
    for i in m.attrgroups:
        sk.append("A|%d|" % i)
    # named metadata: merged by name in textual order, printed natsorted
    merged = {}
    for name, ids in m.namedmd:
        merged.setdefault(name, []).extend(ids)
    nmd = ["!%s = !{%s}" % (n, ", ".join("!%d" % i for i in merged[n])) for n in natsorted(merged)]
    for name, ids in m.namedmd:
        sk.append("N|%s|%s" % (name, " ".join("M=%d" % i for i in ids)))
    mds = []
    for i in sorted(m.mds):
        d, fields, refs = m.mds[i][0], m.mds[i][1], m.mds[i][2]
        frefs = m.mds[i][3] if len(m.mds[i]) > 3 else []
        mds.append("!%d = %s!{%s}" % (i, "distinct " if d else "", ", ".join(fields)))
        mbrefs = m.mds[i][4] if len(m.mds[i]) > 4 else []
        sk.append("M|%d|%s|||%s" % (i, " ".join(["M=%d" % r for r in refs] + ["G=" + x for x in frefs]), " ".join("%s:%s" % b for b in mbrefs)))
    uls = ["uselistorder %s blockaddress(@%s, %%%s), { 1, 0 }" % (m.ba_ty(fn), fn, bn) for fn, bn in m.uselist]
    for fn, bn in m.uselist:
        sk.append("U|#|G=%s|||%s:%s" % (fn, fn, bn))
    if not shuffle:
        parts = []
        if head: parts.append("\n".join(head))
        if tys: parts.append("\n".join(tys))
        if cds: parts.append("\n".join(cds))
        if glob: parts.append("\n".join(glob))
        if alias: parts.append("\n".join(alias))
        if funcs: parts.append("\n\n".join(funcs))
        if ags: parts.append("\n".join(ags))
        if nmd: parts.append("\n".join(nmd))
        if mds: parts.append("\n".join(mds))
        if uls: parts.append("\n".join(uls))
        text = "\n\n".join(parts) + "\n"
    else:
        # keep relative order of the entities whose numbering/merging depends on textual order
        fixed = glob + alias + funcs          # unnamed numbering + textual order kept by design
        movable = tys + cds + ags + mds
        unmerged = ["!%s = !{%s}" % (n, ", ".join("!%d" % i for i in ids)) for n, ids in m.namedmd]
        rng.shuffle(movable)
        out = list(fixed)
        for e in movable:
            out.insert(rng.randint(0, len(out)), e)
        # named metadata: same relative order
        pos = sorted(rng.randint(0, len(out)) for _ in unmerged)
        for k, (p, e) in enumerate(zip(pos, unmerged)):
            out.insert(p + k, e)
        text = "\n".join(head + out + uls) + "\n"
    return text, ";".join(sk)


# ---------------------------------------------------------------------------------------------
# single-point naming faults, applied to the canonical text and mirrored on the skeleton
import re


def _sk_replace_ref(sk, old, new, fn=None):
    """replace the first reference token `old` (e.g. 'G=g1') by `new` in the skeleton"""
    ents = sk.split(";")
    for i, e in enumerate(ents):
        f = e.split("|")
        if len(f) >= 3 and old in f[2].split():
            toks = f[2].split()
            toks[toks.index(old)] = new
            f[2] = " ".join(toks)
            ents[i] = "|".join(f)
            return ";".join(ents)
    return None


def faults(rng, text, sk):
    """yields (kind, expected, faulted text, faulted skeleton); expected in {'error','ok'}"""
    out = []
    lines = text.split("\n")
    # undefined global: a use of @name that is not at the start of a line
    uses = [(i, m) for i, l in enumerate(lines) for m in re.finditer(r"(?<!^)@([A-Za-z_.][\w.]*)", l) if m.start() > 0 and not l.startswith(("define", "declare")) or (l.startswith("\t") and False)]
    uses = [(i, m) for i, l in enumerate(lines) for m in re.finditer(r"@([A-Za-z_.][\w.]*)", l) if m.start() > 0 and not (l.startswith(("define ", "declare ")) and l.index("@") == m.start())]
    if uses:
        i, m = rng.choice(uses)
        name = m.group(1)
        nl = lines[i][:m.start()] + "@undef.g" + lines[i][m.end():]
        sk2 = _sk_replace_ref(sk, "G=" + name, "G=undef.g")
        if sk2:
            out.append(("undefined-global", "error", "\n".join(lines[:i] + [nl] + lines[i + 1:]), sk2))
    # undefined type: a use %T inside a type body / global type (types are referenced as %Name followed by * or space or ,)
    tnames = re.findall(r"^%([\w.]+) = type", text, re.M)
    tuses = [(i, m) for i, l in enumerate(lines) for t in tnames for m in re.finditer(r"%" + re.escape(t) + r"(?=[*, }])", l) if not l.startswith("%" + t + " =") or m.start() > 0]
    if tuses:
        i, m = rng.choice(tuses)
        name = m.group(0)[1:]
        nl = lines[i][:m.start()] + "%undef.t" + lines[i][m.end():]
        sk2 = _sk_replace_ref(sk, "T=" + name, "T=undef.t")
        if sk2:
            out.append(("undefined-type", "error", "\n".join(lines[:i] + [nl] + lines[i + 1:]), sk2))
    # undefined comdat
    cu = [(i, m) for i, l in enumerate(lines) for m in re.finditer(r"comdat\(\$([\w.]+)\)", l)]
    if cu:
        i, m = rng.choice(cu)
        nl = lines[i][:m.start()] + "comdat($undef.c)" + lines[i][m.end():]
        sk2 = _sk_replace_ref(sk, "C=" + m.group(1), "C=undef.c")
        if sk2:
            out.append(("undefined-comdat", "error", "\n".join(lines[:i] + [nl] + lines[i + 1:]), sk2))
    # undefined metadata id (attachment or tuple field or named metadata)
    mu = [(i, m) for i, l in enumerate(lines) for m in re.finditer(r"!(\d+)", l) if m.start() > 0]
    if mu:
        i, m = rng.choice(mu)
        nl = lines[i][:m.start()] + "!999" + lines[i][m.end():]
        sk2 = _sk_replace_ref(sk, "M=" + m.group(1), "M=999")
        if sk2:
            out.append(("undefined-metadata", "error", "\n".join(lines[:i] + [nl] + lines[i + 1:]), sk2))
    # undefined block label inside a blockaddress constant (global initialiser, metadata field or module-level uselistorder)
    bu = [(i, m) for i, l in enumerate(lines) if not l.startswith("\t") for m in re.finditer(r"blockaddress\(@([\w.]+), %([\w.]+)\)", l)]
    if bu:
        i, m = rng.choice(bu)
        nl = lines[i][:m.start(2)] + "undef.blk" + lines[i][m.end(2):]
        old = "%s:%s" % (m.group(1), m.group(2))
        ents = sk.split(";")
        # mirrored on the skeleton: the entity of THIS line (global by name, metadata by id, uselistorder by position)
        sk2 = None
        if lines[i].startswith("@"):
            key = re.match(r"@(\S+) =", lines[i]).group(1); key = "#" if key.isdigit() else key; tag = "G"
        elif lines[i].startswith("!"):
            key = re.match(r"!(\d+) =", lines[i]).group(1); tag = "M"
        else:
            key = "#"; tag = "U"
        nth = len([1 for l in lines[:i] if l.startswith("uselistorder ")]) if tag == "U" else 0
        seen = 0
        for k, e in enumerate(ents):
            f = e.split("|")
            if f[0] == tag and f[1] == key and len(f) >= 6 and old in f[5].split():
                if tag == "U" and seen < nth:
                    seen += 1; continue
                toks = f[5].split(); toks[toks.index(old)] = "%s:undef.blk" % m.group(1); f[5] = " ".join(toks)
                ents[k] = "|".join(f); sk2 = ";".join(ents); break
        if sk2 and key != "#" or sk2 and tag == "U":
            out.append(("undefined-block", "error", "\n".join(lines[:i] + [nl] + lines[i + 1:]), sk2))
    # undefined attribute group: the documented exception (materialised as an empty group)
    au = [(i, m) for i, l in enumerate(lines) for m in re.finditer(r" #(\d+)", l) if l.startswith(("define", "declare"))]
    if au:
        i, m = rng.choice(au)
        nl = lines[i][:m.start()] + " #77" + lines[i][m.end():]
        sk2 = _sk_replace_ref(sk, "A=" + m.group(1), "A=77")
        if sk2:
            out.append(("undefined-attrgroup", "ok", "\n".join(lines[:i] + [nl] + lines[i + 1:]), sk2))
    # undefined local / label inside a function body
    lu = [(i, m) for i, l in enumerate(lines) if l.startswith("\t") for m in re.finditer(r"%([\w.]+)", l) if not re.match(r"\t%[\w.]+ = ", l) or m.start() > l.index("=")]
    if lu:
        i, m = rng.choice(lu)
        nl = lines[i][:m.start()] + "%undef.l" + lines[i][m.end():]
        # mirrored on the skeleton: the enclosing function's lrefs
        j = i
        while j >= 0 and not lines[j].startswith("define "):
            j -= 1
        fn = re.match(r"define \S+ @([^\s(]+)\(", lines[j]).group(1)
        ents = sk.split(";")
        sk2 = None
        # the ORDINAL of the function among the function entities (several unnamed functions all carry the key `#`)
        ordinal = sum(1 for l in lines[:j] if l.startswith(("define ", "declare ")))
        fents = [k for k, e in enumerate(ents) if e.split("|")[0] == "F"]
        for k, e in enumerate(ents):
            f = e.split("|")
            key = fn if not fn.isdigit() else "#"
            if ordinal < len(fents) and k == fents[ordinal] and f[1] == key and len(f) >= 5 and m.group(1) in f[4].split():
                toks = f[4].split(); toks[toks.index(m.group(1))] = "undef.l"; f[4] = " ".join(toks)
                ents[k] = "|".join(f); sk2 = ";".join(ents); break
        if sk2:
            out.append(("undefined-local", "error", "\n".join(lines[:i] + [nl] + lines[i + 1:]), sk2))
    # duplicated definitions: repeat a definition line (type / comdat / global / metadata)
    for kind, pat, ns in (("duplicate-type", r"^%([\w.]+) = type <?\{", "T"), ("duplicate-comdat", r"^\$([\w.]+) = comdat", "C"),
                          ("duplicate-global", r"^@([A-Za-z_.][\w.]*) = .*global", "G"), ("duplicate-metadata", r"^!(\d+) = ", "M")):
        cands = [(i, re.match(pat, l).group(1)) for i, l in enumerate(lines) if re.match(pat, l)]
        if cands:
            i, name = rng.choice(cands)
            ents = sk.split(";")
            idx = [k for k, e in enumerate(ents) if e.split("|")[0] == ns and e.split("|")[1] == name]
            if idx:
                sk2 = ";".join(ents[:idx[0] + 1] + [ents[idx[0]]] + ents[idx[0] + 1:])
                out.append((kind, "error", "\n".join(lines[:i + 1] + [lines[i]] + lines[i + 1:]), sk2))
    # type redefinitions involving `opaque`: only "opaque first, body later" is tolerated
    tdefs = [(i, re.match(r"^%([\w.]+) = type <?\{", l).group(1)) for i, l in enumerate(lines) if re.match(r"^%([\w.]+) = type <?\{", l)]
    if tdefs:
        i, name = rng.choice(tdefs)
        ents = sk.split(";")
        idx = [k for k, e in enumerate(ents) if e.split("|")[0] == "T" and e.split("|")[1] == name]
        if idx:
            op_ent = "T|%s|!opaque" % name
            op_line = "%%%s = type opaque" % name
            out.append(("redefine-type-as-opaque", "error", "\n".join(lines[:i + 1] + [op_line] + lines[i + 1:]),
                        ";".join(ents[:idx[0] + 1] + [op_ent] + ents[idx[0] + 1:])))
            out.append(("opaque-then-body", "ok", "\n".join(lines[:i] + [op_line] + lines[i:]),
                        ";".join(ents[:idx[0]] + [op_ent] + ents[idx[0]:])))
    # duplicated local: give a second value definition the name of the first one in the same function
    for j, l in enumerate(lines):
        if l.startswith("define "):
            k = j + 1
            defs = []
            while k < len(lines) and lines[k] != "}":
                mm = re.match(r"\t%([A-Za-z_.][\w.]*) = ", lines[k])
                if mm:
                    defs.append((k, mm.group(1)))
                k += 1
            if len(defs) >= 2:
                (k1, n1), (k2, n2) = defs[0], defs[-1]
                nl = lines[k2].replace("%" + n2 + " = ", "%" + n1 + " = ", 1)
                fn = re.match(r"define \S+ @([^\s(]+)\(", l).group(1)
                ents = sk.split(";")
                ordinal = sum(1 for x in lines[:j] if x.startswith(("define ", "declare ")))
                fents = [q for q, e in enumerate(ents) if e.split("|")[0] == "F"]
                for q, e in enumerate(ents):
                    f = e.split("|")
                    if ordinal < len(fents) and q == fents[ordinal] and f[1] == (fn if not fn.isdigit() else "#") and len(f) >= 5 and n2 in f[3].split():
                        toks = f[3].split(); toks[toks.index(n2)] = n1; f[3] = " ".join(toks)
                        # uses of n2 become undefined too; that is still an error
                        ents[q] = "|".join(f)
                        out.append(("duplicate-local", "error", "\n".join(lines[:k2] + [nl] + lines[k2 + 1:]), ";".join(ents)))
                        break
                break
    return out
