"""generator of M-Core modules (opaque typedefs + integer globals)"""
from . import gens


def gen_core(rng, guard=True):
    ts, seen = [], set()
    for _ in range(rng.randint(0, 4)):
        n = gens.rand_name(rng, 8)
        if guard:
            # names the theorem covers (TypeNameOK): non-empty, no NUL, not readable as a signed integer (C11 finding on getTypeName)
            if not n or 0 in n or n.isdigit() or n[:1] in (b"-", b"+") and n[1:].isdigit():
                n = b"T" + n.replace(b"\x00", b"")
        if n in seen or not n or 0 in n:
            continue
        seen.add(n); ts.append(n)
    gs, seen = [], set()
    for _ in range(rng.randint(0, 4)):
        n = gens.rand_name(rng, 8)
        if guard and (not n or 0 in n):
            n = b"g" + n.replace(b"\x00", b"")
        if n in seen or not n or 0 in n:
            continue
        seen.add(n)
        w = rng.choice([2, 8, 16, 32, 64, 128, 7])
        x = rng.choice([0, 1, -1, 42, 4096, 0x80000000, 0xFFFF, 10**9, -(2**(w - 1)), 2**w - 1, rng.randint(-2**(w - 1), 2**w - 1)])
        x = max(-(2**(w - 1)), min(2**w - 1, x))
        gs.append((n, w, x))
    return ts, gs


def args(ts, gs):
    return "%s %s" % (",".join(t.hex() for t in ts) or "-", ",".join("%s:%d:%d" % (n.hex(), w, x) for n, w, x in gs) or "-")
