#!/usr/bin/env python3
"""Writes /verif/MANIFEST.json from the table below (kept here so the manifest stays valid and in sync)."""
import json, os, subprocess
V = os.path.dirname(os.path.dirname(os.path.abspath(__file__)))
BASE = json.load(open("/root/.vp/BASELINE.json"))

T = "Lean 4 proof over a hand-written model + differential correspondence with the Go implementation"
CLAIMED = {
 "C11": dict(
   text="Lean proof (all byte strings, any length) that escaping is inverted by unescaping for every escaper of enc.go, plus per-kind "
        "token-validity/decoding theorems under explicit guards; the hand-written model is tied to /repo by a differential "
        "correspondence run (encoders via the verif hook, decoders and the lexer spec via asm.ParseString and ll.Lexer) and by "
        "print->parse round-trip oracles on the real code. Partial: guards exclude the recorded known findings.",
   note="Lean kernel + propext/Quot.sound; model LlirModel/Enc.lean hand-written; LexSpec reconstructed and validated against the real "
        "lexer; strconv contracts assumed; Go harness + comparison script trusted.",
   technique="Lean 4 proof over a hand-written model + differential correspondence with the Go implementation", design="§4 C11"),
 "C09": dict(
   text="Lean proof, for EVERY width (i1 included, after the fix commit for i1 -1), every integer and BOTH outcomes of the hex/decimal heuristic, that "
        "NewIntFromString(Ident(x)) = x; every accepted spelling (signed decimal, u0x upper/lower, s0x two's complement = BitVec.toInt, true/false) denotes "
        "the correct value. Model tied to the code by differential runs of Ident, NewIntFromString and asm.ParseString, including the floating-point "
        "heuristic's decisions, and a round-trip oracle on every generated (width, value).",
   note="Lean kernel + propext/Quot.sound/Classical.choice; model LlirModel/IntLit.lean, Digits.lean hand-written; math/big contracts assumed; harness trusted.",
   technique="Lean 4 proof over a hand-written model + differential correspondence with the Go implementation", design="§4 C09"),
 "C20": dict(
   text="Lean proof that the model of natsort.Less is a strict total order on ALL byte strings (irreflexive, asymmetric, transitive, total) by refinement to a "
        "lexicographic order on injective token keys, and that a list therefore has exactly one sorted permutation (order of the input and choice of sorting "
        "routine are irrelevant); metadata definitions listed in any order translate to the same section (meta_defs_order_independent); the five definition lists of a printed module are sorted permutations of what was written and do not depend on the order of the input (printed_order_canonical, printed_order_input_order_independent). Tied to the code by differential runs of natsort.Less / natsort.Strings, order-law / numeric-reading oracles on the real function, and mod.deforder: modules whose type definitions, comdats, named metadata, attribute groups and metadata definitions are written in random order print them in the order the model computes.",
   note="Lean kernel + propext/Quot.sound/Classical.choice; model LlirModel/Natsort.lean hand-written (index pair abstracted to suffixes); sort.Sort assumed to return a sorted permutation.",
   technique="Lean 4 proof over a hand-written model + differential correspondence with the Go implementation", design="§4 C20"),
 "C18": dict(
   text="The keyword tables of all enumerated types are regenerated from /repo on every run by evaluating every constant (value, String(), parser's FromString(String())); "
        "the Lean kernel decides on the complete tables that every value maps back to itself and that no two values share a keyword. Flag sets: Lean proof (by bit "
        "extensionality, for all subsets of defined flags, no bound) that OR-ing the printed members of DIFlag/DISPFlag/AllocKind gives the set back, given the decided "
        "fact that every defined mask lies in the printer's First..Last loop range; printers tied by differential runs and print->parse oracles.",
   note="Lean kernel (decide +kernel, no added axioms); trusted: the table generator (go/ast + generated Go evaluator + base-256 keyword encoding), the hand-written "
        "flag-printer model, the harness.",
   technique="Lean 4 kernel decision over tables regenerated from source + Lean proof for flag sets + differential correspondence", design="§4 C18"),
 "C19": dict(
   text="Lean proof, for every chunk sequence and every io.Writer-conforming writer (any failure point, short writes, any chunking), that WriteTo's count equals the bytes "
        "accepted, the bytes delivered are exactly that prefix of String(), the error is the first error returned, nothing is written after it, a never-failing writer "
        "receives String() exactly and a writer failing after k bytes receives exactly the first k. Tied to the code by recording the real chunk trace of every corpus "
        "module and comparing (n, err, delivered, writes-after-error) at every failure offset.",
   note="Lean kernel + propext/Quot.sound; model LlirModel/Writer.lean hand-written; fmt.Fprint* assumed to issue one Write per call; the io.Writer contract is a hypothesis.",
   technique="Lean 4 proof over a hand-written state-machine model + differential correspondence with the Go implementation", design="§4 C19"),
 "C16": dict(
   text="Lean proof (mutual structural recursion over the type language, no depth bound) that the model of Type.Equal is reflexive, symmetric and transitive, that identified "
        "structs are compared by name only, that pointers equal only pointers, and — unconditionally — that Equal holds exactly for structurally identical types "
        "(equal_iff_eq) and exactly when the printed texts coincide (equal_iff_same_text). The injectivity of the type printer that PointerType.Equal relies on is a theorem "
        "(printer_injective), obtained from a reader of printed types proved to invert the printer on every type (print_parse_roundtrip). Tied by Equal/String correspondence "
        "on generated pairs incl. real self-referential named structs, exhaustive depth<=2 universe in thorough, print->parse oracles, and the reader compared with the real "
        "parser on printed and mutated type texts, and ty.staged: types built in stages (shell, observation, completion through exported fields and SetName) equal and print as their final structure.",
   note="Lean kernel + propext/Quot.sound; model LlirModel/Types.lean hand-written in the property's universe (names unique, only structs named); StrInj is assumed, not proved.",
   technique="Lean 4 proof over a hand-written model + differential correspondence with the Go implementation", design="§4 C16"),
 "C06": dict(
   text="Lean proof that for every modelled kind and every operand-type tuple the parser-attached type equals the IR-computed type, and that both equal LLVMSpec.resultType "
        "on well-typed tuples (scalable vectors included, after the fix commits). Model tied by per-kind correspondence of Type() through constructors and through parsed "
        "one-instruction functions; the oracle demands IR == parser == spec.",
   note="Lean kernel + propext/Quot.sound; resultIR/resultAsm hand-written; LLVMSpec is a trusted transcription of the LangRef; 25 representative kinds.",
   technique="Lean 4 proof over a hand-written model + differential correspondence with the Go implementation", design="§4 C06"),
 "C07": dict(
   text="Lean model of gep.ResultType (with scalability), of the three getIndex classifiers and of the index-type check; theorem inst_eq_llvm: for every base, element type, "
        "nesting depth and index list of well-formed, length-consistent operands (constants of every form, non-constants, fixed and scalable vectors, inrange) the instruction "
        "constructor returns exactly LLVMSpec.gepType and panics exactly where that is undefined; parser_eq_inst / expr_eq_inst: the parser and the constant-expression "
        "constructor agree with it on ALL index lists they can receive; the three formerly failing inputs (repaired by fix commits) are kept as regression theorems.",
   note="Lean kernel + propext/Quot.sound; model LlirModel/Gep.lean hand-written; LLVMSpec.gepType trusted transcription; identified-struct environment fixed by the harness.",
   technique="Lean 4 proof over a hand-written model + differential correspondence with the Go implementation", design="§4 C07"),
 "C08": dict(
   text="Lean proof over functions of any shape (flat slot lists, any length) that whenever AssignIDs succeeds the result IS LLVM's numbering, that fresh functions are always "
        "numbered, that every numbering LLVM accepts is accepted unchanged, that renumbering is idempotent, that void/named slots consume no number, and (after the fix commit) "
        "that printing a parsed module never fails for any textual interleaving of named/unnamed global entities. Tied by the same shapes built through the constructors and "
        "through rendered text, plus an LLVM-numbering oracle.",
   note="Lean kernel + propext/Quot.sound; model LlirModel/Numbering.lean hand-written; LLVMSpec.numbering trusted transcription; void-ness of instructions taken from C06.",
   technique="Lean 4 proof over a hand-written model + differential correspondence with the Go implementation", design="§4 C08"),
 "C17": dict(
   text="Lean proof for ID lists of any length: distinct explicit IDs are accepted and kept, duplicates are an error, handed-out IDs are the smallest unused ones in order "
        "(nextID spec, with the loop's termination proved), the result has no duplicates, and assignment is idempotent. Reference identity in parsed modules (forward refs, "
        "cycles, distinct, inline, named-metadata merging, ascending order) is checked by an in-process pointer-identity oracle; its theorem lives in the resolver model (C04). "
        "On whole metadata sections at byte level (M-Meta): in EVERY section the parser accepts the definitions are strictly ascending by ID (meta_ids_unique) and every reference, at any "
        "nesting depth or from named metadata, denotes exactly one definition (meta_refs_resolve); tied by byte-exact printing of constructed sections and a 15-mutant parser stream.",
   note="Lean kernel + propext/Quot.sound; model LlirModel/MetaIDs.lean hand-written; identity part tied by oracle, not by theorem here.",
   technique="Lean 4 proof over a hand-written model + differential correspondence with the Go implementation", design="§4 C17"),
 "C13": dict(
   text="Lean proof over a protocol model (any number of concurrent print calls, every interleaving, never-printed and already-printed start states) that with the write "
        "policy extracted from the current source (IDs written only when they change) every conflicting pair of accesses is ordered by happens-before; the lock/write "
        "discipline (lock first, deferred unlock, guarded SetID, no other SetID caller, guarded cache writes) is regenerated from the source by go/ast and decided by the "
        "kernel; kernel-checked witness that unconditional writes DO race. Supported by Go race-detector runs (8-16 goroutines, all corpus modules, both states). Partial: "
        "the Go scheduler/memory model is not modelled; mixed-level printing of a never-printed module is a recorded finding.",
   note="Lean kernel + propext/Quot.sound; protocol model hand-written; mutual exclusion of sync.Mutex and the Go memory model trusted; fact extractor trusted; race detector is supporting evidence only.",
   technique="Lean 4 proof over a protocol model parameterised by source-extracted facts + race-detector correspondence runs", design="§4 C13"),
 "C04": dict(
   text="Lean proof over M-Resolve (module skeletons of any size): in every accepted module each reference to a type, comdat, global entity or metadata node resolves to an "
        "object that is a listed definition of exactly that namespace and key (forward/mutual/self references alike), locals resolve inside their own function, and the resolved "
        "edges are exactly the index lookups. Tied by agreement on acceptance and ordered definition lists for generated modules, and by a reflection walk of the whole parsed "
        "object graph (orphans, placeholders, foreign locals, parent links), by mod.refs (the comdat / attribute groups each entity is bound to, by name). On real text (M-Whole): "
        "whole_global_refs_resolve — every @name operand of every accepted module names a global variable or function the module lists; whole_attachment_refs_resolve — every metadata attachment of an instruction names a definition of the metadata section. Partial: outside M-Whole instruction "
        "payloads are abstracted to reference sites.",
   note="Lean kernel + propext/Quot.sound; M-Resolve hand-written; generator renders text and skeleton from one description; closure walker trusted.",
   technique=T, design="§4 C04"),
 "C05": dict(
   text="Lean proof over M-Resolve that an undefined reference (type, comdat, global entity, metadata ID, local, label) or a duplicated definition makes translation fail for "
        "every visiting order, that a blockaddress whose function or label is undefined (in a global, a metadata field, a body or a module-level uselistorder) is an error, that the undefined attribute group is accepted, and that the only outcomes are module or error; on real text: M-Core-3 function bodies (closedness of every accepted function, duplicate / undefined / mis-numbered locals are errors) and M-Meta metadata sections (undefined references at any depth and duplicated IDs are errors). Tied by single-point fault injection on "
        "generated modules (text and skeleton mutated together): model and parser must agree and the oracle demands error, never ok or panic. One panic on the unchanged "
        "tree (typed attribute on an undefined type) is a recorded finding; the alias-to-undefined-type panic was repaired by a fix commit.",
   note="Lean kernel + propext/Quot.sound; M-Resolve hand-written; fault injector in vlib/modgen.py trusted.", technique=T, design="§4 C05"),
 "C12": dict(
   text="Lean proof over M-Resolve that acceptance and the resolved module are independent of the order in which the translator's maps are iterated, and that sorted definition "
        "lists do not depend on input order. Tied by repeated parses through all four entry points with identical text/lists demanded. Partial: goroutine schedules and "
        "package-level state are not modelled.",
   note="Lean kernel + propext/Quot.sound; map order is quantified in the model, sampled on the implementation.", technique=T, design="§4 C12"),
 "C01": dict(
   text="Partial. Lean proof of the print->parse round trip for six byte-level fragments: M-DI (the 26 SPECIALISED METADATA NODE kinds `!DIKind(keyword: value, …)`: printer, reader and translation generic over a table of kinds and fields that is REGENERATED from the LLString methods and the irDI… functions of /repo on every run; di_roundtrip for every well-formed node of every kind, static theorems over the regenerated table: printer fields = parser fields, parser defaults = LLVM's, enum fields wrapped), M-Whole (WHOLE MODULES: type definitions, global variables, function definitions and the metadata "
        "section in one text, top-level splitter, cross-fragment checks: whole_roundtrip), M-Meta (the metadata section: numbered tuples with null / reference / string / typed-constant / nested-tuple "
        "fields, distinct, named metadata: meta_roundtrip), M-Core-3 (FUNCTION DEFINITIONS: any number of parameters and named / numbered blocks, 97 instruction and "
        "terminator rows — the integer and floating-point binary operations, icmp / fcmp with every predicate, load / store / alloca with an optional alignment, select, the 13 conversions, phi, freeze, "
        "fneg, the vector element instructions, extractvalue / insertvalue with index paths, getelementptr (typed through the C07 model), call (void and value, any argument list), va_arg, ret, br, conditional br, unreachable, switch (its cases on lines of their own), invoke / landingpad (cleanup, catch and filter clauses) / resume, the atomic memory instructions (load / store atomic, fence, cmpxchg, atomicrmw with their orderings), indirectbr and the funclet instructions (catchswitch, catchpad, cleanuppad, catchret, cleanupret; the kind of the definition a pad reference names is checked: core3_pad_kinds) — over local values incl. forward references, "
        "global variables and functions of the enclosing module (@name operands: whole_global_refs_resolve); function headers with their keywords (linkage … calling convention, return attributes), parameter attributes, the variadic marker and the clauses behind the parameter list; global variables with their optional keywords (linkage, preemption, visibility, DLL storage class, thread-local model, unnamed_addr, externally_initialized: whole_global_keywords_checked) "
        "and nested constants; generic row-table reader proved to invert the printer, translation = asm/local.go: numbering, duplicates, undefined uses, label kinds, operand "
        "retyping), M-Core (opaque type definitions + integer globals: all names, widths, values, both literal "
        "notations) and M-Core-2 (identified struct type definitions with bodies of arbitrarily nested types; global variables / constants of ANY type initialised by integers "
        "of any width, zeroinitializer, null, undef or arbitrarily nested struct / packed struct / array / vector constants), built on the leaf theorems (C09, C11 decode/inject, "
        "C16 type reader, C20) and on byte-level readers of types and constants proved to invert the printers for every type and constant. Model text is compared byte for byte "
        "with the implementation; the readers are compared with the real parser on printed and mutated texts. The rest of the grammar is tied by correspondence: generated "
        "typed modules must be byte-exact fixpoints and closed graphs, corpus and shuffled modules stable, every typed result used at LLVM's type; LLVM 14 itself (llvm-as | llvm-dis) must "
        "read input and printed output as the same module.",
   note="Lean kernel + propext/Quot.sound/Classical.choice; M-Core hand-written; llir/ll lexer+parser trusted to deliver the tokens; outside M-Core no theorem.", technique=T, design="§4 C01"),
 "C02": dict(
   text="Partial. Lean proof for M-Core, M-Core-2 (struct type definitions with bodies, globals of any type, nested aggregate constants), M-Core-3 (function definitions), M-Meta (metadata sections) and M-Whole (whole modules) that one parse+print step is a normal "
        "form (canon idempotent, second parse identical, text token-identical); correspondence: y = print(parse(x)) accepted and print(parse(y)) == y on generated modules in "
        "canonical and non-canonical spellings (incl. split / repeated attribute groups) and on the corpus.",
   note="as C01.", technique=T, design="§4 C02"),
 "C03": dict(
   text="Partial. Lean proof that constructed M-Core, M-Core-2 (struct type definitions, globals with nested aggregate constants built through the constant constructors) and M-Core-3 "
        "(function definitions built instruction by instruction) values "
        "print to text the parser maps back to exactly what was constructed, that (C06) constructors compute LLVM's type on every well-typed operand tuple, and that the type "
        "spelled at call / invoke / callbr sites is read back by LLVM as the callee's signature; correspondence on construction programs (API-built modules, every instruction "
        "constructor, call sites on generated signatures, constructed vs parsed numbering).",
   note="as C01 plus the C06/C08 models.", technique=T, design="§4 C03"),
 "C14": dict(
   text="Lean proof over M-History (all editing histories, all observer placements): printing twice is idempotent; the text of a successful print depends only on the "
        "function's shape, never on IDs left by earlier prints; from a fresh function the observer-free history always prints and the same history with observers either "
        "prints exactly the same text or panics. The full statement is kernel-refuted at a 4-step witness (print, insert before a numbered value, print -> panic), recorded "
        "as a known finding. Tied by random histories replayed on the real API, every print output compared (including the partial renumbering a failed print leaves behind).",
   note="Lean kernel + propext/Quot.sound; M-History hand-written on top of the C08 model; cached Typ/Successors fields not modelled.", technique=T, design="§4 C14"),
 "C15": dict(
   text="The operand/successor table of all 54 instruction and 12 terminator types is regenerated on every run (types listed from the source by go/ast; a live instance of each "
        "analysed by reflection with slots identified by address) and the Lean kernel decides on the complete table that Operands() exposes exactly one live slot per value "
        "the instruction uses, that Succs() is exactly LLVM's successor list in order, and that it follows retargeting. Dynamic oracle: writing a fresh value through each "
        "slot of constructor-built instructions changes the printed instruction exactly there. Every row is analysed in seven shapes (arguments wrapped in *ir.Arg, arguments passed as metadata and empty top-level lists included; distinct values, sparse helper lists, one value in every slot, the instruction itself in every slot). Two defects were repaired by fix commits.",
   note="Lean kernel (decide +kernel); trusted: table generator (go/ast + reflection analyser), hand-written specSuccs, harness.",
   technique="Lean 4 kernel decision over a table regenerated from source + differential oracle on the implementation", design="§4 C15"),
 "C10": dict(
   text="Partial. Lean proof, for ANY IEEE-754 interchange format (instantiated for half, double/float patterns, fp128) and for x86_fp80 (canonical encodings bit for bit; EVERY 80-bit pattern, canonical or not, at the level of the value: fp80_every_encoding_value_preserved), that every non-NaN "
        "bit pattern — signed zeros, subnormals, normals, infinities — is preserved exactly by parse-then-print-in-hex, that distinct patterns denote distinct values in the "
        "library's carrier, and that NaNs keep NaN-ness and sign only (payload loss kernel-checked and recorded as a known finding). Decimal notation, rounding and ppc_fp128 "
        "are tied by correspondence and an exact-rational oracle on the implementation (all 2^16 half patterns in thorough).",
   note="Lean kernel + propext/Quot.sound; bit-level model hand-written; big.Float normalisation, strconv/big formatting and mewmew/float exactness tests are trusted library contracts.",
   technique=T, design="§4 C10"),
}

def main():
    props = [json.loads(l)["id"] for l in open(os.path.join(V, "properties.jsonl"))]
    hooks_commits = subprocess.run(["git", "-C", "/repo", "log", "--format=%H %s"], stdout=subprocess.PIPE, text=True).stdout.splitlines()
    hook_shas = [l.split()[0] for l in hooks_commits if l.split(" ", 1)[1].startswith("verif:")]
    m = {
     "version": 1,
     "setup_cmd": "./setup",
     "hooks": {"guard": "verif", "enable": "go build -tags verif (all hook files carry //go:build verif)",
               "baseline_off_cmd": "cd /repo && go build ./... && go test -vet=off -count=1 ./...",
               "source_commits": hook_shas, "add_only": True},
     "engines": [
       {"name": "lean-model", "path": "lean/", "serves_properties": sorted(CLAIMED), "kind_free_text": "Lean 4 models (LlirModel), theorems (LlirProofs/Props), compiled line-protocol driver (Driver.lean), axiom audit (Audit.lean)"},
       {"name": "go-harness", "path": "harness/", "serves_properties": sorted(CLAIMED), "kind_free_text": "Go program linked against /repo (-tags verif) executing the same op lines on the real implementation; fact/table extractors"},
       {"name": "check", "path": "check", "serves_properties": sorted(CLAIMED), "kind_free_text": "python3 orchestrator: regenerate facts, lake build + audit, generate ops, run both sides, compare, search, evidence"},
     ],
     "checks": [],
     "not_applicable": [],
     "notes": "See DESIGN.md. Every check: rebuilds the harness from /repo's working tree, regenerates source-derived Lean facts, re-checks the property's theorems (lake build + axiom audit), runs the model/implementation correspondence and the property oracles, writes evidence/<id>.json.",
    }
    for p in props:
        if p in CLAIMED:
            c = CLAIMED[p]
            m["checks"].append({
              "property_id": p, "quick_cmd": "./check %s quick" % p, "thorough_cmd": "./check %s thorough" % p,
              "evidence_file": "evidence/%s.json" % p, "replay_cmd_template": "./check %s --replay {path}" % p,
              "engine": "lean-model", "technique": c["technique"],
              "level_claimed": {"category": "proof", "text": c["text"], "design_ref": c["design"]},
              "level_note": c["note"]})
        else:
            m["not_applicable"].append({"property_id": p, "reason": "not yet claimed: the Lean model and correspondence for this property are still being built (see DESIGN.md build order); no technique switch"})
    json.dump(m, open(os.path.join(V, "MANIFEST.json"), "w"), indent=1)
    try:
        import jsonschema
        jsonschema.validate(m, json.load(open("/root/.vp/MANIFEST.schema.json")))
        print("manifest valid;", len(m["checks"]), "checks")
    except ImportError:
        print("jsonschema not available; manifest written")

if __name__ == "__main__":
    main()
