#!/usr/bin/env python3
"""Re-runs every kept seeded change against the current /repo and the current checks (self-test of the machinery).
For each seeded/<id>: git apply patch.diff to /repo, run the quick check of every property it breaks, undo. Expect exit 1."""
import glob, json, os, subprocess, sys
ENV = dict(os.environ, GOFLAGS="-mod=mod", GOPROXY="off", GOSUMDB="off", GOTOOLCHAIN="local")

def sh(cmd, cwd=None):
    p = subprocess.run(cmd, shell=True, cwd=cwd, env=ENV, stdout=subprocess.PIPE, stderr=subprocess.STDOUT, text=True)
    return p.returncode, p.stdout

def main():
    rc, out = sh("git -C /repo status --short")
    assert out.strip() == "", "repo not clean"
    res = {}
    for d in sorted(glob.glob("/verif/seeded/*/")):
        sid = os.path.basename(d.rstrip("/"))
        meta = json.load(open(os.path.join(d, "meta.json")))
        rc, out = sh("git -C /repo apply --check %s" % os.path.join(d, "patch.diff"))
        if rc != 0:
            res[sid] = "stale-patch"
            print(sid, "STALE (patch no longer applies)")
            continue
        sh("git -C /repo apply %s" % os.path.join(d, "patch.diff"))
        try:
            caught = []
            props = [p for p, v in meta.get("checks", {}).items() if v.get("exit") == 1] or meta["breaks"]
            for p in props:
                rc, out = sh("./check %s quick" % p, cwd="/verif")
                caught.append((p, rc))
            res[sid] = caught
            print(sid, caught, "OK" if all(rc == 1 for _, rc in caught) else "MISSED")
        finally:
            sh("git -C /repo checkout -- .")
    json.dump(res, open("/verif/work/seedall.json", "w"), indent=1)

if __name__ == "__main__":
    main()
