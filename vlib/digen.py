"""generator of M-DI nodes (descriptors: lean/LlirModel/Drv/DIOps.lean) over the table of node kinds regenerated from /repo (`harness facts`, key `difields`):
every kind x random subsets of its fields x values at the ends of their ranges x distinct; plus text-level mutants for the parser stream."""
import random
import re
from . import common as C
from . import regen

# the definitions a node may refer to, by the Go type of the referring field
STUBS = ('!90 = !DIFile(filename: "a", directory: "b")\n!91 = !DIBasicType(name: "t")\n!92 = !DIBasicType(name: "u")\n!93 = !{}\n!94 = !DILocation(line: 1, scope: !98)\n'
         '!95 = distinct !DICompileUnit(language: DW_LANG_C, file: !90)\n!96 = distinct !DIGlobalVariable(name: "v", isDefinition: true)\n!97 = !DIExpression()\n'
         '!98 = distinct !DISubprogram(name: "f", spFlags: DISPFlagDefinition, unit: !95)\n')
REF = {"*DIFile": ["!90"], "*Tuple": ["!93"], "*DICompileUnit": ["!95"], "*DIGlobalVariable": ["!96"], "*DIExpression": ["!97"], "*DILocation": ["!94"],
       "Field": ["!91", "!92", "!93", "!98", "!90"], "FieldOrInt": ["!93", "!91", "0", "3", "-1", "9223372036854775807"]}
# fields whose translation accepts only some kinds of node (a type switch that panics on anything else)
REF_OF = {("DICompositeType", "vtableHolder"): ["!91", "!92"]}
STRINGS = [b"int", b"a b", b'q"uote', b"back\\slash", b"\x01\xff", b"x", b"\\5C", b"comma, inside", b"paren)", b"colon: x"]
SIGNED = {("DIEnumerator", "value"), ("DISubprogram", "thisAdjustment")}
ENUM_OF = {"enum.DwarfTag": "DwarfTag", "enum.DwarfAttEncoding": "DwarfAttEncoding", "enum.DwarfLang": "DwarfLang", "enum.DwarfCC": "DwarfCC",
           "enum.DwarfVirtuality": "DwarfVirtuality", "enum.DwarfMacinfo": "DwarfMacinfo", "enum.EmissionKind": "EmissionKind", "enum.NameTableKind": "NameTableKind",
           "enum.ChecksumKind": "ChecksumKind"}


class Table:
    def __init__(self, difields, enum_rows):
        self.kinds = regen.di_kinds(difields)
        self.enums = {}
        for t, name, val, s, back in enum_rows:
            self.enums.setdefault(t, []).append((val, s))

    def flag_sets(self, t, rng):
        """a set of members of a bit-flag type in the printer's order (ascending bit value; the accessibility members of DIFlag exclude each other)"""
        byval = {}
        for v, s in self.enums.get(t, []):
            if v > 0 and (v & (v - 1) == 0 or (t == "DIFlag" and v == 3)) and not s.endswith(("First", "Last")):
                byval.setdefault(v, s)
        ms = sorted(byval.items())
        if t == "DIFlag":
            acc = [(1, "DIFlagPrivate"), (2, "DIFlagProtected"), (3, "DIFlagPublic")]
            rest = [(v, s) for v, s in ms if v > 3 and s.startswith("DIFlag")]
            chosen = ([rng.choice(acc)] if rng.random() < 0.5 else []) + sorted(rng.sample(rest, rng.choice([0, 1, 1, 2, 3])))
        else:
            # (the virtuality members occupy a two-bit field)
            rest = [(v, s) for v, s in ms if s.startswith("DISPFlag") and v > 2]
            chosen = ([rng.choice([(1, "DISPFlagVirtual"), (2, "DISPFlagPureVirtual")])] if rng.random() < 0.3 else []) + sorted(rng.sample(rest, rng.choice([1, 1, 2, 3])))
        if not chosen:
            chosen = [rng.choice(rest)]
        return " | ".join(s for _, s in chosen)

    def value(self, rng, kind, fl, zero_ok=False):
        """a descriptor value of the field (never the omitted value unless zero_ok)"""
        vk = regen.di_vk(fl)
        gt = fl["gotype"]
        if vk == "int":
            if (kind, fl["kw"]) in SIGNED:
                c = [1, -5, 7, 2**63 - 1, -2**63, 4096]
            elif gt == "int64":
                c = [1, 7, 255, 65535, 2**31 - 1]
            else:
                c = [1, 7, 255, 65535, 2**32 - 1]
            if zero_ok:
                c = c + [0]
            return "i%d" % rng.choice(c)
        if vk == "str":
            s = rng.choice(STRINGS + ([b""] if zero_ok else []))
            return "s" + s.hex()
        if vk == "bool":
            if fl["cond"] == "true":
                return "b1"
            if fl["cond"] == "false":
                return "b0"
            return rng.choice(["b0", "b1"])
        # word
        if gt in ("enum.DIFlag", "enum.DISPFlag"):
            return "w" + self.flag_sets(gt[5:], rng).encode().hex()
        if gt in ENUM_OF:
            ms = [s for v, s in self.enums.get(ENUM_OF[gt], []) if v != 0 and not s.startswith(("cc ", "DwarfTag(")) and re.fullmatch(r"[A-Za-z_0-9]+", s)]
            if fl["wrap"] in ("enumString", "dwarfTagString") and rng.random() < 0.15:
                return "w" + b"200".hex()          # a number without a keyword
            return "w" + rng.choice(ms).encode().hex()
        return "w" + rng.choice(REF_OF.get((kind, fl["kw"])) or REF.get(gt, ["!93"])).encode().hex()

    def node(self, rng, ki=None):
        """(kind index, distinct, [(field index, value)]) of a well-formed node"""
        ki = rng.randrange(len(self.kinds)) if ki is None else ki
        k = self.kinds[ki]
        distinct = rng.random() < 0.4
        fields = []
        has_other = any(fl["cond"].startswith("other:") for fl in k["fields"])
        for i, fl in enumerate(k["fields"]):
            if fl["cond"].startswith("other:"):
                continue
            if fl["cond"] == "always" or rng.random() < 0.5:
                fields.append((i, self.value(rng, k["kind"], fl)))
        if k["kind"] == "DIEnumerator":
            # `value` is printed as an unsigned number exactly when `isUnsigned` is set
            vi = [i for i, fl in enumerate(k["fields"]) if fl["kw"] == "value"][0]
            ui = [i for i, fl in enumerate(k["fields"]) if fl["kw"] == "isUnsigned"][0]
            uns = any(i == ui for i, _ in fields)
            fields = [(i, "i%d" % rng.choice([1, 7, 2**63, 2**64 - 1, 2**63 - 1] if uns else [1, -5, 7, 2**63 - 1, -2**63, 0])) if i == vi else (i, v) for i, v in fields]
        if has_other and k["kind"] == "DISubprogram":
            # the printer spells `isDefinition` out unless the node is distinct and has spFlags: generated subprograms are of that form
            distinct = True
            j = [i for i, fl in enumerate(k["fields"]) if fl["kw"] == "spFlags"][0]
            if not any(i == j for i, _ in fields):
                fields.append((j, self.value(rng, k["kind"], k["fields"][j])))
                fields.sort()
        return ki, distinct, fields


def desc(node):
    ki, d, fs = node
    return "%d %d %s" % (ki, int(d), ";".join("%d=%s" % f for f in fs) or "-")


def print_lines(rng, table, n):
    lines = []
    for ki in range(len(table.kinds)):
        for _ in range(max(2, n // 8)):
            a = desc(table.node(rng, ki))
            lines += ["di.print " + a, "di.wf " + a, "!di.rt " + a + " " + STUBS.encode().hex()]
    return lines


def parse_stream(rng, table, driver, n):
    """printed nodes and mutants of them against the real parser: fields in another order, a field written twice, a field written at the value the printer omits,
    an unknown keyword, a keyword of another kind, an unconditionally printed field missing, distinct toggled, punctuation dropped"""
    nodes = [table.node(rng, ki) for ki in range(len(table.kinds)) for _ in range(max(1, n // 12))]
    # the text of every field on its own (the driver prints a one-field node)
    asks, index = [], []
    for ni, (ki, d, fs) in enumerate(nodes):
        k = table.kinds[ki]
        extra = []
        for i, fl in enumerate(k["fields"]):
            if (k["kind"], fl["kw"]) == ("DIEnumerator", "isUnsigned"):
                continue          # (how `value` is read depends on it: not an independent field)
            if fl["cond"] in ("nonzero", "nonempty", "true", "false") and regen.di_vk(fl) != "word" and rng.random() < 0.5:
                z = {"int": "i0", "str": "s", "bool": "b0" if fl["cond"] == "true" else "b1"}[regen.di_vk(fl)]
                extra.append((i, z, "omitted"))
            if fl["cond"] != "always" and not fl["cond"].startswith("other:") and rng.random() < 0.3:
                extra.append((i, table.value(rng, k["kind"], fl), "other"))
        for i, v in fs:
            asks.append("di.print %d 0 %d=%s" % (ki, i, v)); index.append((ni, "own", i))
        for i, v, why in extra:
            asks.append("di.print %d 0 %d=%s" % (ki, i, v)); index.append((ni, why, i))
    outs = C.run_lines([driver], asks, shards=8)
    texts = {}
    for (ni, why, i), o in zip(index, outs):
        if not o or o in ("-", "unknown-op"):
            continue
        t = bytes.fromhex(o)
        texts.setdefault(ni, []).append((why, i, t[t.index(b"(") + 1:-1]))
    lines, kinds = [], []
    stubs = STUBS.encode().hex()
    def emit(kind, text):
        lines.append("di.parse %s %s" % (text.hex(), stubs)); kinds.append(kind)
    for ni, (ki, d, fs) in enumerate(nodes):
        k = table.kinds[ki]
        own = [(i, t) for why, i, t in texts.get(ni, []) if why == "own"]
        omitted = [(i, t) for why, i, t in texts.get(ni, []) if why == "omitted"]
        other = [(i, t) for why, i, t in texts.get(ni, []) if why == "other"]
        head = (b"distinct " if d else b"") + b"!" + k["kind"].encode() + b"("
        def node_text(parts, dist=d):
            return (b"distinct " if dist else b"") + b"!" + k["kind"].encode() + b"(" + b", ".join(t for _, t in parts) + b")"
        emit("printed", node_text(own))
        sh = list(own); rng.shuffle(sh)
        emit("shuffled", node_text(sh))
        emit("distinct-toggled", node_text(own, not d))
        if omitted:
            z = rng.choice(omitted)
            mixed = [p for p in own if p[0] != z[0]] + [z]; rng.shuffle(mixed)
            emit("omitted-value-written", node_text(mixed))
        if other:
            o = rng.choice(other)
            pos = rng.randrange(len(own) + 1)
            emit("field-written-twice" if any(i == o[0] for i, _ in own) else "field-added", node_text(own[:pos] + [o] + own[pos:]))
            emit("field-overwritten-last", node_text(own + [o]))
        emit("unknown-keyword", node_text(own + [(-1, b"bogusField: 1")]))
        foreign = [fl["kw"] for kk in table.kinds for fl in kk["fields"] if fl["kw"] not in [f["kw"] for f in k["fields"]] and regen.di_vk(fl) == "int"]
        if foreign:
            emit("foreign-keyword", node_text(own + [(-1, rng.choice(foreign).encode() + b": 1")]))
        always = [i for i, fl in enumerate(k["fields"]) if fl["cond"] == "always"]
        if always and len(own) > 1:
            a = rng.choice(always)
            emit("always-field-missing", node_text([p for p in own if p[0] != a]))
        t = node_text(own)
        emit("paren-dropped", t[:-1])
        if len(own) > 1:
            emit("comma-dropped", t.replace(b", ", b" ", 1) if b'"' not in t else t)
            emit("colon-dropped", t.replace(b": ", b" ", 1) if b'"' not in t else t)
        emit("kind-misspelt", t.replace(b"!DI", b"!DJ", 1))
    return lines, kinds
