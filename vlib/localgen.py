"""Systematic enumeration of LOCAL naming inside one function body: every kind of definition site (parameter, block label, instruction result, value-yielding
terminator: invoke and callbr) and every kind of use site (operand, phi value, phi predecessor, br / condbr / switch default / switch case / indirectbr / invoke /
callbr targets, blockaddress of an own block, ret) under naming schemes that make names and IDs confusable (`%"1"` next to `%1`).

Renders the same description to canonical text (a print fixpoint of llir, validated by mod.fix) and to the skeleton token of the M-Resolve model."""

DEFS = ["p0", "p1", "b0", "v0", "v1", "b1", "t0", "b2", "v2", "t1", "b3", "v3", "b4", "v4", "b5"]   # in LLVM numbering order
KIND = {"p": "param", "b": "block", "v": "inst", "t": "term"}

TEMPLATE = """declare i32 @g()

define i32 @f(i32 <D:p0>, i32 <D:p1>) {
<L:b0>
\t<D:v0> = add i32 <U:p0>, <U:p1>
\t<D:v1> = phi i32 [ <U:v0>, <U:b0> ]
\tswitch i32 <U:v0>, label <U:b1> [
\t\ti32 1, label <U:b2>
\t\ti32 2, label <U:b3>
\t]

<L:b1>
\t<D:t0> = invoke i32 @g()
\t\tto label <U:b2> unwind label <U:b3>

<L:b2>
\t<D:v2> = phi i32 [ <U:t0>, <U:b1> ], [ <U:v1>, <U:b1> ], [ <U:v0>, <U:b0> ]
\t<D:t1> = callbr i32 asm "", "=r,i"(i8* blockaddress(@f, <U:b4>))
\t\tto label <U:b3> [label <U:b4>]

<L:b3>
\t<D:v3> = add i32 <U:t1>, <U:v2>
\tindirectbr i8* blockaddress(@f, <U:b4>), [label <U:b4>, label <U:b0>]

<L:b4>
\t<D:v4> = select i1 true, i32 <U:v3>, i32 <U:v0>
\tbr i1 true, label <U:b5>, label <U:b1>

<L:b5>
\tret i32 <U:v4>
}

uselistorder_bb @f, <U:b3>, { 1, 0 }
"""

# the exception-handling terminators and pads (their own translation functions in package asm): catchswitch (handlers, unwind label), catchpad /
# cleanuppad (parent token, arguments), catchret (from, to), cleanupret (from, unwind label), landingpad, resume
DEFS_EH = ["p0", "b0", "t0", "b1", "b2", "t1", "b3", "v0", "b4", "v1", "b5", "v2", "b6", "v3", "b7", "v4", "b8", "v5"]

TEMPLATE_EH = """declare i32 @g()

define i32 @h(i32 <D:p0>) personality i8* null {
<L:b0>
\t<D:t0> = invoke i32 @g()
\t\tto label <U:b1> unwind label <U:b2>

<L:b1>
\tret i32 <U:t0>

<L:b2>
\t<D:t1> = catchswitch within none [label <U:b3>, label <U:b4>] unwind label <U:b5>

<L:b3>
\t<D:v0> = catchpad within <U:t1> [i32 <U:p0>]
\tcatchret from <U:v0> to label <U:b1>

<L:b4>
\t<D:v1> = catchpad within <U:t1> []
\tcatchret from <U:v1> to label <U:b6>

<L:b5>
\t<D:v2> = cleanuppad within none [i32 <U:p0>]
\tcleanupret from <U:v2> unwind label <U:b7>

<L:b6>
\t<D:v3> = cleanuppad within <U:v1> []
\tcleanupret from <U:v3> unwind to caller

<L:b7>
\t<D:v4> = landingpad { i8*, i32 }
\t\tcleanup
\tresume { i8*, i32 } <U:v4>

<L:b8>
\t<D:v5> = add i32 <U:t0>, <U:p0>
\tbr label <U:b8>
}
"""

import re

TOK = re.compile(r"<([DUL]):(\w+)>")


class Tpl:
    def __init__(self, tag, defs, template, skel):
        self.tag, self.DEFS, self.TEMPLATE, self.skel = tag, defs, template, skel
        self.USES = [m.group(2) for m in TOK.finditer(template) if m.group(1) == "U"]


# the last use site of the main template is the block operand of the module-level `uselistorder_bb` (resolved by findBlock, like blockaddress targets)
MAIN = Tpl("", DEFS, TEMPLATE, lambda ldefs, lrefs: "F|g|||;F|f|G=g G=f|%s|%s;U|#|G=f|||f:%s" % (" ".join(ldefs), " ".join(lrefs[:-1]), lrefs[-1]))
EH = Tpl("eh:", DEFS_EH, TEMPLATE_EH, lambda ldefs, lrefs: "F|g|||;F|h|G=g|%s|%s" % (" ".join(ldefs), " ".join(lrefs)))

FAM = ['"7"', '"07"', '"007"', '"+7"', '"0"', '"00"', "-0", '"0007"', '"+07"', '"+0"', '"000"', "-7", '"00007"', '"+007"', '"0000"', '"+00"', '"+0007"', '"+000"']


def numbering(names, t=MAIN):
    """names: slot -> None (unnamed) | identifier text without the sigil (`x`, `"1"`); returns slot -> identifier text (IDs for the unnamed, LLVM order)"""
    out, n = {}, 0
    for d in t.DEFS:
        if names.get(d) is None:
            out[d] = str(n); n += 1
        else:
            out[d] = names[d]
    return out


def render(names, use_override=None, def_override=None, t=MAIN):
    """use_override: {use-site index: identifier text}; def_override: {slot: identifier text} applied AFTER numbering (so that a duplicated definition does not
    shift the IDs). Returns (text, skeleton)."""
    ids = numbering(names, t)
    dids = dict(ids)
    if def_override:
        dids.update(def_override)
    ui = [0]
    lrefs = []

    def sub(m):
        k, s = m.group(1), m.group(2)
        if k == "D":
            return "%" + dids[s]
        if k == "L":
            return dids[s] + ":"
        i = ui[0]; ui[0] += 1
        x = use_override[i] if use_override and i in use_override else ids[s]
        lrefs.append(x)
        return "%" + x
    text = TOK.sub(sub, t.TEMPLATE)
    ldefs = [dids[d] for d in t.DEFS]
    return text, t.skel(ldefs, lrefs)


def schemes(rng, n_random, t=MAIN):
    """naming schemes: (label, names)"""
    DEFS = t.DEFS
    out = [("all-unnamed", {}), ("all-named", {d: d for d in DEFS}), ("all-quoted-numeric", {d: '"%d"' % i for i, d in enumerate(DEFS)})]
    # one slot k carries, as a quoted NAME, the number that is the ID of another (unnamed) slot j
    for k in DEFS:
        for j in DEFS:
            if k == j:
                continue
            ids = numbering({k: "x"}, t)
            out.append(("name-%s-is-id-of-%s" % (k, j), {k: '"%s"' % ids[j]}))
    # names that READ as the same number (ir.LocalIdent.Name() shows all of them as "7", resp. "0") but are different names
    for k in range(0, len(FAM), 3):
        rot = FAM[k:] + FAM[:k]
        out.append(("numeric-lookalikes-%d" % k, {d: rot[i] for i, d in enumerate(DEFS)}))
    for _ in range(n_random):
        names = {}
        for d in DEFS:
            r = rng.random()
            if r < 0.45:
                names[d] = None
            elif r < 0.7:
                names[d] = d
            else:
                names[d] = "?"          # quoted numeric, filled below
        # quoted numerics: numbers among the IDs in use (confusable) or fresh ones, all distinct
        nun = sum(1 for d in DEFS if names[d] is None)
        pool = list(range(0, max(nun, 1) + 3))
        rng.shuffle(pool)
        for d in DEFS:
            if names[d] == "?":
                names[d] = '"%d"' % pool.pop() if pool else d
        out.append(("random", names))
    return out


def cases(rng, n_random=20):
    """yields (kind, expected, text, skeleton); expected in {'ok', 'error'}; the main template, then the exception-handling template"""
    for t in (MAIN, EH):
        for k, e, text, sk in cases_of(rng, n_random if t is MAIN else max(4, n_random // 4), t):
            yield (t.tag + k, e, text, sk)


def cases_of(rng, n_random, t):
    DEFS, USES = t.DEFS, t.USES
    R = lambda *a, **kw: render(*a, t=t, **kw)
    for label, names in schemes(rng, n_random, t):
        text, sk = R(names)
        yield ("valid:" + label, "ok", text, sk)
    # a use of ID n spelled as the NAME "n" (and the reverse) where that name (ID) is not defined
    ids = numbering({}, t)
    for i, s in enumerate(USES):
        yield ("use-of-id-quoted:%d" % i, "error", *R({}, {i: '"%s"' % ids[s]}))
    qn = {d: '"%d"' % i for i, d in enumerate(DEFS)}
    for i, s in enumerate(USES):
        yield ("use-of-quoted-as-id:%d" % i, "error", *R(qn, {i: qn[s].strip('"')}))
    # a use of a name nothing defines, at every use site (all-named and all-unnamed bodies)
    for i, s in enumerate(USES):
        yield ("use-of-undefined-name:%d" % i, "error", *R({d: d for d in DEFS}, {i: "undefined.x"}))
        yield ("use-of-undefined-id:%d" % i, "error", *R({}, {i: "999"}))
    # mixed: slot k is NAMED "n" and nothing has ID n: a use spelled %n must not find it (and the reverse)
    for k in DEFS:
        names = {k: '"77"'}
        for i, s in enumerate(USES):
            if s == k:
                yield ("use-of-quoted-as-id:%s:%d" % (k, i), "error", *R(names, {i: "77"}))
    # a use spelled with ANOTHER spelling of the same number, which no definition carries (`%"000007"` where `%"7"`, `%"07"`, ... exist)
    lk = {d: FAM[i] for i, d in enumerate(DEFS)}
    for i, s_ in enumerate(USES):
        fresh = '"000007"' if "7" in lk[s_] else '"00000"'
        yield ("use-of-lookalike-number:%d" % i, "error", *R(lk, {i: fresh}))
        yield ("use-of-lookalike-number-id:%d" % i, "error", *R(lk, {i: "7" if "7" in lk[s_] else "0"}))
    # duplicated definitions: every ordered pair of definition sites, named (b takes a's name) ...
    named = {d: d for d in DEFS}
    for a in DEFS:
        for b in DEFS:
            if a != b:
                n2 = dict(named); n2[b] = a
                yield ("duplicate-name:%s:%s" % (KIND[a[0]] + "-" + a, KIND[b[0]] + "-" + b), "error", *R(n2))
    # ... and numbered (b is WRITTEN with a's ID; the IDs of the others stay as they are)
    for a in DEFS:
        for b in DEFS:
            if a != b:
                yield ("duplicate-id:%s:%s" % (a, b), "error", *R({}, None, {b: ids[a]}))


def zero_spellings():
    """texts that must be REJECTED: in an all-unnamed body, one definition that is not the first unnamed value is written with an ID that reads as zero
    (`%0`, `%00`, `%000`; a label `00:`): `AssignIDs` cannot tell an explicit 0 from "not numbered yet", so the parser checks explicit zeros by itself.
    Yields (kind, text)."""
    for t in (MAIN, EH):
        ids = numbering({}, t)
        for d in t.DEFS:
            if ids[d] == "0":
                continue
            for sp in ("0", "00", "000"):
                text, _ = render({}, None, {d: sp}, t=t)
                yield ("%smisplaced-zero:%s:%s" % (t.tag, d, sp), text)


def empty_quoted_spellings():
    """texts that must be ACCEPTED (LLVM reads the quoted empty name as "unnamed"): in an all-unnamed body, one definition — at EVERY position, not only the first
    unnamed one — written with the empty quoted name (`%""`, a label `"":`); the entity takes the next number like any other unnamed one. Yields (kind, text)."""
    for t in (MAIN, EH):
        for d in t.DEFS:
            text, _ = render({}, None, {d: '""'}, t=t)
            yield ("%sempty-quoted:%s" % (t.tag, d), text)


def declaration_numberings():
    """parameter lists of DECLARATIONS with explicit IDs: (kind, text, valid). A declaration has no body whose numbering would be checked, so the parser has to
    check the parameter IDs by itself — a misnumbered declaration that is accepted makes the printer fail."""
    out = []
    for ids, ok in ((["%0"], True), (["%0", "%1"], True), (["", "%1"], True), (["%0", ""], True), (["%1"], False), (["%0", "%2"], False), (["%0", "%0"], False),
                    (["%1", "%0"], False), (["", "%0"], False), (["%a", "%0"], True), (["%a", "%1"], False), (["%0", "%a", "%1"], True), (["%0", "%a", "%2"], False),
                    (["%00"], True), (["%0", "%00"], False), (["", "", "%2"], True), (["", "", "%3"], False)):
        ps = ", ".join(("i32 " + i).strip() for i in ids)
        out.append(("decl-params:" + ",".join(ids), "declare void @f(%s)\n" % ps, ok))
    return out


def global_numberings():
    """written IDs of unnamed GLOBAL entities (variables, aliases, ifuncs, functions share one sequence, numbered in the order they are defined): (kind, text, valid)"""
    G = "@%s = global i32 %d\n"
    F = "define void @%s() {\n\tret void\n}\n"
    D = "declare void @%s()\n"
    A = "@%s = alias i32, i32* @x\n"
    X = "@x = global i32 7\n"
    out = []
    def add(kind, text, ok):
        out.append(("global-ids:" + kind, text, ok))
    add("0-1", G % ("0", 0) + G % ("1", 1) + "@u = global i32* @1\n", True)
    add("named-between", G % ("0", 0) + X + G % ("1", 1) + "@u = global i32* @1\n", True)
    add("all-kinds", X + G % ("0", 0) + A % "1" + D % "2" + F % "3" + "@u = global void ()* @3\n@v = global i32* @1\n", True)
    add("function-first", F % "0" + G % ("1", 1), True)
    add("twice-0", G % ("0", 0) + G % ("0", 1), False)
    add("twice-0-used", G % ("0", 0) + G % ("0", 1) + "@u = global i32* @1\n", False)
    add("starts-at-1", G % ("1", 0), False)
    add("starts-at-5-ref-0", G % ("5", 0) + "@u = global i32* @0\n", False)
    add("gap", G % ("0", 0) + G % ("2", 1), False)
    add("swapped", G % ("1", 0) + G % ("0", 1), False)
    add("function-twice-0", F % "0" + F % "0", False)
    add("global-and-function-0", G % ("0", 0) + F % "0", False)
    add("alias-repeats-id", X + G % ("0", 0) + A % "0", False)
    add("declaration-gap", D % "0" + D % "2", False)
    add("second-after-named-restarts", G % ("0", 0) + X + G % ("0", 1), False)
    return out
