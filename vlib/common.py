"""Shared machinery of the /verif checks: builds, runners, comparison, findings, evidence."""
import fcntl, hashlib, json, os, random, re, subprocess, sys, time

VERIF = os.path.dirname(os.path.dirname(os.path.abspath(__file__)))
REPO = os.environ.get("VERIF_REPO", "/repo")
LEAN = os.path.join(VERIF, "lean")
HARNESS = os.path.join(VERIF, "harness")
WORK = os.path.join(VERIF, "work")
GOENV = dict(os.environ, GOFLAGS="-mod=mod", GOPROXY="off", GOSUMDB="off", GOTOOLCHAIN="local",
             CGO_ENABLED="0")
ALLOWED_AXIOMS = {"propext", "Classical.choice", "Quot.sound"}
NCPU = os.cpu_count() or 4


class BrokenTie(Exception):
    """The machinery itself could not run (e.g. /repo does not compile)."""


class Lock:
    def __init__(self, name):
        os.makedirs(WORK, exist_ok=True)
        self.path = os.path.join(WORK, name + ".lock")

    def __enter__(self):
        self.f = open(self.path, "w")
        fcntl.flock(self.f, fcntl.LOCK_EX)
        return self

    def __exit__(self, *a):
        fcntl.flock(self.f, fcntl.LOCK_UN)
        self.f.close()


def sh(cmd, cwd=None, env=None, timeout=None, inp=None):
    p = subprocess.run(cmd, cwd=cwd, env=env, timeout=timeout, input=inp, stdout=subprocess.PIPE,
                       stderr=subprocess.STDOUT, text=True)
    return p.returncode, p.stdout


def build_harness():
    """Rebuild the Go harness from /repo's current working tree (tag verif)."""
    with Lock("harness"):
        if not os.path.exists(os.path.join(HARNESS, "go.sum")) or True:
            subprocess.run(["cp", os.path.join(REPO, "go.sum"), os.path.join(HARNESS, "go.sum")])
        rc, out = sh(["go", "build", "-tags", "verif", "-o", os.path.join(HARNESS, "bin", "harness"), "."],
                     cwd=HARNESS, env=GOENV, timeout=600)
        if rc != 0:
            raise BrokenTie("go build of the harness against /repo failed:\n" + out)
    return os.path.join(HARNESS, "bin", "harness")


def write_if_changed(path, content):
    try:
        if open(path).read() == content:
            return False
    except FileNotFoundError:
        pass
    os.makedirs(os.path.dirname(path), exist_ok=True)
    tmp = path + ".tmp%d" % os.getpid()
    open(tmp, "w").write(content)
    os.replace(tmp, path)
    return True


def lake_build(targets, timeout=3000):
    """Returns (ok, output)."""
    with Lock("lake"):
        rc, out = sh(["lake", "build"] + targets, cwd=LEAN, timeout=timeout)
    return rc == 0, out


def prop_modules(prop):
    """the Lean modules holding the property's theorems: LlirProofs/Props/<prop>.lean plus any <prop><Suffix>.lean (e.g. C20Facts: the theorems
    over regenerated facts, kept apart so that other properties' proofs do not depend on generated files they do not need)"""
    d = os.path.join(LEAN, "LlirProofs", "Props")
    return sorted("LlirProofs.Props." + f[:-5] for f in os.listdir(d) if re.fullmatch(re.escape(prop) + r"[A-Za-z]*\.lean", f))


def audit(prop):
    """Theorem list + axioms for one property, from the compiled proofs (imports only that property's module)."""
    body = open(os.path.join(LEAN, "Audit.lean")).read()
    body = body.replace("import LlirProofs\n", "".join("import %s\n" % m for m in prop_modules(prop)))
    os.makedirs(WORK, exist_ok=True)
    path = os.path.join(WORK, "audit_%s.lean" % prop)
    open(path, "w").write(body)
    with Lock("lake"):
        rc, out = sh(["lake", "env", "lean", path], cwd=LEAN, timeout=1200)
    rows = []
    for line in out.splitlines():
        if line.startswith("AUDIT "):
            r = json.loads(line[6:])
            if r["property"] == prop:
                rows.append(r)
    if rc == 0 and not rows:
        rc = 1
        out += "\nno theorem found in namespace Llir.Props.%s" % prop
    return rc == 0, rows, out


FORBIDDEN = re.compile(r"\bsorry\b|\badmit\b|^axiom |native_decide|bv_decide|implemented_by|\bunsafe |maxHeartbeats 0", re.M)


def strip_lean_comments(src):
    src = re.sub(r"/-.*?-/", "", src, flags=re.S)
    src = re.sub(r"--.*", "", src)
    return src


def source_grep():
    """Forbidden constructs in proof/model sources (comments stripped)."""
    hits = []
    for root in ("LlirModel", "LlirProofs"):
        for d, _, fs in os.walk(os.path.join(LEAN, root)):
            for f in fs:
                if f.endswith(".lean"):
                    p = os.path.join(d, f)
                    for m in FORBIDDEN.finditer(strip_lean_comments(open(p).read())):
                        hits.append("%s: %s" % (os.path.relpath(p, LEAN), m.group(0)))
    return hits


CRASH_BUDGET = 12      # crashes / hangs per shard after which the rest of the shard is not run (each crash is a violation already)


def run_lines(cmd, lines, shards=1, timeout=3600, env=None, _crashes=None):
    """Pipe op lines to a line-protocol process, return output lines (same length).
    Sharded over processes for speed. A crashed/hung shard is continued after the culprit in a fresh process; after CRASH_BUDGET
    crashes in one shard the remaining ops of that shard are answered `skipped-after-crashes` (not compared): a change that makes the
    implementation die on every other input (e.g. unbounded recursion: a Go stack overflow takes seconds and cannot be recovered) must
    not turn a quick check into an hour."""
    if not lines:
        return []
    shards = max(1, min(shards, len(lines) // 200 or 1))
    n = len(lines)
    bounds = [(i * n // shards, (i + 1) * n // shards) for i in range(shards)]
    procs = []
    for lo, hi in bounds:
        p = subprocess.Popen(cmd, stdin=subprocess.PIPE, stdout=subprocess.PIPE, stderr=subprocess.PIPE, env=env)
        procs.append((p, lo, hi))
    import threading
    results = [None] * shards

    def feed(i, p, lo, hi):
        try:
            out, err = p.communicate(("\n".join(lines[lo:hi]) + "\n").encode(), timeout=timeout)
            results[i] = (p.returncode, out.decode("utf-8", "replace").split("\n"), err.decode("utf-8", "replace"))
        except subprocess.TimeoutExpired:
            p.kill()
            results[i] = (-9, [], "timeout")

    ths = [threading.Thread(target=feed, args=(i, p, lo, hi)) for i, (p, lo, hi) in enumerate(procs)]
    for t in ths:
        t.start()
    for t in ths:
        t.join()
    out = []
    for i, (lo, hi) in enumerate(bounds):
        rc, o, err = results[i]
        if o and o[-1] == "":
            o = o[:-1]
        if rc == 0 and len(o) == hi - lo:
            out.extend(o)
            continue
        # crashed or hung: keep what we have, mark the culprit, continue after it
        got = o[:hi - lo]
        if got and got[-1] == "hang":
            got = got[:-1]
        k = len(got)
        out.extend(got)
        if k < hi - lo:
            out.append("crash" if rc != 3 else "hang")
            rest = lines[lo + k + 1:hi]
            cnt = _crashes if (_crashes is not None and shards == 1) else [0]
            cnt[0] += 1
            if cnt[0] >= CRASH_BUDGET:
                out.extend(["skipped-after-crashes"] * len(rest))
            else:
                out.extend(run_lines(cmd, rest, 1, timeout, env, cnt))
    assert len(out) == n, (len(out), n)
    return out


class Findings:
    def __init__(self):
        p = os.path.join(VERIF, "known_findings.json")
        self.data = json.load(open(p)) if os.path.exists(p) else {"findings": [], "fixed": []}

    def match_exact(self, prop, line, impl=None):
        for f in self.data["findings"]:
            if f["property"] == prop and line in (f.get("exact_ops") or []):
                if impl is not None and f.get("impl_prefix") and not any(impl.startswith(x) for x in f["impl_prefix"]):
                    continue
                return f
        return None

    def match(self, prop, op, cls, impl=None):
        for f in self.data["findings"]:
            if f["property"] == prop and f["class"] == cls and (not f.get("ops") or op in f["ops"]):
                # a finding may pin down HOW the oracle fails on the implementation: another kind of failure of the same operation is not the finding
                if impl is not None and f.get("impl_prefix") and not any(impl.startswith(x) for x in f["impl_prefix"]):
                    continue
                return f
        return None


class Result:
    def __init__(self, prop, tier, seed):
        self.prop, self.tier, self.seed = prop, tier, seed
        self.t0 = time.time()
        self.violations = []      # (kind, detail dict)
        self.known = {}           # finding id -> count
        self.notes = []
        self.coverage = {}
        self.assumptions = []

    def violation(self, what, replay_obj, found_input=True):
        os.makedirs(os.path.join(VERIF, "replays"), exist_ok=True)
        idx = len(self.violations)
        path = os.path.join(VERIF, "replays", "%s-%s-%d-%d.json" % (self.prop, self.tier, self.seed, idx))
        replay_obj = dict(replay_obj, property=self.prop, what=what, seed=self.seed, tier=self.tier)
        json.dump(replay_obj, open(path, "w"), indent=1)
        self.violations.append((what, path, found_input))

    def finish(self, level="proof"):
        ev = {
            "property_id": self.prop, "tier": self.tier, "seed": self.seed, "level": level,
            "coverage": self.coverage, "assumptions": self.assumptions,
            "wall_s": round(time.time() - self.t0, 2), "violations": len(self.violations),
            "known_findings_reproduced": self.known, "notes": self.notes,
        }
        os.makedirs(os.path.join(VERIF, "evidence"), exist_ok=True)
        json.dump(ev, open(os.path.join(VERIF, "evidence", self.prop + ".json"), "w"), indent=1)
        for fid, (cnt, what) in self.known.items():
            print("KNOWN-FINDING: property=%s %s [%s; reproduced on %d case(s) this run]" % (self.prop, what, fid, cnt))
        for n in self.notes:
            print("note:", n)
        seen = set()
        for what, path, found in self.violations[:20]:
            print("VIOLATION property=%s replay=%s%s" % (self.prop, path, "" if found else " no-failing-input-found"))
        if self.violations:
            for what, path, found in self.violations[:5]:
                print("  detail:", what[:400])
            return 1
        print("OK property=%s tier=%s seed=%d wall=%.1fs" % (self.prop, self.tier, self.seed, time.time() - self.t0))
        return 0


def is_oracle(op_line):
    return op_line.startswith("!")


def compare(res, findings, lines, impl, model, search=None):
    """Compare implementation and model outputs.
    Oracle ops ('!' prefix): impl first token ok|FAIL; model ok|FAIL:<class>.
    Other ops: exact equality, except model 'nolex'/'skip' (not compared)."""
    stats = {"compared": 0, "skipped": 0, "oracle": 0, "oracle_fail_known": 0, "disagree": 0}
    disagreements = []
    for ln, a, b in zip(lines, impl, model):
        if not ln or ln.startswith("#"):
            continue
        op = ln.split()[0].lstrip("!")
        if b in ("nolex", "skip") or a == "skipped-after-crashes":
            stats["skipped"] += 1
            continue
        if b == "unknown-op" or a == "unknown-op":
            raise BrokenTie("op not implemented on one side: %s (impl=%s model=%s)" % (ln, a, b))
        if is_oracle(ln):
            stats["oracle"] += 1
            ia = a.split()[0] if a else ""
            if ia in ("panic", "crash", "hang"):
                ia = "FAIL"
            mb, _, cls = b.partition(":")
            if ia == "ok" and mb == "ok":
                continue
            if ia == "FAIL" and mb == "FAIL":
                f = findings.match(res.prop, op, cls, a)
                if f:
                    c, _ = res.known.get(f["id"], (0, f["what"]))
                    res.known[f["id"]] = (c + 1, f["what"])
                    stats["oracle_fail_known"] += 1
                    continue
                res.violation("property oracle fails on the implementation (the model predicts the failure, class %r, "
                              "which is not a listed known finding): %s -> impl %r" % (cls, ln, a),
                              {"ops": [ln], "impl": [a], "model": [b]})
                continue
            if ia == "FAIL" and mb == "ok":
                f = findings.match_exact(res.prop, ln, a)
                if f:
                    c, _ = res.known.get(f["id"], (0, f["what"]))
                    res.known[f["id"]] = (c + 1, f["what"])
                    stats["oracle_fail_known"] += 1
                    continue
                res.violation("property oracle fails on the implementation where the proved model satisfies it: "
                              "%s -> impl %r" % (ln, a), {"ops": [ln], "impl": [a], "model": [b]})
                continue
            if ia == "ok" and mb == "FAIL":
                res.notes.append("model predicts failure (%s) but implementation passes: %s" % (cls, ln))
                continue
            raise BrokenTie("unparseable oracle output for %s: impl=%r model=%r" % (ln, a, b))
        stats["compared"] += 1
        if a != b:
            stats["disagree"] += 1
            disagreements.append((ln, a, b))
    # disagreements: search for a failing input of the property nearby
    for ln, a, b in disagreements[:50]:
        found = None
        if search:
            found = search(ln, a, b)
        if found:
            res.violation("implementation differs from the proved model (%s: impl %r, model %r) and the property "
                          "fails on the implementation at: %s" % (ln, a, b, found["ops"]),
                          dict(found, disagreement={"op": ln, "impl": a, "model": b}))
        else:
            res.violation("correspondence broken: %s -> impl %r, model %r; no input on which the property's own "
                          "oracle fails was found" % (ln, a, b),
                          {"ops": [ln], "impl": [a], "model": [b], "broken": "correspondence " + ln.split()[0]},
                          found_input=False)
    return stats


def proof_stage(res, prop, extra_targets=()):
    """lake build the property's theorems and audit them. Returns coverage dict parts."""
    ok, out = lake_build(prop_modules(prop) + ["modeldriver"] + list(extra_targets))
    if not ok:
        return False, out, []
    okA, rows, aout = audit(prop)
    if not okA:
        return False, aout, rows
    return True, out, rows


def proof_coverage(res, rows, build_out):
    bad = [r for r in rows if not r["ok"]]
    hits = source_grep()
    res.coverage.update({
        "obligations": len(rows),
        "discharged": len(rows) - len(bad),
        "checker_cmd": "cd /verif/lean && lake build LlirProofs.Props.%s && lake env lean Audit.lean" % res.prop,
        "theorems": [r["theorem"] for r in rows],
        "axioms_used": sorted({a for r in rows for a in r["axioms"]}),
        "forbidden_construct_hits": hits,
    })
    if bad or hits:
        raise BrokenTie("proof audit failed: %r %r" % (bad, hits))
