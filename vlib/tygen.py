"""Generator of compact type descriptors (shared by C16, C06, C07)."""

NAMES = [b"a", b"b", b"T", b"struct.x", b"a b", b"1", b"42", b"x*", b"i8", b"void", b"q\"q"]


def hexname(b):
    return b.hex()


def gen_ty(rng, depth=3, first_class=False, allow_named=True):
    k = rng.random()
    if depth <= 0 or k < 0.35:
        c = rng.random()
        if c < 0.5:
            return "i%d" % rng.choice([1, 8, 16, 32, 64, 128, 7, 33, 1024])
        if c < 0.75:
            return "f%d" % rng.randint(0, 5)
        if c < 0.9 and allow_named:
            return "n" + hexname(rng.choice(NAMES))
        if first_class:
            return "i32"
        return rng.choice(["v", "m", "l", "t", "M"])
    k = rng.random()
    if k < 0.3:
        return "p%d(%s)" % (rng.choice([0, 0, 0, 1, 3, 5]), gen_ty(rng, depth - 1, False, allow_named))
    if k < 0.5:
        e = gen_ty(rng, 0, True, False) if rng.random() < 0.7 else "p%d(%s)" % (rng.choice([0, 1]), gen_ty(rng, depth - 2, False, allow_named))
        return "%s%d(%s)" % (rng.choice(["V", "V", "S"]), rng.choice([1, 2, 4, 8]), e)
    if k < 0.65:
        return "a%d(%s)" % (rng.choice([0, 1, 2, 3, 16]), gen_ty(rng, depth - 1, True, allow_named))
    if k < 0.85:
        n = rng.choice([0, 1, 2, 3])
        return "%s(%s)" % (rng.choice(["s", "s", "P"]), ",".join(gen_ty(rng, depth - 1, True, allow_named) for _ in range(n)))
    n = rng.choice([0, 1, 2])
    ret = gen_ty(rng, depth - 1, True, allow_named) if rng.random() < 0.7 else "v"
    return "%s(%s;%s)" % (rng.choice(["F", "F", "G"]), ret, ",".join(gen_ty(rng, depth - 1, True, allow_named) for _ in range(n)))


def mutate_ty(rng, t):
    """a structurally close but different (usually) descriptor"""
    import re
    k = rng.random()
    if k < 0.2:
        return re.sub(r"i(\d+)", lambda m: "i%d" % (int(m.group(1)) + 1), t, count=1)
    if k < 0.35:
        return t.replace("V", "S", 1) if "V" in t else t.replace("S", "V", 1)
    if k < 0.5:
        return t.replace("s(", "P(", 1) if "s(" in t else t.replace("P(", "s(", 1)
    if k < 0.6:
        return t.replace("F(", "G(", 1) if "F(" in t else t.replace("G(", "F(", 1)
    if k < 0.75:
        return re.sub(r"p(\d+)\(", lambda m: "p%d(" % (int(m.group(1)) + 1), t, count=1)
    if k < 0.85:
        return re.sub(r"([VSa])(\d+)\(", lambda m: "%s%d(" % (m.group(1), int(m.group(2)) + 1), t, count=1)
    return gen_ty(rng)


def small_universe():
    """all types of depth <= 2 over a small palette (exhaustive in thorough)"""
    atoms = ["i1", "i32", "f1", "n61", "n62", "v"]
    lvl1 = []
    for a in atoms:
        lvl1 += ["p0(%s)" % a, "p1(%s)" % a]
        if a != "v":
            lvl1 += ["a2(%s)" % a, "s(%s)" % a, "P(%s)" % a, "s(%s,%s)" % (a, a)]
        if a in ("i1", "i32", "f1"):
            lvl1 += ["V2(%s)" % a, "S2(%s)" % a]
        lvl1 += ["F(%s;)" % a, "G(%s;)" % a]
        if a != "v":
            lvl1 += ["F(v;%s)" % a]
    lvl1 += ["s()", "P()"]
    lvl2 = []
    for t in lvl1:
        lvl2 += ["p0(%s)" % t]
        if not t.startswith(("F", "G")):
            lvl2 += ["a2(%s)" % t, "s(%s)" % t]
        if t.startswith("p"):
            lvl2 += ["V2(%s)" % t]
    return atoms + lvl1 + lvl2
