"""generator of M-Whole modules (descriptors: lean/LlirModel/Drv/WholeOps.lean): type definitions and globals (core2gen), a metadata section (metagen) and
function definitions (core3gen) in ONE module; plus text-level mutants that cross the fragments."""
import re
from . import core2gen, core3gen, metagen


def gen_whole(rng, max_funcs=3):
    while True:
        ts, gs = core2gen.gen_core2(rng)
        if ts != "-":
            # type definitions in the canonical (natural-sort) order, so that the constructed module prints as the parsed one does
            from . import modgen
            ents = {bytes.fromhex(e.split(":")[0]).decode("latin-1"): e for e in ts.split("/")}
            ts = "/".join(ents[n] for n in modgen.natsorted(list(ents)))
        gnames = set(e.split(":")[0] for e in gs.split("/")) if gs != "-" else set()
        funcs, fnames = [], set()
        for _ in range(rng.randint(0, max_funcs)):
            f = core3gen.gen_func(rng)
            if f[1] in gnames or f[1] in fnames:
                continue
            fnames.add(f[1]); funcs.append(f)
        nd, dd = metagen.gen_sec(rng, max_defs=4) if rng.random() < 0.7 else ("-", "-")
        args = [ts, gs, nd, dd, str(len(funcs))] + [x for f in funcs for x in f]
        return " ".join(args)


def mutants(rng, text):
    """single-point mutants of a printed module (bytes) that cross fragment boundaries: (kind, text)"""
    out = []
    lines = text.split(b"\n")
    gl = [k for k, l in enumerate(lines) if re.match(rb"@\S+ = (global|constant) ", l)]
    fn = [k for k, l in enumerate(lines) if l.startswith(b"define ")]
    td = [k for k, l in enumerate(lines) if re.match(rb"%\S+ = type ", l)]
    md = [k for k, l in enumerate(lines) if l.startswith(b"!")]
    def with_line(k, new):
        return b"\n".join(lines[:k] + [new] + lines[k + 1:])
    def fname(k):
        return re.search(rb"(@(?:\"[^\"]*\"|[-a-zA-Z$._0-9]+))\(", lines[k]).group(1)
    if gl and fn:
        g, f = rng.choice(gl), rng.choice(fn)
        gname = lines[g][:lines[g].index(b" = ")]
        out.append(("function-named-like-global", with_line(f, lines[f].replace(fname(f) + b"(", gname + b"(", 1))))
    if len(fn) >= 2:
        a, b = rng.sample(fn, 2)
        out.append(("two-functions-one-name", with_line(b, lines[b].replace(fname(b) + b"(", fname(a) + b"(", 1))))
    if fn:
        f = rng.choice(fn)
        # a named type nothing defines in a function header
        out.append(("undefined-type-in-function", with_line(f, lines[f].replace(b"(", b"(%undefined.t* %undefined.p, ", 1) if b"()" not in lines[f] else lines[f].replace(b"()", b"(%undefined.t* %undefined.p)", 1))))
        if td:
            t = rng.choice(td)
            tname = lines[t][:lines[t].index(b" = ")]
            out.append(("defined-type-in-function", with_line(f, lines[f].replace(b"(", b"(" + tname + b"* %defined.p, ", 1) if b"()" not in lines[f] else lines[f].replace(b"()", b"(" + tname + b"* %defined.p)", 1))))
    if td:
        t = rng.choice(td)
        out.append(("typedef-deleted", b"\n".join(lines[:t] + lines[t + 1:])))
        out.append(("typedef-doubled", b"\n".join(lines[:t + 1] + [lines[t]] + lines[t + 1:])))
        out.append(("typedef-moved-last", b"\n".join(lines[:t] + lines[t + 1:] + [lines[t], b""])))
    if gl:
        g = rng.choice(gl)
        out.append(("global-doubled", b"\n".join(lines[:g + 1] + [lines[g]] + lines[g + 1:])))
        out.append(("global-moved-last", b"\n".join(lines[:g] + lines[g + 1:] + [lines[g], b""])))
    if md and gl:
        m_, g = rng.choice(md), rng.choice(gl)
        sw = list(lines); sw[m_], sw[g] = sw[g], sw[m_]
        out.append(("metadata-and-global-swapped", b"\n".join(sw)))
    # the sections in another order
    blocks = text.split(b"\n\n")
    if len(blocks) >= 2:
        rng.shuffle(blocks)
        out.append(("sections-shuffled", b"\n\n".join(b.strip(b"\n") for b in blocks) + b"\n"))
    if fn:
        f = rng.choice(fn)
        close = next(k for k in range(f, len(lines)) if lines[k] == b"}")
        out.append(("closing-brace-deleted", b"\n".join(lines[:close] + lines[close + 1:])))
    return out


def print_lines(rng, n):
    out = []
    for _ in range(n):
        a = gen_whole(rng)
        out += ["whole.print " + a, "!whole.rt " + a]
    return out


def parse_stream(rng, driver, n):
    """the proved top-level splitter + the four fragment translations + the cross-fragment checks against the real parser, on printed modules and mutants"""
    from . import common as C
    ms = [gen_whole(rng) for _ in range(n)]
    outs = C.run_lines([driver], ["whole.print " + a for a in ms], shards=8)
    lines = []
    for o in outs:
        if not o or o in ("-", "unknown-op"):
            continue
        t = bytes.fromhex(o)
        lines.append("whole.parse " + t.hex())
        for kind, mt in mutants(rng, t):
            lines.append("whole.parse " + (mt.hex() or "-"))
    return lines
