"""generator of M-Whole modules (descriptors: lean/LlirModel/Drv/WholeOps.lean): type definitions and globals (core2gen), a metadata section (metagen) and
function definitions (core3gen) in ONE module; plus text-level mutants that cross the fragments."""
import re
from . import core2gen, core3gen, metagen


def global_ty(tv):
    """the type descriptor of `<ty>=<const>` (the constant descriptor has no `=` outside parentheses at depth 0 before its own start)"""
    depth = 0
    for k, ch in enumerate(tv):
        depth += ch == "("; depth -= ch == ")"
        if ch == "=" and depth == 0:
            return tv[:k]
    return tv


# linkage 0-8, preemption 9-10, visibility 11-13, DLL storage class 14-15, thread-local model 16-19, unnamed_addr 20-21, externally_initialized 22
GLEAD_FAMILIES = [range(0, 9), range(9, 11), range(11, 14), range(14, 16), range(16, 20), range(20, 22), range(22, 23)]


def gen_whole(rng, max_funcs=3):
    while True:
        ts, gs = core2gen.gen_core2(rng)
        if ts != "-":
            # type definitions in the canonical (natural-sort) order, so that the constructed module prints as the parsed one does
            from . import modgen
            ents = {bytes.fromhex(e.split(":")[0]).decode("latin-1"): e for e in ts.split("/")}
            ts = "/".join(ents[n] for n in modgen.natsorted(list(ents)))
        gnames = set(e.split(":")[0] for e in gs.split("/")) if gs != "-" else set()
        # a few global variables of the types function bodies use, so that `@name` operands occur
        extra = []
        for _ in range(rng.randint(0, 3)):
            n = core3gen.safe_name(rng).hex()
            if n in gnames:
                continue
            gnames.add(n)
            t = rng.choice(["i32", "i8", "i64", "p0(i8)", "V4(i32)", "s(i32,i8)", "a4(i8)"])
            extra.append((n, t))
        if extra:
            gs = "/".join(([gs] if gs != "-" else []) + ["%s:%s:%s=%s" % (n, rng.choice(["g", "c"]), t, "z" if not t.startswith("i") else "i%d" % rng.randint(0, 100)) for n, t in extra])
        # the optional keywords of global variables (positions in the model's list `Whole.kGLead`): at most one of each family, in the order of the grammar
        if gs != "-":
            ents = []
            for e in gs.split("/"):
                f = e.split(":", 2)
                if rng.random() < 0.5:
                    lead = [rng.choice(list(fam)) for fam in GLEAD_FAMILIES if rng.random() < 0.35]
                    if lead:
                        f[1] += "~" + ",".join(map(str, lead))
                # the clauses behind the initializer: section, partition, align (in the order of the grammar)
                if rng.random() < 0.4:
                    cl = []
                    if rng.random() < 0.5:
                        cl.append("s" + rng.choice([b".data", b"a b", b'q"uote', b"\\", b"\x01\xff", b"__DATA,__data"]).hex())
                    if rng.random() < 0.25:
                        cl.append("p" + rng.choice([b"part1", b"p q"]).hex())
                    if rng.random() < 0.6:
                        cl.append("l%d" % rng.choice([1, 2, 4, 8, 16, 4096, 7, 2**63, 2**64 - 1]))
                    if cl:
                        f[1] += ("~" if "~" not in f[1] else "") + "~" + ";".join(cl)
                ents.append(":".join(f))
            gs = "/".join(ents)
        sigs, fnames = [], set()
        for _ in range(rng.randint(0, max_funcs)):
            sg = core3gen.gen_sig(rng)
            if sg[0].hex() in gnames or sg[0].hex() in fnames:
                continue
            fnames.add(sg[0].hex()); sigs.append(sg)
        genv = [(n, "p0(%s)" % t) for n, t in extra] + [(sg[0].hex(), core3gen.sig_ref_ty(sg)) for sg in sigs]
        if gs != "-":
            for e in gs.split("/"):
                f = e.split(":", 2)
                if not any(f[0] == n for n, _ in genv):
                    genv.append((f[0], "p0(%s)" % f[2].rsplit("=", 1)[0] if False else "p0(%s)" % global_ty(f[2])))
        # some of the functions are DECLARATIONS (no blocks: `declare T @f(params)`, the parameters numbered like those of a definition)
        funcs = []
        for sg in sigs:
            if rng.random() < 0.3:
                funcs.append(core3gen.gen_decl(sg))
            else:
                funcs.append(core3gen.gen_func(rng, sig=sg, genv=genv))
        nd, dd = metagen.gen_sec(rng, max_defs=4) if rng.random() < 0.7 else ("-", "-")
        # keywords in the function headers (declarations and definitions alike)
        # (an address space only on functions nothing refers to: a reference spells the pointer type of the function, address space included)
        alltext = " ".join(x for f in funcs for x in f)
        funcs = [core3gen.with_pattrs(rng, core3gen.with_tail(rng, core3gen.with_lead(rng, f), addrspace_ok=("@" + f[1].split("~")[0]) not in alltext)) for f in funcs]
        # variadic functions (`...` behind the last parameter): only functions nothing refers to
        funcs = [core3gen.with_variadic(rng, f) if ("@" + f[1].split("~")[0]) not in alltext else f for f in funcs]
        # metadata attachments on instructions, referring to definitions of the metadata section (which is printed AFTER the functions)
        if dd != "-" and rng.random() < 0.7:
            ids = [int(e.split(":")[0]) for e in dd.split("|")]
            funcs = [core3gen.attach(rng, f, ids) for f in funcs]
        args = [ts, gs, nd, dd, str(len(funcs))] + [x for f in funcs for x in f]
        return " ".join(args)


def mutants(rng, text):
    """single-point mutants of a printed module (bytes) that cross fragment boundaries: (kind, text)"""
    out = []
    lines = text.split(b"\n")
    gl = [k for k, l in enumerate(lines) if re.match(rb'@(?:"[^"]*"|\S+) = (?:[a-z_()]+ )*(global|constant) ', l)]
    fn = [k for k, l in enumerate(lines) if l.startswith(b"define ")]
    dc = [k for k, l in enumerate(lines) if l.startswith(b"declare ")]
    td = [k for k, l in enumerate(lines) if re.match(rb"%\S+ = type ", l)]
    md = [k for k, l in enumerate(lines) if l.startswith(b"!")]
    def with_line(k, new):
        return b"\n".join(lines[:k] + [new] + lines[k + 1:])
    def fname(k):
        return re.search(rb"(@(?:\"[^\"]*\"|[-a-zA-Z$._0-9]+))\(", lines[k]).group(1)
    if gl and fn:
        g, f = rng.choice(gl), rng.choice(fn)
        gname = lines[g][:lines[g].index(b" = ")]
        out.append(("function-named-like-global", with_line(f, lines[f].replace(fname(f) + b"(", gname + b"(", 1))))
    if dc:
        d = rng.choice(dc)
        # a declaration and a definition (or two declarations) of one name; a declaration with a body; a definition without one
        out.append(("declaration-doubled", b"\n".join(lines[:d + 1] + [b"", lines[d]] + lines[d + 1:])))
        out.append(("declaration-with-body", with_line(d, lines[d] + b" {\n\tunreachable\n}")))
        if fn:
            f = rng.choice(fn)
            out.append(("declaration-named-like-definition", with_line(d, lines[d].replace(fname(d) + b"(", fname(f) + b"(", 1))))
    if len(fn) >= 2:
        a, b = rng.sample(fn, 2)
        out.append(("two-functions-one-name", with_line(b, lines[b].replace(fname(b) + b"(", fname(a) + b"(", 1))))
    if fn:
        f = rng.choice(fn)
        # a named type nothing defines in a function header (a new first parameter)
        def add_param(line, fn_name, ptxt):
            k = line.index(fn_name + b"(") + len(fn_name) + 1
            return line[:k] + ptxt + (b"" if line[k:k + 1] == b")" else b", ") + line[k:]
        out.append(("undefined-type-in-function", with_line(f, add_param(lines[f], fname(f), b"%undefined.t* %undefined.p"))))
        if td:
            t = rng.choice(td)
            tname = lines[t][:lines[t].index(b" = ")]
            out.append(("defined-type-in-function", with_line(f, add_param(lines[f], fname(f), tname + b"* %defined.p"))))
    if td:
        t = rng.choice(td)
        out.append(("typedef-deleted", b"\n".join(lines[:t] + lines[t + 1:])))
        out.append(("typedef-doubled", b"\n".join(lines[:t + 1] + [lines[t]] + lines[t + 1:])))
        out.append(("typedef-moved-last", b"\n".join(lines[:t] + lines[t + 1:] + [lines[t], b""])))
    if gl:
        g = rng.choice(gl)
        out.append(("global-doubled", b"\n".join(lines[:g + 1] + [lines[g]] + lines[g + 1:])))
        out.append(("global-moved-last", b"\n".join(lines[:g] + lines[g + 1:] + [lines[g], b""])))
    if md and gl:
        m_, g = rng.choice(md), rng.choice(gl)
        sw = list(lines); sw[m_], sw[g] = sw[g], sw[m_]
        out.append(("metadata-and-global-swapped", b"\n".join(sw)))
    # the sections in another order
    blocks = text.split(b"\n\n")
    if len(blocks) >= 2:
        rng.shuffle(blocks)
        out.append(("sections-shuffled", b"\n\n".join(b.strip(b"\n") for b in blocks) + b"\n"))
    if fn:
        f = rng.choice(fn)
        close = next(k for k in range(f, len(lines)) if lines[k] == b"}")
        out.append(("closing-brace-deleted", b"\n".join(lines[:close] + lines[close + 1:])))
    # `@name` operands of function bodies: the global environment of M-Core-3 inside M-Whole
    body = [k for k, l in enumerate(lines) if l.startswith(b"\t")]
    guses = [(k, m) for k in body for m in re.finditer(rb'@(?:"[^"]*"|[-a-zA-Z$._0-9]+)', lines[k])]
    if guses:
        k, m = rng.choice(guses)
        out.append(("global-use-undefined", with_line(k, lines[k][:m.start()] + b"@undefined.g" + lines[k][m.end():])))
        k, m = rng.choice(guses)
        # the definition of a used global variable / function deleted
        gd = [j for j in gl if lines[j].startswith(m.group(0) + b" = ")]
        fd = [j for j in fn if fname(j) == m.group(0)]
        dd = [j for j in dc if fname(j) == m.group(0)]
        if dd:
            out.append(("used-declaration-deleted", b"\n".join(lines[:dd[0]] + lines[dd[0] + 1:])))
        if gd:
            out.append(("used-global-deleted", b"\n".join(lines[:gd[0]] + lines[gd[0] + 1:])))
        if fd:
            close = next(j for j in range(fd[0], len(lines)) if lines[j] == b"}")
            out.append(("used-function-deleted", b"\n".join(lines[:fd[0]] + lines[close + 1:])))
        others = [lines[j][:lines[j].index(b" = ")] for j in gl] + [fname(j) for j in fn + dc]
        others = [o for o in others if o != m.group(0)]
        if others:
            out.append(("global-use-renamed", with_line(k, lines[k][:m.start()] + rng.choice(others) + lines[k][m.end():])))
        typed = [(k, m) for k in body for m in re.finditer(rb"\b(i32|i8|i64)\* @", lines[k])]
        if typed:
            k, m = rng.choice(typed)
            out.append(("global-use-retyped", with_line(k, lines[k][:m.start()] + b"i16* @" + lines[k][m.end():])))
        # a local of the same spelling is not the global
        k, m = rng.choice(guses)
        out.append(("global-use-as-local", with_line(k, lines[k][:m.start()] + b"%" + m.group(0)[1:] + lines[k][m.end():])))
    # keywords of function headers: one of each family, in the order of the grammar
    KW = rb"(?:appending|available_externally|common|internal|linkonce_odr|linkonce|private|weak_odr|weak|external|extern_weak|dso_local|dso_preemptable|default|hidden|protected|dllexport|dllimport|[a-z0-9_]*cc|ptx_kernel|ptx_device|spir_func|spir_kernel|amdgpu_[a-z]+|aarch64_[a-z_]+|inreg|noalias|nonnull|noundef|signext|zeroext)"
    heads = [(k, m) for k in fn + dc for m in [re.match(rb"(define|declare) ((?:" + KW + rb" )+)", lines[k])] if m]
    if heads:
        k, m = rng.choice(heads)
        kws = m.group(2).split()
        pre, post = lines[k][:m.start(2)], lines[k][m.end(2):]
        out.append(("header-keyword-doubled", with_line(k, pre + b" ".join(kws + [kws[-1]]) + b" " + post)))
        if len(kws) >= 2:
            sw = list(kws); i = rng.randrange(len(sw) - 1); sw[i], sw[i + 1] = sw[i + 1], sw[i]
            out.append(("header-keywords-swapped", with_line(k, pre + b" ".join(sw) + b" " + post)))
        out.append(("header-keyword-misspelt", with_line(k, pre + b" ".join(kws[:-1] + [kws[-1] + b"x"]) + b" " + post)))
        out.append(("header-keyword-dropped", with_line(k, pre + b" ".join(kws[1:]) + (b" " if kws[1:] else b"") + post)))
        other = rng.choice([b"internal", b"hidden", b"dso_local", b"fastcc", b"dllimport", b"weak_odr", b"protected", b"coldcc"])
        out.append(("header-keyword-added-first", with_line(k, pre + b" ".join([other] + kws) + b" " + post)))
        out.append(("header-keyword-added-last", with_line(k, pre + b" ".join(kws + [other]) + b" " + post)))
    plain = [k for k in fn + dc if not re.match(rb"(define|declare) (?:" + KW + rb" )", lines[k])]
    if plain:
        k = rng.choice(plain)
        m = re.match(rb"(define|declare) ", lines[k])
        for kw in rng.sample([b"internal", b"hidden", b"dso_local", b"fastcc", b"dllimport", b"extern_weak", b"amdgpu_kernel", b"linkonce_odr"], 2):
            out.append(("header-keyword-added", with_line(k, lines[k][:m.end()] + kw + b" " + lines[k][m.end():])))
    # the marker of a variadic function: `...` behind the last parameter
    vlists = [(k, m) for k in fn + dc for m in [re.match(rb"(?:define|declare) [^()]*\(([^()]*)\)", lines[k])] if m]
    if vlists:
        k, m = rng.choice(vlists)
        inner = m.group(1)
        a, b = m.start(1), m.end(1)
        if inner.endswith(b"..."):
            out.append(("variadic-dropped", with_line(k, lines[k][:a] + inner[:-3].rstrip(b", ") + lines[k][b:])))
            out.append(("variadic-doubled", with_line(k, lines[k][:b] + b", ..." + lines[k][b:])))
            out.append(("variadic-not-last", with_line(k, lines[k][:a] + b"..., " + inner[:-3].rstrip(b", ") + lines[k][b:]) if inner != b"..." else text))
        else:
            out.append(("variadic-added", with_line(k, lines[k][:b] + (b", ..." if inner else b"...") + lines[k][b:])))
            # (`..` is no test: the lexer of llir/ll drops what it cannot tokenise)
    # keywords of global variables: one of each family (linkage, preemption, visibility, DLL storage class, thread-local model, unnamed_addr,
    # externally_initialized), in the order of the grammar
    GKW = rb"(?:appending|available_externally|common|internal|linkonce_odr|linkonce|private|weak_odr|weak|dso_local|dso_preemptable|default|hidden|protected|dllexport|dllimport|thread_local(?:\([a-z]+\))?|local_unnamed_addr|unnamed_addr|externally_initialized)"
    gheads = [(k, m) for k in gl for m in [re.match(rb'(@(?:"[^"]*"|[-a-zA-Z$._0-9]+) = )((?:' + GKW + rb" )*)(global|constant) ", lines[k])] if m]
    if gheads:
        k, m = rng.choice(gheads)
        kws = m.group(2).split()
        pre, post = lines[k][:m.start(2)], lines[k][m.end(2):]
        other = rng.choice([b"internal", b"hidden", b"dso_local", b"dllimport", b"thread_local", b"thread_local(localexec)", b"unnamed_addr", b"externally_initialized", b"weak_odr", b"external", b"extern_weak"])
        out.append(("global-keyword-added-first", with_line(k, pre + b"".join(x + b" " for x in [other] + kws) + post)))
        out.append(("global-keyword-added-last", with_line(k, pre + b"".join(x + b" " for x in kws + [other]) + post)))
        if kws:
            out.append(("global-keyword-doubled", with_line(k, pre + b"".join(x + b" " for x in kws + [kws[-1]]) + post)))
            out.append(("global-keyword-dropped", with_line(k, pre + b"".join(x + b" " for x in kws[1:]) + post)))
            out.append(("global-keyword-after-kind", with_line(k, pre + b"".join(x + b" " for x in kws[:-1]) + post.replace(b" ", b" " + kws[-1] + b" ", 1))))
        if len(kws) >= 2:
            sw = list(kws); i = rng.randrange(len(sw) - 1); sw[i], sw[i + 1] = sw[i + 1], sw[i]
            out.append(("global-keywords-swapped", with_line(k, pre + b"".join(x + b" " for x in sw) + post)))
    # the clauses behind the initializer of a global variable: `, section "s"`, `, partition "p"`, `, align N` — each at most once, in this order, to the end of the line
    if gl:
        k = rng.choice(gl)
        m0 = re.search(rb'((?:, (?:section|partition) "[^"]*")*(?:, align \d+)?)$', lines[k])
        base = lines[k][:m0.start(1)] if m0 else lines[k]
        cl = re.findall(rb', (?:section|partition) "[^"]*"|, align \d+', m0.group(1)) if m0 else []
        extra = rng.choice([b', align 16', b', section "other"', b', partition "q"', b', align 0', b', section ""', b', align 18446744073709551616', b', align', b', section 7', b', comdat'])
        out.append(("global-clause-appended", with_line(k, lines[k] + extra)))
        out.append(("global-clause-first", with_line(k, base + extra + b"".join(cl))))
        if cl:
            i = rng.randrange(len(cl))
            out.append(("global-clause-doubled", with_line(k, base + b"".join(cl[:i + 1] + [cl[i]] + cl[i + 1:]))))
            out.append(("global-clause-dropped", with_line(k, base + b"".join(cl[:i] + cl[i + 1:]))))
            out.append(("global-clauses-reversed", with_line(k, base + b"".join(cl[::-1]))))
            out.append(("global-clause-comma-dropped", with_line(k, base + b"".join(cl).replace(b", ", b" ", 1))))
    # parameter attributes (`T noundef signext %x`): a list per parameter, between the type and the name
    plists = [(k, m) for k in fn + dc for m in [re.match(rb"(?:define|declare) [^()]*\(([^()]+)\)", lines[k])] if m]
    if plists:
        k, m = rng.choice(plists)
        names = [n for n in re.finditer(rb' (%(?:"[^"]*"|[-a-zA-Z$._0-9]+))(?=, |$)', m.group(1))]
        if names:
            n = rng.choice(names)
            at = m.start(1) + n.start(1)
            kw = rng.choice([b"noundef", b"inreg", b"signext", b"zeroext", b"nocapture", b"readonly", b"returned", b"swiftself"])
            out.append(("param-attr-added", with_line(k, lines[k][:at] + kw + b" " + lines[k][at:])))
            out.append(("param-attr-two-added", with_line(k, lines[k][:at] + kw + b" " + kw + b" noalias " + lines[k][at:])))
            end = m.start(1) + n.end(1)
            out.append(("param-attr-after-name", with_line(k, lines[k][:end] + b" " + kw + lines[k][end:])))
            out.append(("param-attr-header-keyword", with_line(k, lines[k][:at] + b"dso_local " + lines[k][at:])))
        attrs = [a for a in re.finditer(rb" (immarg|inreg|nest|noalias|nocapture|nofree|nonnull|noundef|readnone|readonly|returned|signext|swiftasync|swifterror|swiftself|writeonly|zeroext)(?= )", m.group(1))]
        if attrs:
            a = rng.choice(attrs)
            s0, e0 = m.start(1) + a.start(), m.start(1) + a.end()
            out.append(("param-attr-doubled", with_line(k, lines[k][:e0] + lines[k][s0:e0] + lines[k][e0:])))
            out.append(("param-attr-dropped", with_line(k, lines[k][:s0] + lines[k][e0:])))
    # the clauses behind the parameter list: `unnamed_addr` and `addrspace(N)` come first, in this order and once; the others in any order, a repeated `section` /
    # `partition` / `align` / `gc` overwrites the earlier one, attribute keywords accumulate; what is printed is the canonical order
    tails = [(k, m) for k in fn + dc for m in [re.search(rb"\) ((?:(?:[a-z_]+|addrspace\(\d+\)|(?:section|partition|gc) \"[^\"]*\"|align \d+) )*)\{$", lines[k] + (b" {" if k in dc else b""))] if m]
    for k, m in rng.sample(tails, min(2, len(tails))):
        line = lines[k] + (b" {" if k in dc else b"")
        cl = re.findall(rb"(?:section|partition|gc) \"[^\"]*\"|align \d+|addrspace\(\d+\)|[a-z_]+", m.group(1))
        head = line[:m.start(1)]
        def put(kind, parts):
            t = head + b"".join(c + b" " for c in parts) + b"{"
            out.append((kind, with_line(k, t[:-2] if k in dc else t)))
        extra = [b"nounwind", b"cold", b'section "other"', b"align 16", b'gc "z"', b'partition "q"', b"unnamed_addr", b"local_unnamed_addr", b"addrspace(2)", b"align 0", b'section ""', b"addrspace(0)",
                 b"align 18446744073709551616", b"nounwindx", b"align", b"section 7"]
        # (an unknown alphabetic WORD — `nosuchattr` — is no test: the lexer of llir/ll drops what it cannot tokenise and the parser goes on, anywhere in a module;
        # `ret void blah` is accepted. The readers of the model reject such text; see DESIGN §G)
        put("clause-appended", cl + [rng.choice(extra)])
        put("clause-prepended", [rng.choice(extra)] + cl)
        if cl:
            i = rng.randrange(len(cl))
            put("clause-doubled", cl[:i + 1] + [cl[i]] + cl[i + 1:])
            put("clause-dropped", cl[:i] + cl[i + 1:])
            sh = list(cl); rng.shuffle(sh)
            put("clauses-shuffled", sh)
            put("clauses-reversed", cl[::-1])
    # metadata attachments of instructions: the IDs they name are definitions of the metadata section
    atts = [(k, m) for k in body for m in re.finditer(rb', !(?:[-a-zA-Z$._0-9\\]+) !(\d+)', lines[k]) if lines[k][:m.start()].count(b'"') % 2 == 0]
    if atts:
        k, m = rng.choice(atts)
        out.append(("attachment-undefined-id", with_line(k, lines[k][:m.start(1)] + b"987654" + lines[k][m.end(1):])))
        k, m = rng.choice(atts)
        dfn = [j for j in md if lines[j].startswith(b"!" + m.group(1) + b" = ")]
        if dfn:
            out.append(("attached-definition-deleted", b"\n".join(lines[:dfn[0]] + lines[dfn[0] + 1:])))
        k, m = rng.choice(atts)
        out.append(("attachment-without-bang", with_line(k, lines[k][:m.start(1) - 1] + lines[k][m.start(1):])))
        k, m = rng.choice(atts)
        out.append(("attachment-doubled", with_line(k, lines[k] + lines[k][m.start():m.end()])))
        k, m = rng.choice(atts)
        out.append(("attachment-without-comma", with_line(k, lines[k][:m.start()] + lines[k][m.start() + 1:])))
        k, m = rng.choice(atts)
        other = [j for j in body if j != k and not lines[j].startswith(b"\t\t")]
        if other:
            j = rng.choice(other)
            out.append(("attachment-moved", b"\n".join(with_line(k, lines[k][:m.start()] + lines[k][m.end():]).split(b"\n")[:j] + [lines[j] + lines[k][m.start():m.end()]] + with_line(k, lines[k][:m.start()] + lines[k][m.end():]).split(b"\n")[j + 1:])))
    elif md and body:
        # an attachment where the module has none (a defined ID; an undefined one)
        j = rng.choice([j for j in body if not lines[j].startswith(b"\t\t")] or body)
        ids = [re.match(rb"!(\d+) = ", lines[q]) for q in md]
        ids = [x.group(1) for x in ids if x]
        if ids:
            out.append(("attachment-added", with_line(j, lines[j] + b", !dbg !" + rng.choice(ids))))
        out.append(("attachment-added-undefined", with_line(j, lines[j] + b", !dbg !424242")))
    return out


def print_lines(rng, n):
    out = []
    for _ in range(n):
        a = gen_whole(rng)
        out += ["whole.print " + a, "!whole.rt " + a]
    return out


def parse_stream(rng, driver, n):
    """the proved top-level splitter + the four fragment translations + the cross-fragment checks against the real parser, on printed modules and mutants"""
    from . import common as C
    ms = [gen_whole(rng) for _ in range(n)]
    outs = C.run_lines([driver], ["whole.print " + a for a in ms], shards=8)
    lines = []
    for o in outs:
        if not o or o in ("-", "unknown-op"):
            continue
        t = bytes.fromhex(o)
        lines.append("whole.parse " + t.hex())
        for kind, mt in mutants(rng, t):
            lines.append("whole.parse " + (mt.hex() or "-"))
    return lines
