"""Systematic single-point naming faults on REAL texts (the catalogue of one-construct modules and the corpus): every textual USE of a metadata ID, a global,
a local / label / type name or a comdat is redirected, one site at a time, to a name nothing defines. Each construct has its own translation function in package
asm (about 300 of them); an `irXxx` that forgets to look one operand up, or that drops the error of one lookup, accepts exactly one of these texts.

No model is involved (the skeleton argument is `-`): the oracle is the property itself — the faulted text must be an error, never a module and never a panic."""
import re

STR = re.compile(r'c?"(?:[^"\\]|\\.)*"')


def mask_strings(line):
    """quoted strings blanked out (same length), so that `%x` or `!1` inside a string constant or an identifier in quotes is not taken for a use"""
    return STR.sub(lambda m: "\x00" * len(m.group(0)), line)


def sites(text):
    """-> list of (kind, line index, start, end, replacement)"""
    lines = text.split("\n")
    tnames = set(re.findall(r"(?m)^%([-\w.$]+) = type", text))
    out = []
    for i, raw in enumerate(lines):
        l = mask_strings(raw)
        if l.lstrip().startswith(";"):
            continue
        # metadata IDs: every `!N` that is not the definition at the start of the line
        for m in re.finditer(r"!(\d+)", l):
            if m.start() == 0 and re.match(r"!\d+ = ", l):
                continue
            out.append(("metadata", i, m.start(), m.end(), "!987654"))
        # globals: every `@name` / `@N` that is not the name being defined
        hdr = re.match(r"(define|declare)\b", l)
        first_at = l.find("@")
        for m in re.finditer(r"@([-\w.$]+)", l):
            if m.start() == 0 and re.match(r"@[-\w.$]+ = ", l):
                continue
            if hdr and m.start() == first_at:
                continue
            out.append(("global", i, m.start(), m.end(), "@undefined.g"))
        # comdats: uses only (`comdat($c)`, `comdat $c`)
        for m in re.finditer(r"comdat\s*\(?\s*(\$[-\w.$]+)", l):
            out.append(("comdat", i, m.start(1), m.end(1), "$undefined.c"))
        # locals, labels and types
        for m in re.finditer(r"%([-\w.$]+)", l):
            name = m.group(1)
            if m.start() == 0 and re.match(r"%[-\w.$]+ = type", l):
                continue                                            # type definition
            if re.match(r"\s*%[-\w.$]+ = ", l) and m.start() == len(l) - len(l.lstrip()):
                continue                                            # result of an instruction
            if hdr and name not in tnames:
                continue                                            # parameter definitions of a header
            out.append(("type" if name in tnames else "local", i, m.start(), m.end(), "%undefined.t" if name in tnames else "%undefined.x"))
    return out


def cases(texts, rng, per_text=None):
    """texts: iterable of (name, text); yields (kind, name, faulted text). per_text: cap on the number of sites taken from one text (random sample)"""
    for name, text in texts:
        ss = sites(text)
        if per_text is not None and len(ss) > per_text:
            ss = rng.sample(ss, per_text)
        lines = text.split("\n")
        for kind, i, a, b, rep in ss:
            nl = lines[i][:a] + rep + lines[i][b:]
            yield kind, name, "\n".join(lines[:i] + [nl] + lines[i + 1:])
