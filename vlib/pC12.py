"""C12 — translation is deterministic."""
import glob, os, subprocess
from . import common as C
from . import modgen, modprops, catalog, regen
from .modprops import hx

TRUSTED = ["Lean 4.33 kernel; axioms: propext, Quot.sound at most (see coverage.axioms_used)"] + modprops.MODEL_TRUST + [
    "map-iteration order is quantified in the model (the `order` argument); on the implementation it is only SAMPLED (Go randomises every range over a map), by repeated parses",
    "goroutine interleavings of unrelated parses are not modelled: covered by the absence of package-level mutable state (not yet extracted as a fact) and by race-detector runs",
]
ASSUMPTIONS = ["Go's runtime map-iteration randomisation exercises different visiting orders across the repeated parses"]
RULE = ("each generated module (valid and faulted) and each corpus module is parsed 12 times through all four entry points (ParseString, ParseBytes, Parse(io.Reader), ParseFile); "
        "acceptance, printed text (hash) and definition lists must be identical every time and equal to the model's prediction; thorough adds concurrent parses of "
        "unrelated inputs under the race detector; non-trivial = distinct module text")


# type ALIASES (a definition whose body is another named type): their translation walks several maps; whatever it produces
# (see the recorded C02 finding) must be the same on every parse
ALIAS_TEXTS = [
    "%a = type %b\n%b = type { i32 }\n\n@g = global %a zeroinitializer\n@h = global %b zeroinitializer\n",
    "%b = type { i32, %a* }\n%a = type %b\n%c = type %a\n\n@g = global %c* null\n",
    "%z = type %y\n%y = type %x\n%x = type opaque\n\n@g = global %z* null\n@h = global %x* null\n",
    "%t1 = type %t10\n%t10 = type { i8, %t2 }\n%t2 = type %t3\n%t3 = type { i16 }\n\ndefine void @f(%t1 %a, %t2 %b) {\n\tret void\n}\n",
]


# attribute groups that share attributes, some spelled non-canonically (`alignstack=8`, escaped strings): merged and translated
# group by group in map order
ATTR_TEXTS = [
    'declare void @f() #0\n\ndeclare void @g() #1\n\nattributes #0 = { nounwind alignstack=8 "\\61" }\nattributes #1 = { alignstack=8 readnone "a" }\n',
    'declare void @f() #0\n\ndeclare void @g() #1\n\ndeclare void @h() #2\n\nattributes #0 = { "k"="v" nounwind }\nattributes #1 = { "\\6B"="v" readnone }\nattributes #2 = { "k"="\\76" }\n',
    'declare void @f() #3\n\ndeclare void @g() #7\n\nattributes #3 = { align=8 "x" }\nattributes #7 = { "\\78" align=8 }\nattributes #3 = { "x" noinline }\n',
    # one attribute group ID defined three times: the later definitions add SEVERAL attributes the first one lacks (merged in textual order; a merge that
    # goes through a map prints them in a different order from parse to parse)
    'declare void @f() #0\n\nattributes #0 = { nounwind }\nattributes #0 = { readnone noinline "k"="v" cold }\nattributes #0 = { "z" nounwind uwtable "a"="b" norecurse }\n',
    'declare void @f() #1\n\ndeclare void @g() #2\n\nattributes #1 = { "a" }\nattributes #2 = { cold }\nattributes #1 = { "b" "c" "d" "e" "f" "g" "h" }\nattributes #2 = { noinline nounwind readnone uwtable norecurse }\n',
]


# ONE faulty definition among several good ones of the same kind: each kind is translated in a loop over a Go map, so an error that is kept in a variable and
# overwritten (or a loop that goes on after the failure) makes the outcome depend on the iteration order; the text must be rejected on every parse
def one_bad_among_many():
    out = []
    good_md = "".join("!%s = !{!0}\n" % n for n in ("a", "b", "d", "e", "f"))
    out.append(good_md + "!c = !{!0, !99}\n!0 = !{}\n")                                                      # named metadata -> undefined ID
    out.append("".join("!%d = !{!0}\n" % i for i in range(1, 6)) + "!6 = !{!99}\n!0 = !{}\n")               # metadata definition -> undefined ID
    out.append("".join("@g%d = global i32 %d\n" % (i, i) for i in range(5)) + "@p = global i32* @undefined.g\n")   # global initialiser -> undefined global
    out.append("".join("%%t%d = type { i%d }\n" % (i, 8 * (i + 1)) for i in range(5)) + "%bad = type { %undefined.t* }\n\n@g = global %t0 zeroinitializer\n")
    out.append("".join("$c%d = comdat any\n" % i for i in range(4)) + "\n" + "".join("@g%d = global i32 0, comdat($c%d)\n" % (i, i) for i in range(4)) + "@bad = global i32 0, comdat($undefined.c)\n")
    out.append("@g = global i32 0\n\n" + "".join("@a%d = alias i32, i32* @g\n" % i for i in range(5)) + "@bad = alias i32, i32* @undefined.g\n")
    out.append("".join("define void @f%d() {\n\tret void\n}\n\n" % i for i in range(5)) + "define void @bad() {\n\tcall void @undefined.g()\n\tret void\n}\n")
    out.append("".join("define void @f%d() {\n\tret void\n}\n\n" % i for i in range(5)) + "define i32 @bad() {\n\tret i32 %undefined.x\n}\n")
    out.append("".join("declare void @f%d() #%d\n\n" % (i, i) for i in range(5)) + "".join("attributes #%d = { nounwind }\n" % i for i in range(5)) + "\n!llvm.x = !{!99}\n")
    out.append("".join("!%d = !DIFile(filename: \"f%d\", directory: \"d\")\n" % (i, i) for i in range(5)) + "!5 = !DIBasicType(name: \"t\", size: 8, encoding: DW_ATE_signed, flags: DIFlagZero, file: !99)\n")
    return out


def gen(tier, rng, harness=None):
    n = 60 if tier == "quick" else 2500
    lines = []
    for t in one_bad_among_many():
        lines.append("!mod.det - %s" % hx(t))
        lines.append("!mod.mustfail - %s" % hx(t))
    for t in modprops.corpus_texts() + ALIAS_TEXTS + ATTR_TEXTS + [t for _, t, _ in catalog.REPEATS]:
        lines.append("!mod.det - %s" % hx(t))
    # every specialised metadata node with reference-valued fields (also references to NON-EMPTY tuples defined later): the definitions are translated in
    # map order, so a node that looks at the CONTENT of a referenced node while it may still be a skeleton gives a result that depends on that order
    for _, t, _ in catalog.DI + catalog.DI_REFS:
        lines.append("!mod.det - %s" % hx(t))
    # the corner cases collected from the seed rounds (names that concatenate alike, long runs of unnamed entities, numbered types among names ...)
    for _, t, _ in catalog.round13_entries()[-6:] + catalog.round14_entries() + catalog.order_entries():
        lines.append("!mod.det - %s" % hx(t))
    # earlier parse/print activity must not matter: every module against polluters drawn from the catalogue (incl. named non-struct types),
    # the corpus and other generated modules
    cat = [t for _, t, _ in catalog.STRUCTURED + catalog.NAMED_NONSTRUCT + catalog.inst_entries() + catalog.DI]
    texts = modprops.corpus_texts() + [text for _, text, _ in modprops.gen_modules(rng, 20)] + cat
    plain = ["define i1 @t() {\n\tret i1 true\n}\n", "@b = global i1 false\n@n = global i8* null\n"]
    for pol in catalog.NAMED_NONSTRUCT:
        for a in plain + rng.sample(texts, 3):
            lines.append("!mod.pollute %s %s" % (hx(a), hx(pol[1])))
            lines.append("!mod.pollute %s %s" % (hx(pol[1]), hx(a)))
    # constants an implementation is tempted to SHARE between parses (NaNs of either sign, zeros, infinities, booleans, null, undef, empty aggregates), every kind
    # against its twin of the other sign / another type, in both orders
    shared = []
    for ty, pos, neg in (("half", "0xH7E00", "0xHFE00"), ("float", "0x7FF8000000000000", "0xFFF8000000000000"), ("double", "0x7FF8000000000000", "0xFFF8000000000000"),
                         ("x86_fp80", "0xK7FFFC000000000000000", "0xKFFFFC000000000000000"), ("fp128", "0xL00000000000000007FFF800000000000", "0xL0000000000000000FFFF800000000000"),
                         ("double", "0.0", "-0.0"), ("float", "0x7FF0000000000000", "0xFFF0000000000000"), ("half", "0xH0000", "0xH8000")):
        shared.append(("@p = global %s %s\n" % (ty, pos), "@n = global %s %s\n" % (ty, neg)))
    shared += [("@a = global i1 true\n", "@b = global i1 false\n"), ("@a = global i8* null\n", "@b = global i32* null\n"), ("@a = global {} zeroinitializer\n", "@b = global {} undef\n"),
               ("@a = global i32 undef\n", "@b = global i64 undef\n"), ("@a = global i32 poison\n", "@b = global i8 poison\n"), ("!0 = !{null}\n", "!0 = !{!{}}\n")]
    for a, b in shared:
        lines.append("!mod.pollute %s %s" % (hx(a), hx(b)))
        lines.append("!mod.pollute %s %s" % (hx(b), hx(a)))
    for _ in range(100 if tier == "quick" else 5000):
        lines.append("!mod.pollute %s %s" % (hx(rng.choice(texts)), hx(rng.choice(texts))))
    for m, text, sk in modprops.gen_modules(rng, n):
        lines.append("mod.outcome %s %s" % (hx(sk), hx(text)))
        lines.append("mod.lists %s %s" % (hx(sk), hx(text)))
        lines.append("!mod.det %s %s" % (hx(sk), hx(text)))
        # non-canonical spellings of the same module (escaped / split / repeated attribute groups, comments, hex literals ...)
        from . import pC02
        lines.append("!mod.det %s %s" % (hx(sk), hx(pC02.respell(rng, text))))
        fs = modgen.faults(rng, text, sk)
        if fs:
            kind, exp, ft, fsk = rng.choice(fs)
            lines.append("mod.outcome %s %s" % (hx(fsk), hx(ft)))
            lines.append("!mod.det %s %s" % (hx(fsk), hx(ft)))
    return lines


def nontrivial(ln, model_out):
    return len(ln) > 100


def search(ln, a, b, harness, driver):
    p = ln.split()
    c = "!mod.det %s %s" % (p[1], p[2])
    for _ in range(5):
        x = C.run_lines([harness, "run"], [c])[0]
        if x.split()[0] in ("FAIL", "panic"):
            return {"ops": [c], "impl": [x], "model": ["ok"]}
    return None
