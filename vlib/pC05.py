"""C05 — undefined or doubly defined names are reported as errors."""
from . import common as C
from . import modgen, modprops, localgen
from .modprops import hx

TRUSTED = ["Lean 4.33 kernel; axioms: propext, Quot.sound at most (see coverage.axioms_used)"] + modprops.MODEL_TRUST + [
    "single-point faults are applied to the canonical text and mirrored on the skeleton by vlib/modgen.py faults()"]
ASSUMPTIONS = ["the unfaulted module is valid"]
RULE = ("every generated valid module crossed with single-point naming faults: a use of a global / type / comdat / metadata ID / local or label redirected to an undefined "
        "name, the label of a blockaddress constant (global initialiser, metadata field, module-level uselistorder) redirected to an undefined block, a type / comdat / global / metadata / local definition duplicated, and the documented exception (undefined attribute group, expected to be ACCEPTED); "
        "model and implementation must agree on accepted/rejected and the oracle demands error (never ok, never panic); non-trivial = distinct faulted module")


def facts(res, harness):
    """regenerated from the source (go/ast): errors assigned inside loops of package asm are checked immediately"""
    from . import regen
    r = regen.gen_facts(harness)
    rows = r["facts"].get("errdrops") or []
    for row in rows:
        res.violation("%s:%d (%s): `%s` inside a loop is not followed by `if err != nil`: the error of one element can be overwritten by the next" %
                      (row["file"], row["line"], row["func"], " ".join(row["stmt"].split())[:120]),
                      {"ops": [], "fact": row, "replay_hint": "cd /verif/harness && ./bin/harness facts | jq .errdrops"})
    return {"err_assignments_unchecked_in_loops": rows, "facts_regenerated_changed": r["facts_regenerated_changed"]}


def gen(tier, rng, harness=None, driver=None):
    n = 120 if tier == "quick" else 5000
    lines = []
    # blockaddress targets that do not exist: a block of a function that is only DECLARED, a missing block of a defined function (named / numbered), an undefined
    # function — in a global initializer, in an instruction, in a metadata operand; and a use-list order of such a block
    for site in ('@a = global i8* blockaddress(%s)\n', 'define i8* @u() {\n\tret i8* blockaddress(%s)\n}\n', '!0 = !{i8* blockaddress(%s)}\n'):
        for tgt, prelude in (("@ext, %bb", "declare void @ext()\n"), ("@ext, %0", "declare void @ext()\n"), ("@d, %nosuch", "define void @d() {\nentry:\n\tret void\n}\n"),
                             ("@d, %7", "define void @d() {\nentry:\n\tret void\n}\n"), ("@nosuch, %entry", "define void @d() {\nentry:\n\tret void\n}\n")):
            lines.append("!mod.mustfail - %s" % hx(prelude + "\n" + site % tgt))
    lines.append("!mod.mustfail - %s" % hx("declare void @ext()\n\nuselistorder_bb @ext, %bb, { 1, 0 }\n"))
    # a parameter name defined twice: in a declaration as in a definition
    for kw, body in (("declare", ""), ("define", " {\n\tret void\n}")):
        for ps in ("i32 %x, i32 %x", "i32 %x, i8* %y, i64 %x", 'i32 %"a b", i32 %"a b"', "i32 %x, i32 %\"x\""):
            lines.append("!mod.mustfail - %s" % hx("%s void @f(%s)%s\n" % (kw, ps, body)))
    # M-Core-3: the proved translation of real function bodies against the real parser on printed functions and their single-point mutants
    from . import pC01
    lines += pC01.core3_parse_stream(rng, driver, n)
    # M-Meta: undefined and doubly defined metadata IDs on real text (printed sections and their mutants) through the proved translation and the real parser
    from . import metagen
    lines += metagen.parse_stream(rng, driver, n)
    # M-Whole: names across fragments (a function named like a global, two functions of one name, a named type nothing defines, a type defined twice)
    from . import wholegen
    lines += wholegen.parse_stream(rng, driver, n // 2)
    # systematic: every definition-site kind x every use-site kind of one function body under confusable namings (vlib/localgen.py)
    for kind, exp, text, sk in localgen.cases(rng, 20 if tier == "quick" else 400):
        lines.append("mod.outcome %s %s" % (hx(sk), hx(text)))
        lines.append("!mod.%s %s %s" % ("mustfail" if exp == "error" else "accept", hx(sk), hx(text)))
    # systematic, on real texts: every textual USE of a metadata ID, global, local / label, type or comdat in every module of the catalogue (one construct each)
    # and of the corpus, redirected one at a time to a name nothing defines (vlib/refsites.py); oracle only, no skeleton
    from . import refsites, catalog
    from . import regen
    cat = [(nm, t) for nm, t, _ in catalog.all_entries(regen.enum_table(harness))]
    for kind, nm, ft in refsites.cases(cat, rng):
        lines.append("!mod.mustfail - %s" % hx(ft))
    # (corpus files written as site lists - a named type at every type position of every cast, constant expression and instruction - are taken whole)
    import glob, os
    sites_files = [(os.path.basename(f), open(f).read()) for f in sorted(glob.glob(os.path.join(C.VERIF, "corpus", "ll", "*_sites.ll")))]
    for kind, nm, ft in refsites.cases(sites_files, rng):
        lines.append("!mod.mustfail - %s" % hx(ft))
    corp = [("corpus-%d" % i, t) for i, t in enumerate(modprops.corpus_texts())]
    for kind, nm, ft in refsites.cases(corp, rng, per_text=40 if tier == "quick" else 2000):
        lines.append("!mod.mustfail - %s" % hx(ft))
    # an explicit ID that reads as zero at a position that is not the first unnamed value (any spelling: `%0`, `%00`, `00:`) must be rejected, not renumbered
    for kind, text in localgen.zero_spellings():
        lines.append("!mod.mustfail - %s" % hx(text))
    # unnamed GLOBAL entities defined twice under one written ID, or written with an ID that is not their place in the sequence (a reference by number would
    # bind to another entity), and parameter IDs of declarations
    for kind, text, ok in localgen.global_numberings() + localgen.declaration_numberings():
        lines.append(("!mod.accept - %s" if ok else "!mod.mustfail - %s") % hx(text))
    for m, text, sk in modprops.gen_modules(rng, n):
        lines.append("mod.outcome %s %s" % (hx(sk), hx(text)))
        for kind, exp, ft, fsk in modgen.faults(rng, text, sk):
            lines.append("mod.outcome %s %s" % (hx(fsk), hx(ft)))
            if exp == "error":
                lines.append("!mod.mustfail %s %s" % (hx(fsk), hx(ft)))
            else:
                lines.append("!mod.accept %s %s" % (hx(fsk), hx(ft)))
    return lines


def nontrivial(ln, model_out):
    return model_out in ("error", "ok") and len(ln) > 100


def search(ln, a, b, harness, driver):
    p = ln.split()
    if p[0].startswith(("core3.", "meta.", "whole.")):
        # the proved translation rejects what the implementation accepts (or the other way round): the text itself is the failing input
        if (a.split()[0] == "ok") != (b.split()[0] == "ok"):
            return {"ops": [ln], "impl": [a], "model": [b]}
        return None
    c = "!mod.mustfail %s %s" % (p[1], p[2])
    x = C.run_lines([harness, "run"], [c])[0]
    y = C.run_lines([driver], [c])[0]
    if x.split()[0] in ("FAIL", "panic") and y == "ok":
        return {"ops": [c], "impl": [x], "model": [y]}
    return None
