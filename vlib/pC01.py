"""C01 — parse then print preserves the meaning of every accepted module."""
from . import common as C
from . import modgen, modprops, coregen, catalog, regen
from .modprops import hx

TRUSTED = ["Lean 4.33 kernel; axioms: propext, Quot.sound, Classical.choice at most (see coverage.axioms_used)",
           "M-Core (LlirModel/Core.lean): token-level model of printer and parser for modules of opaque type definitions and integer globals; the external "
           "lexer/parser of llir/ll is trusted to deliver exactly these tokens (validated by byte-exact text comparison on every run)",
           "M-Core-2 (LlirModel/Core2.lean + TyParse.lean): struct type definitions with bodies and globals of any type with nested aggregate constants; the text of types and "
           "constants is read by byte-level readers proved to invert the printers (stand-ins for the grammar of llir/ll, compared with the real parser on printed and mutated "
           "texts); line splitting and the identifier tokens are trusted as in M-Core",
           "M-Core-3 (LlirModel/Core3.lean): function definitions; every line (header, label, instruction, terminator) is read by byte-level readers proved to invert the printers "
           "(generic over a table of 74 rows); the translation models asm/local.go (AssignIDs through the numbering model, duplicate / undefined / label-kind checks, operand retyping); "
           "splitting the text into lines is trusted; compared with the real parser on printed functions and 13 kinds of single-point mutants (acceptance AND re-printed text)"] + modprops.MODEL_TRUST + [
           "PARTIAL: outside M-Core and the leaf categories (C08, C09, C11, C16, C17, C18, C20, C04/C05) the grammar is tied by correspondence only: byte-exact fixpoint of "
           "generated canonical modules, graph closure, stability of the corpus modules; LLVM's own reading of the text is not consulted in the quick tier"]
ASSUMPTIONS = ["names satisfy the C11 guards (non-empty, no NUL, not digit-led junk, not readable as an ID)"]
RULE = ("(0) a catalogue of ~790 one-construct modules (every enum keyword of the regenerated table, structured attributes, all instruction/terminator kinds, constants, "
        "constant expressions, specialised DI nodes): the construct's text must survive parse+print and the output must be stable; (a) M-Core modules (random names incl. quoted/escaped/high-byte, widths, values): model text == implementation text byte for byte for the constructed module and "
        "for the re-parsed module; (b) generated typed modules rendered canonically must be byte-exact fixpoints of parse+print and closed graphs; (c) corpus modules and "
        "shuffled renderings must be accepted, printable and stable; non-trivial = distinct module")

CONSTRUCTS = ["source_filename", "target triple", "identified struct types (recursive, opaque)", "comdat any", "global variables (linkage, int/zeroinitializer/char array/"
              "bitcast-of-address initialisers, comdat, !dbg attachment)", "aliases", "function declarations and definitions (params named/unnamed, attribute groups, !dbg)",
              "basic blocks named/unnamed", "add, icmp, load, store, call (value and void), getelementptr, phi, br, condbr, ret", "attribute groups",
              "named metadata (merged)", "metadata tuples (distinct, refs, cycles, strings, null, ints, inline tuples)"]


def gen(tier, rng, harness=None, driver=None):
    from . import pC06
    n = 150 if tier == "quick" else 8000
    # every instruction kind with a typed result, on generated operand types (scalars, fixed and scalable vectors, aggregates):
    # the result is USED at LLVM's type and the printed module must spell the use at that type
    lines = pC06.use_stream(rng, driver, 3 * n)
    for _ in range(n):
        ts, gs = coregen.gen_core(rng)
        a = coregen.args(ts, gs)
        lines += ["core.print " + a, "core.reparse " + a, "!core.rt " + a]
    from . import core2gen
    for _ in range(n):
        ts, gs = core2gen.gen_core2(rng)
        lines += ["core2.print %s %s" % (ts, gs), "core2.reparse %s %s" % (ts, gs), "!core2.rt %s %s" % (ts, gs)]
    lines += readconst_stream(rng, driver, n)
    # M-Core-3: function definitions (parameters, named / numbered blocks, 74 instruction and terminator rows (integer binary and bitwise operations, icmp, load / store / alloca with an optional alignment, select, the 13 conversions, phi, freeze, fneg, fadd / fsub / fmul / fdiv / frem, fcmp with its 16 predicates, extractelement, insertelement, shufflevector, extractvalue and insertvalue with their index paths, getelementptr with any index list (result type through the C07 model), ret, br, conditional br, unreachable) over locals and constants): model text
    # == implementation text byte for byte for the constructed function and for the re-parsed one; the proved line readers + translation against
    # the real parser on printed texts and on single-point mutants (undefined / re-quoted uses, duplicated definitions, wrong IDs, nameless
    # results and blocks, changed operand types, deleted / doubled terminators, swapped lines, deleted labels, extra operands, dropped commas)
    from . import core3gen
    for _ in range(n):
        a = " ".join(core3gen.gen_func(rng))
        lines += ["core3.print " + a, "core3.reparse " + a, "!core3.rt " + a]
    lines += core3_parse_stream(rng, driver, n // 2)
    # M-Meta: the metadata section (numbered tuples with null / reference / string / typed-constant / nested-tuple fields, named metadata): model text ==
    # implementation text for constructed sections; the proved line readers + translation (duplicate / undefined IDs, merge of named metadata, ordering
    # by ID and by natural sort) against the real parser on printed sections and 14 kinds of mutants
    from . import metagen
    lines += metagen.print_lines(rng, n)
    lines += metagen.parse_stream(rng, driver, n // 2)
    # M-Whole: whole modules (type definitions + globals + function definitions + metadata in ONE text): model text == implementation text; the proved
    # top-level splitter, the four translations and the cross-fragment checks (names shared by globals and functions, named types used by functions,
    # redefinition of opaque types) against the real parser on printed modules and 13 kinds of mutants that cross the fragments
    from . import wholegen
    lines += wholegen.print_lines(rng, n // 2)
    lines += wholegen.parse_stream(rng, driver, n // 3)
    # M-DI: the specialised metadata nodes (26 kinds; the table of kinds and fields is regenerated from the printer and the translation of /repo): nodes built by
    # reflection on the real structs print byte for byte what the model prints from the regenerated table, survive print -> parse -> print, and the real parser
    # agrees with the proved reader + translation on printed nodes and on mutants (fields in another order, written twice, written at the omitted value, unknown and
    # foreign keywords, missing punctuation, distinct toggled)
    lines += di_stream(rng, harness, driver, n)
    for t in modprops.corpus_texts():
        lines.append("!mod.stable - %s" % hx(t))
        lines.append("!mod.closure - %s" % hx(t))
    # one-construct catalogue: every keyword of the regenerated enum table in a minimal module, structured attributes, every instruction
    # and terminator kind, constants and constant expressions, the specialised debug-info nodes with their fields
    for name, text, frags in catalog.all_entries(regen.enum_table(harness)) + catalog.FINDING_ENTRIES:
        lines.append("!mod.keeps %s %s" % (hx("\x1f".join(frags or [])), hx(text)))
    # string-valued fields at every site that prints one (~65 sites: section, gc, comdat, syncscope of each of the five atomic kinds, asm strings, attribute
    # strings, metadata strings ...): a string with a quote, a backslash, control and non-UTF-8 bytes is printed, parsed, and must come back unchanged
    for sv in (b'wave"front\n', b"\\", b"a\x00b", b"\xff\x7f", b"tab\there", b"plain"):
        lines.append("!rt.strsites %s" % sv.hex())
    for m, text, sk in modprops.gen_modules(rng, n):
        lines.append("!mod.fix %s %s" % (hx(sk), hx(text)))
        t2, _ = modgen.render(m, rng, shuffle=True)
        lines.append("!mod.canon %s %s %s" % (hx(sk), hx(t2), hx(text)))
    return lines


def di_stream(rng, harness, driver, n):
    from . import digen
    import json
    rc, out = C.sh([harness, "facts"], env=C.GOENV, timeout=300)
    if rc != 0:
        raise C.BrokenTie("fact extractor failed: " + out[-2000:])
    table = digen.Table(json.loads(out)["difields"], regen.enum_table(harness))
    lines = digen.print_lines(rng, table, max(16, n // 4))
    pl, _ = digen.parse_stream(rng, table, driver, max(24, n // 3))
    return lines + pl


def core3_parse_stream(rng, driver, n):
    from . import core3gen
    fs = [core3gen.gen_func(rng) for _ in range(n)]
    # some with metadata attachments: a function on its own defines no metadata, so its text is rejected by both sides (asm/metadata.go irMetadataAttachment;
    # Core3.translate) — after both have READ the attachments; the printed bytes are compared as well
    att = [core3gen.attach(rng, core3gen.gen_func(rng), [0, 7, 4294967296], 0.4) for _ in range(max(4, n // 6))]
    fs = fs + att
    outs = C.run_lines([driver], ["core3.print " + " ".join(f) for f in fs], shards=8)
    lines = ["core3.print " + " ".join(f) for f in att]
    for o in outs:
        if not o or o in ("-", "unknown-op"):
            continue
        t = bytes.fromhex(o)
        lines.append("core3.parse " + t.hex())
        for kind, mt in core3gen.mutants(rng, t):
            lines.append("core3.parse " + mt.hex())
    return lines


def readconst_stream(rng, driver, n):
    """the proved reader of `T V` (type + constant) against the real parser: on printed initialisers and on single-character structural
    mutants of them (a bracket or a separator deleted): both must accept/reject alike and re-print the same text"""
    import re
    from . import core2gen
    mods = [core2gen.gen_core2(rng) for _ in range(n)]
    outs = C.run_lines([driver], ["core2.print %s %s" % m for m in mods], shards=8)
    lines = []
    for o in outs:
        if not o or o in ("-", "unknown-op"):
            continue
        for l in bytes.fromhex(o).split(b"\n"):
            m = re.match(rb"@\S+ = (?:global|constant) (.*)$", l)
            if not m or b"%" in m.group(1):
                continue      # a named struct type needs its real definition (packedness): those are covered by core2.reparse
            tv = m.group(1)
            lines.append("core2.readconst %s" % tv.hex())
            pos = [i for i, c in enumerate(tv) if c in b"<>[]{}," and tv[:i].count(b'"') % 2 == 0]
            if pos and rng.random() < 0.5:
                i = rng.choice(pos)
                lines.append("core2.readconst %s" % (tv[:i] + tv[i + 1:]).hex())
    return lines


def llvm_reference(res, findings, tier, rng, harness, prop="C01", more=()):
    """LLVM 14 as the arbiter of "valid LLVM IR" and "denotes the same module" on the catalogue, the corpus and generated modules (also re-spelled)"""
    from . import pC02, refstage
    texts = [(n, t) for n, t, _ in catalog.all_entries(regen.enum_table(harness))]
    texts += [("corpus-%d" % i, t) for i, t in enumerate(modprops.corpus_texts())]
    k = 40 if tier == "quick" else 1500
    for i, (m, text, sk) in enumerate(modprops.gen_modules(rng, k)):
        texts.append(("generated-%d" % i, text))
        texts.append(("generated-%d-respelled" % i, pC02.respell(rng, text)))
    texts += list(more)
    if tier == "quick":
        keep = [x for x in texts if not x[0].startswith(("FuncAttr.", "ParamAttr.", "DwarfOp.", "DwarfTag.", "DwarfLang.", "DwarfAttEncoding.", "CallingConv."))]
        rest = [x for x in texts if x not in keep]
        texts = keep + rng.sample(rest, min(60, len(rest)))
    return refstage.run(res, findings, harness, prop, texts)


def extra(res, findings, tier, rng, harness, driver):
    ref = llvm_reference(res, findings, tier, rng, harness)
    return {**ref, "constructs_covered_by_generator": CONSTRUCTS,
            "mcore_constructs": ["opaque type definitions", "integer global variable definitions"],
            "mcore3_constructs": ["function definitions with any number of parameters and blocks (named, numbered or nameless)", "add sub mul udiv sdiv urem srem shl lshr ashr and or xor",
                                  "icmp (10 predicates)", "load", "store", "select", "ret (void / value)", "br", "conditional br", "unreachable",
                                  "operands: locals (names, IDs, forward references) and Core2 constants of any nesting"],
            "mcore2_constructs": ["identified struct type definitions (opaque, literal body, packed body, recursive through pointers)", "global / constant variables of any type",
                                  "integer constants of any width incl. i1", "zeroinitializer / null / undef", "nested struct / packed struct / array / vector constants"]}


def nontrivial(ln, model_out):
    return len(ln) > 60


def search(ln, a, b, harness, driver):
    p = ln.split()
    if p[0] in ("meta.parse", "meta.print", "whole.parse", "whole.print", "di.print", "di.parse"):
        # the proved model and the implementation differ on this text / section: it is itself the failing input when acceptance differs or the texts differ
        return {"ops": [ln], "impl": [a], "model": [b]}
    if p[0] in ("core2.readconst", "core2.print", "core2.reparse", "core3.parse", "core3.print", "core3.reparse"):
        return None
    c = "!core.rt " + " ".join(p[1:3])
    x = C.run_lines([harness, "run"], [c])[0]
    if x.split()[0] in ("FAIL", "panic"):
        return {"ops": [c], "impl": [x], "model": ["ok"]}
    return None
