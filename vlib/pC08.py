"""C08 — unnamed values are numbered exactly as LLVM numbers them."""
import itertools
from . import common as C

TRUSTED = [
    "Lean 4.33 kernel; axioms: propext, Quot.sound at most (see coverage.axioms_used)",
    "hand-written Lean model LlirModel/Numbering.lean of Func.AssignIDs / Module.AssignGlobalIDs (one `setName` closure threaded over the slots in loop order) and of the "
    "parser's textual numbering of unnamed globals; LLVMSpec.numbering = LLVM's value numbering (trusted transcription)",
    "a function is abstracted to the flat list of its value slots (named?, ID, value-producing?) in the order the Go loops visit them",
    "Go harness ops_numbering.go (same shapes through the constructors and through rendered text)",
]
ASSUMPTIONS = ["which instructions are value-producing (non-void) is decided by Type() as in C06"]
RULE = ("function shapes: any interleaving of named / implicit / explicitly numbered parameters, blocks, value instructions, stores, void and non-void calls and invokes; "
        "explicit numbers right and wrong at every position; module shapes: any interleaving of named/unnamed globals, aliases, ifuncs, declarations and definitions; "
        "thorough adds all shapes of <= 2 params, <= 2 blocks, <= 2 instructions over 6 slot forms and all interleavings of <= 5 global entities; "
        "non-trivial = distinct op with at least two unnamed slots")


def gen_func(rng, wrong_p=0.15, explicit_p=0.5):
    """returns tokens with consistent (LLVM) explicit numbering, possibly perturbed"""
    toks = []
    n = 0

    def ident(kind, allow_implicit):
        nonlocal n
        r = rng.random()
        if r < 0.3:
            return "n"
        cur = n
        n += 1
        if allow_implicit and rng.random() > explicit_p:
            return "i"
        if rng.random() < wrong_p:
            return "e%d" % rng.choice([cur + 1, max(cur - 1, 0), 0, cur + 7])
        return "e%d" % cur
    for _ in range(rng.randint(0, 3)):
        toks.append("P:" + ident("P", True))
    for _ in range(rng.randint(1, 3)):
        toks.append("B:" + ident("B", True))
        for _ in range(rng.randint(0, 4)):
            k = rng.choice(["V", "V", "S", "C", "CF", "CV"])
            toks.append(k if k in ("S", "C", "CF") else k + ":" + ident(k, False))
        t = rng.choice(["R", "R", "I", "IV", "IVF", "K", "CB"])
        toks.append(t if t not in ("I", "K", "CB") else t + ":" + ident(t, False))
    return toks


def is_valid_llvm(toks):
    n = 0
    for t in toks:
        p = t.split(":")
        if p[0] in ("P", "B", "V", "CV", "I", "K", "CB"):
            if p[1] == "n":
                continue
            if p[1].startswith("e") and int(p[1][1:]) != n:
                return False
            n += 1
    return True


def gen(tier, rng, harness=None):
    lines = []
    n = 800 if tier == "quick" else 40000
    for _ in range(n):
        toks = gen_func(rng, wrong_p=rng.choice([0, 0, 0.2]))
        s = " ".join(toks)
        lines.append("num.api " + s)
        lines.append("num.parse " + s)
        if is_valid_llvm(toks):
            lines.append("!num.check " + s)
        ents = [rng.choice("GAIFD") + ":" + rng.choice("nu") for _ in range(rng.randint(1, 6))]
        lines.append("num.mod " + " ".join(ents))
        lines.append("num.modapi " + " ".join(ents))
        lines.append("!num.modok " + " ".join(ents))
    if tier == "thorough":
        forms = ["P:i", "P:n", "B:i", "B:n", "V:n", "S", "C", "R", "IV"]
        for k in range(1, 6):
            for ents in itertools.product(["G:u", "A:u", "I:u", "F:u", "D:u", "G:n", "D:n"], repeat=k):
                lines.append("num.mod " + " ".join(ents))
                lines.append("!num.modok " + " ".join(ents))
        # all small function shapes with explicit-or-implicit LLVM numbering
        idents = ["n", "i", "E"]
        for np_ in range(0, 3):
            for pids in itertools.product(idents, repeat=np_):
                for nb in range(1, 3):
                    for shape in itertools.product(["", "V", "S", "CV", "V V", "C V"], repeat=nb):
                        for bid in itertools.product(idents, repeat=nb):
                            toks, cnt = [], 0
                            for p in pids:
                                toks.append("P:" + (p if p != "E" else "e%d" % cnt)); cnt += p != "n"
                            for b in range(nb):
                                toks.append("B:" + (bid[b] if bid[b] != "E" else "e%d" % cnt)); cnt += bid[b] != "n"
                                for ins in shape[b].split():
                                    if ins in ("V", "CV"):
                                        toks.append("%s:e%d" % (ins, cnt)); cnt += 1
                                    else:
                                        toks.append(ins)
                                toks.append("R")
                            s = " ".join(toks)
                            lines.append("num.parse " + s)
                            lines.append("!num.check " + s)
    return lines


def nontrivial(ln, model_out):
    return sum(1 for t in ln.split()[1:] if t.endswith(":i") or ":e" in t or t.endswith(":u")) >= 2


def search(ln, a, b, harness, driver):
    p = ln.split()
    if p[0] == "num.modapi" and a.startswith("panic"):
        return {"ops": [ln], "impl": [a], "model": [b]}      # a module built through the builder methods cannot be printed
    toks = p[1:]
    cands = []
    if p[0] in ("num.api", "num.parse"):
        # the LLVM-valid variant of the same shape is the natural failing input
        n = 0
        fixed = []
        for t in toks:
            q = t.split(":")
            if q[0] in ("P", "B", "V", "CV", "I", "K", "CB") and q[1] != "n":
                fixed.append("%s:%s" % (q[0], "i" if q[1] == "i" else "e%d" % n)); n += 1
            else:
                fixed.append(t)
        cands.append("!num.check " + " ".join(fixed))
        cands.append("!num.check " + " ".join(t if not t.split(":")[-1].startswith("e") else t.split(":")[0] + ":n" for t in toks))
    else:
        cands.append("!num.modok " + " ".join(toks))
    impl = C.run_lines([harness, "run"], cands)
    model = C.run_lines([driver], cands)
    for c, x, y in zip(cands, impl, model):
        if x.split()[0] in ("FAIL", "panic") and y == "ok":
            return {"ops": [c], "impl": [x], "model": [y]}
    return None
