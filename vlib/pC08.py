"""C08 — unnamed values are numbered exactly as LLVM numbers them."""
import itertools
from . import common as C

TRUSTED = [
    "Lean 4.33 kernel; axioms: propext, Quot.sound at most (see coverage.axioms_used)",
    "hand-written Lean model LlirModel/Numbering.lean of Func.AssignIDs / Module.AssignGlobalIDs (one `setName` closure threaded over the slots in loop order) and of the "
    "parser's textual numbering of unnamed globals; LLVMSpec.numbering / agreesFrom = LLVM's value numbering (trusted transcription; VALIDATED on every run against LLVM 14's own parser, `llvm-as -disable-verify`, see coverage.llvm_reference; one recorded divergence: nameless first parameter)",
    "a function is abstracted to the flat list of its value slots (named?, ID, value-producing?) in the order the Go loops visit them",
    "Go harness ops_numbering.go (same shapes through the constructors and through rendered text)",
]
ASSUMPTIONS = ["which instructions are value-producing (non-void) is decided by Type() as in C06"]
RULE = ("function shapes: any interleaving of named / implicit / explicitly numbered parameters, blocks, value instructions, stores, void and non-void calls and invokes; "
        "explicit numbers right and wrong at every position; module shapes: any interleaving of named/unnamed globals, aliases, ifuncs, declarations and definitions; "
        "thorough adds all shapes of <= 2 params, <= 2 blocks, <= 2 instructions over 6 slot forms and all interleavings of <= 5 global entities; "
        "non-trivial = distinct op with at least two unnamed slots")


def gen_func(rng, wrong_p=0.15, explicit_p=0.5):
    """returns tokens with consistent (LLVM) explicit numbering, possibly perturbed"""
    toks = []
    n = 0

    def ident(kind, allow_implicit):
        nonlocal n
        r = rng.random()
        if r < 0.3:
            return "n"
        cur = n
        n += 1
        if allow_implicit and rng.random() > explicit_p:
            return "i"
        if rng.random() < 0.12:
            return "q"      # written with the empty quoted name (`%""`, `"":`): unnamed, takes the next number like an implicit one
        if rng.random() < wrong_p:
            return "e%d" % rng.choice([cur + 1, max(cur - 1, 0), 0, cur + 7])
        return "e%d" % cur
    for _ in range(rng.randint(0, 3)):
        toks.append("P:" + ident("P", True))
    for _ in range(rng.randint(1, 3)):
        toks.append("B:" + ident("B", True))
        for _ in range(rng.randint(0, 4)):
            # (CA: a void call through a named signature `%vsig = type void ()`)
            k = rng.choice(["V", "V", "S", "C", "CF", "CV", "CA"])
            toks.append(k if k in ("S", "C", "CF", "CA") else k + ":" + ident(k, False))
        # (void terminators that take no number: invoke / callbr plain, with the full function type spelled out, through a named signature)
        t = rng.choice(["R", "R", "I", "IV", "IVF", "IVA", "K", "CB", "CBV", "CBVF", "CBVA"])
        toks.append(t if t not in ("I", "K", "CB") else t + ":" + ident(t, False))
    return toks


def is_valid_llvm(toks):
    n = 0
    for t in toks:
        p = t.split(":")
        if p[0] in ("P", "B", "V", "CV", "I", "K", "CB"):
            if p[1] == "n":
                continue
            if p[1].startswith("e") and int(p[1][1:]) != n:
                return False
            n += 1
    return True


def gen(tier, rng, harness=None, driver=None):
    # call sites spelled with a NAMED signature: a void one takes no number, the values behind it keep theirs
    sig = ["!sig.alias %s %s %s" % (site, rv, var) for site in ("call", "invoke", "callbr") for rv in ("v", "i") for var in ("0", "1")]
    lines = []
    n = 800 if tier == "quick" else 40000
    # M-Core-3: numbering on real function bodies (written, nameless and wrong IDs) through the proved translation and the real parser
    from . import pC01
    lines += pC01.core3_parse_stream(rng, driver, 60 if tier == "quick" else 3000)
    for _ in range(n):
        toks = gen_func(rng, wrong_p=rng.choice([0, 0, 0.2]))
        s = " ".join(toks)
        lines.append("num.api " + s)
        lines.append("num.parse " + s)
        if is_valid_llvm(toks):
            lines.append("!num.check " + s)
        ents = [rng.choice("GAIFD") + ":" + rng.choice("nu") for _ in range(rng.randint(1, 6))]
        # entities of OTHER namespaces (attribute group, metadata, type, comdat, named metadata definitions, each with an ID / name of its own) written between them
        if rng.random() < 0.4:
            for _ in range(rng.randint(1, 3)):
                ents.insert(rng.randint(0, len(ents)), "X:" + rng.choice("amtcn"))
        lines.append("num.mod " + " ".join(ents))
        lines.append("num.modapi " + " ".join(ents))
        lines.append("!num.modok " + " ".join(ents))
    # LONG runs of unnamed entities of all kinds interleaved (13 to 40: a renumbering that sorts by kind must keep the textual order within a kind — library
    # sorts are stable only by accident below a dozen elements)
    for _ in range(40 if tier == "quick" else 2000):
        ents = [rng.choice("GAIFD") + ":" + rng.choice("uuun") for _ in range(rng.randint(13, 40))]
        lines.append("num.mod " + " ".join(ents))
        lines.append("num.modapi " + " ".join(ents))
        lines.append("!num.modok " + " ".join(ents))
        lines.append("!num.apiok " + " ".join(ents))
    # global entities with their identifiers AS WRITTEN: right IDs, the empty name, and wrong IDs (repeated, skipped, swapped, restarted) of every kind
    for _ in range(300 if tier == "quick" else 20000):
        ents, nxt = [], 0
        wrong = rng.random() < 0.5
        for _ in range(rng.randint(1, 7)):
            kd = rng.choice("GAIFD")
            r = rng.random()
            if r < 0.25:
                ents.append(kd + ":n")
            elif r < 0.4:
                ents.append(kd + ":q"); nxt += 1
            else:
                w = nxt
                if wrong and rng.random() < 0.4:
                    w = rng.choice([0, nxt + 1, max(0, nxt - 1), nxt + 2, 7])
                ents.append("%s:e%d" % (kd, w)); nxt += 1
        lines.append("num.gsrc " + " ".join(ents))
    # systematic (every run): every kind of unnamed global entity before and after every kind of foreign entity
    for g in ("G:u", "A:u", "I:u", "F:u", "D:u"):
        for x in "amtcn":
            for ents in (["X:" + x, g, g], [g, "X:" + x, g], ["G:u", "X:" + x, g, "X:" + x, "F:u"]):
                lines.append("num.mod " + " ".join(ents))
                lines.append("!num.modok " + " ".join(ents))
    from . import localgen
    from .modprops import hx
    for kind, text in localgen.zero_spellings():
        lines.append("!mod.mustfail - %s" % hx(text))
    for kind, text in localgen.empty_quoted_spellings():
        lines.append("!mod.accept - %s" % hx(text))
        lines.append("!mod.stable - %s" % hx(text))
    # explicit parameter IDs of DECLARATIONS: LLVM's numberings are accepted (and printed, and read again), every other one is rejected — not accepted and left
    # for the printer to fail on
    for kind, text, ok in localgen.declaration_numberings() + localgen.global_numberings():
        lines.append(("!mod.stable - %s" if ok else "!mod.mustfail - %s") % hx(text))
    if tier == "thorough":
        forms = ["P:i", "P:n", "B:i", "B:n", "V:n", "S", "C", "R", "IV"]
        for k in range(1, 6):
            for ents in itertools.product(["G:u", "A:u", "I:u", "F:u", "D:u", "G:n", "D:n"], repeat=k):
                lines.append("num.mod " + " ".join(ents))
                lines.append("!num.modok " + " ".join(ents))
        for k in range(1, 4):
            for ents in itertools.product(["G:u", "A:u", "F:u", "D:u", "X:a", "X:m", "X:t", "X:c", "X:n"], repeat=k):
                lines.append("num.mod " + " ".join(ents))
                lines.append("!num.modok " + " ".join(ents))
        # all small function shapes with explicit-or-implicit LLVM numbering
        idents = ["n", "i", "E"]
        for np_ in range(0, 3):
            for pids in itertools.product(idents, repeat=np_):
                for nb in range(1, 3):
                    for shape in itertools.product(["", "V", "S", "CV", "V V", "C V"], repeat=nb):
                        for bid in itertools.product(idents, repeat=nb):
                            toks, cnt = [], 0
                            for p in pids:
                                toks.append("P:" + (p if p != "E" else "e%d" % cnt)); cnt += p != "n"
                            for b in range(nb):
                                toks.append("B:" + (bid[b] if bid[b] != "E" else "e%d" % cnt)); cnt += bid[b] != "n"
                                for ins in shape[b].split():
                                    if ins in ("V", "CV"):
                                        toks.append("%s:e%d" % (ins, cnt)); cnt += 1
                                    else:
                                        toks.append(ins)
                                toks.append("R")
                            s = " ".join(toks)
                            lines.append("num.parse " + s)
                            lines.append("!num.check " + s)
    return lines + sig


def extra(res, findings, tier, rng, harness, driver):
    """LLVM 14's own PARSER (llvm-as -disable-verify: numbering is checked while parsing, the verifier is not needed) as the reference: (a) the model's
    verdict on an explicit numbering (`parseAssign`, proved equivalent to LLVMSpec.agreesFrom) must be LLVM's verdict; (b) what llir prints for an
    accepted shape must be accepted by LLVM"""
    from . import llvmref
    if not llvmref.available():
        return {"llvm_reference": {"available": False}}
    shapes = [" ".join(gen_func(rng, wrong_p=rng.choice([0, 0.15, 0.3]))) for _ in range(250 if tier == "quick" else 5000)]
    model = C.run_lines([driver], ["num.parse " + s_ for s_ in shapes], shards=8)
    texts = C.run_lines([harness, "run"], ["num.text " + s_ for s_ in shapes], shards=8)
    from concurrent.futures import ThreadPoolExecutor
    def quirk(shape):
        # LLVM 14's parameter-list parser does not count a NAMELESS FIRST parameter (`define void @f(i32, i32 %0)` is accepted and its second
        # parameter is %1; `(i32, i32 %1)` is rejected; `(i32 %a, i32, i32 %1)` is fine): llir numbers positionally, like LLVM everywhere else.
        ps = [t for t in shape.split() if t.startswith("P:")]
        # LLVM 14 goes further for that spelling: a parameter written `%""` is not counted at ANY position (`(i32 %0, i32 %"", i32 %1)` is accepted,
        # `(i32 %0, i32 %"", i32 %2)` rejected) although it takes a number like every unnamed value afterwards — the same inconsistency of the parameter-list parser
        if any(t == "P:q" and any(u.startswith("P:e") for u in ps[k + 1:]) for k, t in enumerate(ps)):
            return True
        return bool(ps) and ps[0] == "P:i" and any(t.startswith("P:e") for t in ps[1:])
    def work(i):
        p = texts[i].split()
        if len(p) != 2:
            return ("skipped", None)
        if quirk(shapes[i]):
            return ("excluded-llvm14-nameless-first-parameter", None)
        src = bytes.fromhex(p[0]).decode("latin-1")
        _, st, msg = llvmref.assemble(src, verify=False)
        if st == "crash":
            return ("reference-crash", None)
        want_ok = model[i].startswith("ok")
        if (st == "ok") != want_ok:
            # only numbering verdicts count: other parser errors of LLVM (none expected in these shapes) are reported as they are
            return ("verdict-differs", (shapes[i], "model %s, LLVM %s %s" % (model[i][:40], st, msg), src))
        if st == "ok" and p[1] != "-":
            _, st2, msg2 = llvmref.assemble(bytes.fromhex(p[1]).decode("latin-1"), verify=False)
            if st2 == "invalid":
                return ("printed-rejected", (shapes[i], msg2, bytes.fromhex(p[1]).decode("latin-1")))
        return ("agree-accept" if want_ok else "agree-reject", None)
    with ThreadPoolExecutor(16) as ex:
        out = list(ex.map(work, range(len(shapes))))
    stats = {}
    for k, b in out:
        stats[k] = stats.get(k, 0) + 1
        if b and k == "verdict-differs":
            res.violation("the numbering model (parseAssign = LLVMSpec.agreesFrom, the rule the theorems are stated against) disagrees with LLVM 14's parser on `%s`: %s" % (b[0], b[1]),
                          {"ops": ["num.parse " + b[0]], "llvm_input": b[2], "reference": "llvm-as-14 -disable-verify"}, found_input=False)
        if b and k == "printed-rejected":
            res.violation("LLVM 14 rejects the numbering llir prints for shape `%s`: %s" % (b[0], b[1]), {"ops": ["!num.check " + b[0]], "printed": b[2], "reference": "llvm-as-14 -disable-verify"})
    # the recorded quirk is re-run on every run: LLVM accepts the witness, llir rejects it
    for f in findings.data["findings"]:
        if f["property"] == "C08" and f.get("class") == "llvm-reference" and f.get("input"):
            _, st, _ = llvmref.assemble(f["input"], verify=False)
            o = C.run_lines([harness, "run"], ["mod.outcome - " + f["input"].encode().hex()])[0]
            if st == "ok" and o == "error":
                res.known[f["id"]] = (1 + stats.get("excluded-llvm14-nameless-first-parameter", 0), f["what"])
            elif st != "crash":
                res.violation("the recorded finding %s no longer reproduces as recorded (LLVM %s, llir %s)" % (f["id"], st, o), {"ops": [], "input": f["input"]}, found_input=False)
    return {"llvm_reference": dict(stats, available=True, shapes=len(shapes), tool="llvm-as-14 -disable-verify")}


def nontrivial(ln, model_out):
    return sum(1 for t in ln.split()[1:] if t.endswith(":i") or ":e" in t or t.endswith(":u")) >= 2


def search(ln, a, b, harness, driver):
    p = ln.split()
    if p[0].startswith("core3."):
        # the proved translation rejects what the implementation accepts (or the other way round): the text itself is the failing input
        if (a.split()[0] == "ok") != (b.split()[0] == "ok"):
            return {"ops": [ln], "impl": [a], "model": [b]}
        return None
    if p[0] == "num.modapi" and a.startswith("panic"):
        return {"ops": [ln], "impl": [a], "model": [b]}      # a module built through the builder methods cannot be printed
    toks = p[1:]
    cands = []
    if p[0] in ("num.api", "num.parse"):
        # the LLVM-valid variant of the same shape is the natural failing input
        n = 0
        fixed = []
        for t in toks:
            q = t.split(":")
            if q[0] in ("P", "B", "V", "CV", "I", "K", "CB") and q[1] != "n":
                fixed.append("%s:%s" % (q[0], "i" if q[1] == "i" else "e%d" % n)); n += 1
            else:
                fixed.append(t)
        cands.append("!num.check " + " ".join(fixed))
        cands.append("!num.check " + " ".join(t if not t.split(":")[-1].startswith("e") else t.split(":")[0] + ":n" for t in toks))
    else:
        cands.append("!num.modok " + " ".join(toks))
    impl = C.run_lines([harness, "run"], cands)
    model = C.run_lines([driver], cands)
    for c, x, y in zip(cands, impl, model):
        if x.split()[0] in ("FAIL", "panic") and y == "ok":
            return {"ops": [c], "impl": [x], "model": [y]}
    return None
