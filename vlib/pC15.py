"""C15 — operand and successor views are complete and live."""
from . import common as C
from . import regen, pC06

TRUSTED = [
    "Lean 4.33 kernel (decide +kernel over the regenerated table; no extra axioms)",
    "the table generator: harness opsgen (go/ast lists every ir type with an Operands method) + harness/opsan (reflection on a live instance: value slots = every "
    "value.Value-typed location reachable through exported fields, slices and the helper structs Incoming/Case/Clause/OperandBundle; exposed slots identified by ADDRESS)",
    "the instance analysed has every optional operand present and list-valued fields of length 2; other lengths and absent optionals are covered by the dynamic "
    "substitution oracle on constructor-built instructions (ops.subst), not by the table",
    "LLVM's successor definition per terminator kind is written by hand in LlirProofs/Props/C15.lean (specSuccs)",
]
ASSUMPTIONS = ["operands are reached through exported fields (the IR's public data model)"]
RULE = ("table: 66 rows regenerated from the source and decided by the kernel (complete by construction); dynamic: for constructor-built instructions of every rendered kind "
        "over generated operand types, a fresh value is written through each slot in turn and the printed instruction must change exactly at that operand, and every "
        "printed operand must have a slot; non-trivial = distinct (kind, operand types) with at least two operands")


def facts(res, harness):
    return regen.gen_ops(harness)


def gen(tier, rng, harness, driver):
    lines = []
    n = 400 if tier == "quick" else 30000
    seen = 0
    while seen < n:
        k, ts = pC06.gen_case(rng)
        if k.split(":")[0] in ("alloca", "landingpad", "catchpad", "cleanuppad", "catchswitch", "phi", "callbr"):
            seen += 1
            continue
        lines.append(("!ops.subst %s %s" % (k, " ".join(ts))).rstrip())
        seen += 1
    return lines


SPEC_SUCCS = {"TermRet": [], "TermBr": ["Target"], "TermCondBr": ["TargetTrue", "TargetFalse"], "TermSwitch": ["TargetDefault", "Cases[0].Target", "Cases[1].Target"],
              "TermIndirectBr": ["ValidTargets[0]", "ValidTargets[1]"], "TermInvoke": ["NormalRetTarget", "ExceptionRetTarget"],
              "TermCallBr": ["NormalRetTarget", "OtherRetTargets[0]", "OtherRetTargets[1]"], "TermResume": [], "TermCatchSwitch": ["Handlers[0]", "Handlers[1]", "DefaultUnwindTarget"],
              "TermCatchRet": ["Target"], "TermCleanupRet": ["UnwindTarget"], "TermUnreachable": []}


def extra(res, findings, tier, rng, harness, driver):
    """the table rows that violate the decided predicates are the concrete failing inputs of a broken table theorem"""
    rows = regen.ops_table(harness)
    bad = 0
    for r in rows:
        why = []
        if sorted(r["operands"]) != sorted(r["slots"]) or len(set(r["operands"])) != len(r["operands"]):
            why.append("Operands() exposes %s but the value slots are %s ('?' = an address that is not a slot of the instruction)" % (r["operands"], r["slots"]))
        if not r["live"]:
            why.append("a write through an exposed slot does not reach the instruction")
        want = SPEC_SUCCS.get(r["type"])
        if want is not None and r["succs"] != want:
            why.append("Succs() = %s, branch targets = %s" % (r["succs"], want))
        if want is None and r["succs"] != ["-"]:
            why.append("unexpected Succs on an instruction")
        if not r["succlive"]:
            why.append("Succs() does not follow targets changed through Operands()")
        if why:
            bad += 1
            res.violation("%s (instance with every optional operand present, list fields of length 2%s): %s" % (r["type"], ", boolean fields set, the first element of every helper list with empty inner lists" if r.get("flags") else ", boolean fields clear", "; ".join(why)),
                          {"ops": [], "table_row": r, "replay_hint": "cd /verif/harness && ./bin/harness opsgen opsprog/main.go && go run -tags verif ./opsprog | grep " + r["type"]})
    return {"table_rows": len(rows), "table_rows_violating": bad}


def nontrivial(ln, model_out):
    return len(ln.split()) >= 4


def search(ln, a, b, harness, driver):
    return None
