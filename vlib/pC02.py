"""C02 — printed output is a fixpoint of parse and print."""
from . import common as C
from . import modgen, modprops, coregen, gens
from .modprops import hx
from . import pC01

TRUSTED = pC01.TRUSTED
ASSUMPTIONS = pC01.ASSUMPTIONS
RULE = ("for M-Core modules: the model's re-parsed text equals the implementation's; for generated modules in canonical AND non-canonical spellings (shuffled top-level order, "
        "extra whitespace and comments, hexadecimal / leading-zero integer spellings, redundant quoting) and for the corpus: y = print(parse(x)) must be accepted, "
        "print(parse(y)) == y byte for byte and the second module must be a closed graph; non-trivial = distinct input text")


ILL_TYPED_ACCEPTED = [
    "@g = global <2 x i1> <i32 1, i32 0>\n",
    "@g = global <2 x i32> <i1 true, i1 false>\n",
    "@g = global [2 x i8] [i32 1, i32 2]\n",
    "@g = global [2 x i1] [i8 1, i8 0]\n",
    "@g = global { i8, i1 } { i32 1, i8 1 }\n",
    "@g = global <2 x i8> <i8 1, i16 2>\n",
    "define <2 x i1> @f(<2 x i1> %x) {\n\t%r = xor <2 x i1> %x, <i8 1, i8 1>\n\tret <2 x i1> %r\n}\n",
    "define <2 x i8> @f(<2 x i8> %x) {\n\t%r = add <2 x i8> %x, <i1 true, i1 false>\n\tret <2 x i8> %r\n}\n",
]


# all-digit names written in quotes with leading zeros (type, local, global): whatever name the parser gives them, one parse+print step must be normal form
QUOTED_DIGIT_NAMES = [
    '%"007" = type { i32, i8 }\n@g = global %"007" zeroinitializer\n',
    '%"042" = type { i8 }\n%42 = type { i16 }\n@g = global %"042" zeroinitializer\n@h = global %42 zeroinitializer\n',
    '%"00" = type opaque\n@g = global %"00"* null\n',
    'define void @f(i32 %"007") {\n\t%"08" = add i32 %"007", 1\n\tret void\n}\n',
    '@"007" = global i32 0\n@p = global i32* @"007"\n',
]


# quoted strings that are not names — operand-bundle tags, section / partition / gc names, string attributes, inline-asm text, module-level asm,
# source_filename, target strings — holding a control byte, a double quote, a backslash and a non-UTF-8 byte: printed with LLVM's `\XX` escapes, one step
_ESC = 'a\\01b\\22c\\5Cd\\FFe'
ESCAPED_STRINGS = [
    'declare void @g()\n\ndefine void @f() {\n\tcall void @g() [ "%s"(), "t"(i32 1) ]\n\tret void\n}\n' % _ESC,
    '@g = global i32 0, section "%s", partition "%s"\n' % (_ESC, _ESC),
    'define void @f() section "%s" gc "%s" {\n\tret void\n}\n' % (_ESC, _ESC),
    'declare void @f() "%s"="%s" "%s"\n' % (_ESC, _ESC, _ESC),
    'define void @f() {\n\tcall void asm sideeffect "%s", "%s"()\n\tret void\n}\n' % (_ESC, "~{memory}"),
    'source_filename = "%s"\nmodule asm "%s"\n' % (_ESC, _ESC),
    'target datalayout = "%s"\ntarget triple = "%s"\n' % (_ESC, _ESC),
    '@s = constant [5 x i8] c"%s"\n' % 'a\\01\\22\\5C\\FF',
    '!0 = !{!"%s"}\n' % _ESC,
]


def respell(rng, text):
    """non-canonical spellings of the same module"""
    import re
    out = []
    for l in text.split("\n"):
        if rng.random() < 0.2:
            out.append("; a comment")
        if rng.random() < 0.3 and l and not l.startswith("\t"):
            l = l.replace(" = ", "   =  ", 1)
        if rng.random() < 0.3:
            l = re.sub(r"\bi32 (\d+)\b", lambda m: "i32 u0x%X" % int(m.group(1)) if rng.random() < 0.5 else "i32 0%s" % m.group(1), l, count=1)
        if rng.random() < 0.2:
            l = re.sub(r"@([A-Za-z_][\w.]*)", lambda m: chr(64) + chr(34) + m.group(1) + chr(34), l)
        am = re.match(r"attributes #(\d+) = \{ (.*) \}$", l)
        if am and rng.random() < 0.6:
            # the parser MERGES several definitions of one attribute group and drops repeated attributes: split the group in two
            # definitions that share an attribute, and/or repeat a string attribute in an escaped spelling ("k" == "\6B")
            attrs = re.findall(r'"[^"]*"(?:="[^"]*")?|\S+', am.group(2))
            k = rng.random()
            strs0 = [a for a in attrs if a.startswith('"')]
            if k < 0.3 and strs0:
                # the same attribute in a non-canonical SPELLING (no repeat): other groups may hold the canonical spelling of it
                a = rng.choice(strs0)
                attrs[attrs.index(a)] = re.sub(r'"([^"\\])', lambda m: '"\\%02X' % ord(m.group(1)), a, count=1)
                l = "attributes #%s = { %s }" % (am.group(1), " ".join(attrs))
            elif k < 0.6 and attrs:
                cut = rng.randint(1, len(attrs))
                out.append("attributes #%s = { %s }" % (am.group(1), " ".join(attrs[:cut])))
                l = "attributes #%s = { %s }" % (am.group(1), " ".join([rng.choice(attrs[:cut])] + attrs[cut:]))
            else:
                strs = [a for a in attrs if a.startswith('"')]
                if strs:
                    a = rng.choice(strs)
                    esc = re.sub(r'"([^"\\])', lambda m: '"\\%02X' % ord(m.group(1)), a, count=1)
                    i = attrs.index(a)
                    attrs.insert(rng.randint(i + 1, len(attrs)), esc)      # the repeat comes AFTER the first occurrence: order is kept
                    l = "attributes #%s = { %s }" % (am.group(1), " ".join(attrs))
        out.append(l + ("  " if rng.random() < 0.1 else ""))
    return "\n".join(out)


def gen(tier, rng, harness=None, driver=None):
    lines = []
    n = 120 if tier == "quick" else 6000
    # M-DI: constructed specialised metadata nodes are fixpoints of print -> parse -> print (`di.rt`); parsed nodes (fields in any order, repeated, at omitted
    # values) reach the canonical text in one step (`di.parse` against the proved translation)
    if driver is not None:
        from . import pC01
        lines += pC01.di_stream(rng, harness, driver, 60 if tier == "quick" else 2000)
    for _ in range(n):
        ts, gs = coregen.gen_core(rng)
        a = coregen.args(ts, gs)
        lines += ["core.reparse " + a, "!core.rt " + a]
    from . import core2gen
    for _ in range(n):
        ts, gs = core2gen.gen_core2(rng)
        lines += ["core2.reparse %s %s" % (ts, gs), "!core2.rt %s %s" % (ts, gs)]
        from . import core3gen
        a = " ".join(core3gen.gen_func(rng))
        lines += ["core3.reparse " + a, "!core3.rt " + a]
    # systematically (no random choice): integer constants of widths that are not a multiple of four, at the values the printer spells in
    # hexadecimal with a top digit that only partly fits the type (`i13 u0x1000`, `i33 u0x1FFFFFFFF`, `i31 u0x40000000`)
    for w in (5, 6, 7, 9, 10, 11, 13, 14, 15, 17, 23, 31, 33, 47, 63, 65, 127, 129):
        for v in sorted({2**(w - 1) - 1, 2**(w - 1), 2**(w - 2), 2**w - 1, 2**(w - 1) + 2**(w - 5)} | ({4096, 65535} if w > 16 else set())):
            a = "- 67:g:i%d=i%d" % (w, v)
            lines += ["core2.reparse " + a, "!core2.rt " + a]
    # inputs the parser accepts although LLVM would not: element annotations of an aggregate constant that differ from the element type of the aggregate
    # (they are kept as written); the printed text must still be a fixpoint
    from . import catalog as _cat
    # a function header with BOTH an alignment field and an alignment written as an attribute (`align 16 align=8`), in either order, on a declaration and a definition
    for kw, body in (("declare", ""), ("define", " {\n\tret void\n}")):
        for cl in ("align 16 align=8", "align=8 align 16", "align=8 align=4 align 2", "nounwind align=8 align 16 cold"):
            lines.append("!mod.stable - %s" % hx("%s void @f() %s%s\n" % (kw, cl, body)))
    # key-value attributes with an EMPTY value next to the bare string attribute of the same key (`"k"=""` and `"k"` are different attributes): in a group, in two
    # definitions of one group, on a function header, at a call site, on a global variable
    for body in ('"k"=""', '"k"="" "k"', '"k" "k"=""', '"k"="" "k"="" "k"'):
        lines.append("!mod.stable - %s" % hx('define void @f() #0 {\n\tret void\n}\n\nattributes #0 = { %s }\n' % body))
        lines.append("!mod.stable - %s" % hx('declare void @d() %s\n\n@g = global i32 0 %s\n\ndefine void @f() %s {\n\tcall void @d() %s\n\tret void\n}\n' % (body, body, body, body)))
    lines.append("!mod.stable - %s" % hx('define void @f() #0 {\n\tret void\n}\n\nattributes #0 = { "k"="" }\nattributes #0 = { "k" }\n'))
    # integer literals that do NOT fit their type (accepted and kept as written) at values the printer spells in hexadecimal: the printed text is read back as the same value
    for ty, v in (("i8", 4096), ("i8", 65535), ("i16", 2147483648), ("i1", 4096), ("i4", 61440), ("i32", 2**40), ("i63", 2**63), ("i64", 2**64), ("i8", -4096)):
        lines.append("!mod.stable - %s" % hx("@g = global %s %d\n@v = global <2 x %s> <%s %d, %s 1>\n" % (ty, v, ty, ty, v, ty)))
    for t in ILL_TYPED_ACCEPTED + QUOTED_DIGIT_NAMES + ESCAPED_STRINGS + _cat.bare_digit_identifiers():
        lines.append("!mod.stable - %s" % hx(t))
    from . import metagen
    lines += metagen.print_lines(rng, n)
    from . import wholegen
    lines += wholegen.print_lines(rng, n // 2)
    for t in modprops.corpus_texts():
        lines.append("!mod.stable - %s" % hx(t))
    # every construct of the one-construct catalogue (all enum keywords, attributes, instructions, constants, constant expressions,
    # debug-info nodes, named non-struct types, scalable vectors ...): the printed module must be accepted and be a fixpoint
    from . import catalog, regen
    for name, text, frags in catalog.all_entries(regen.enum_table(harness)):
        lines.append("!mod.stable - %s" % hx(text))
    for m, text, sk in modprops.gen_modules(rng, n):
        lines.append("!mod.stable %s %s" % (hx(sk), hx(text)))
        t2, _ = modgen.render(m, rng, shuffle=True)
        lines.append("!mod.stable %s %s" % (hx(sk), hx(respell(rng, t2))))
        lines.append("!mod.canon %s %s %s" % (hx(sk), hx(respell(rng, text)), hx(text)))
    return lines


nontrivial = pC01.nontrivial
search = pC01.search
