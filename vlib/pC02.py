"""C02 — printed output is a fixpoint of parse and print."""
from . import common as C
from . import modgen, modprops, coregen, gens
from .modprops import hx
from . import pC01

TRUSTED = pC01.TRUSTED
ASSUMPTIONS = pC01.ASSUMPTIONS
RULE = ("for M-Core modules: the model's re-parsed text equals the implementation's; for generated modules in canonical AND non-canonical spellings (shuffled top-level order, "
        "extra whitespace and comments, hexadecimal / leading-zero integer spellings, redundant quoting) and for the corpus: y = print(parse(x)) must be accepted, "
        "print(parse(y)) == y byte for byte and the second module must be a closed graph; non-trivial = distinct input text")


def respell(rng, text):
    """non-canonical spellings of the same module"""
    import re
    out = []
    for l in text.split("\n"):
        if rng.random() < 0.2:
            out.append("; a comment")
        if rng.random() < 0.3 and l and not l.startswith("\t"):
            l = l.replace(" = ", "   =  ", 1)
        if rng.random() < 0.3:
            l = re.sub(r"\bi32 (\d+)\b", lambda m: "i32 u0x%X" % int(m.group(1)) if rng.random() < 0.5 else "i32 0%s" % m.group(1), l, count=1)
        if rng.random() < 0.2:
            l = re.sub(r"@([A-Za-z_][\w.]*)", lambda m: chr(64) + chr(34) + m.group(1) + chr(34), l)
        out.append(l + ("  " if rng.random() < 0.1 else ""))
    return "\n".join(out)


def gen(tier, rng, harness=None):
    lines = []
    n = 120 if tier == "quick" else 6000
    for _ in range(n):
        ts, gs = coregen.gen_core(rng)
        a = coregen.args(ts, gs)
        lines += ["core.reparse " + a, "!core.rt " + a]
    for t in modprops.corpus_texts():
        lines.append("!mod.stable - %s" % hx(t))
    for m, text, sk in modprops.gen_modules(rng, n):
        lines.append("!mod.stable %s %s" % (hx(sk), hx(text)))
        t2, _ = modgen.render(m, rng, shuffle=True)
        lines.append("!mod.stable %s %s" % (hx(sk), hx(respell(rng, t2))))
        lines.append("!mod.canon %s %s %s" % (hx(sk), hx(respell(rng, text)), hx(text)))
    return lines


nontrivial = pC01.nontrivial
search = pC01.search
