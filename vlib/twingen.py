"""Twin modules for C04: the SAME function body twice in one module (as @f and @f2), over named types, parameters and globals, for every instruction and
terminator kind of the catalogue plus instructions whose result or operand types are named types. Anything that outlives the translation of one function
or of one module and is keyed by source text (an interned operand, a memoised type) hands the second function - or the second parse of the same text,
see harness op mod.closure2 - an object of the first."""
import re
from . import catalog

HEAD = ("%U = type { i32, i8 }\n%P = type { %U, i32 }\n\n@gv = global i32 0\n@gp = global %P zeroinitializer\n\n"
        "declare i32 @g(i32 %0)\n\ndeclare float @h(float %0)\n\ndeclare %U @id(%U %0)\n\n")

NAMED = [
    ("extractvalue-named", "%P %p", "%r = extractvalue %P %p, 0"),
    ("extractvalue-named-nested", "%P %p", "%r = extractvalue %P %p, 0, 1"),
    ("extractvalue-literal-of-named", "{ %U, i32 } %p", "%r = extractvalue { %U, i32 } %p, 0"),
    ("extractvalue-array-of-named", "[2 x %U] %p", "%r = extractvalue [2 x %U] %p, 1"),
    ("insertvalue-named", "%P %p, %U %u", "%r = insertvalue %P %p, %U %u, 0"),
    ("gep-named", "%P* %p, i32 %i", "%r = getelementptr %P, %P* %p, i32 %i, i32 0, i32 1"),
    ("gep-i32-local-index", "[4 x i32]* %p, i32 %i", "%r = getelementptr [4 x i32], [4 x i32]* %p, i32 0, i32 %i"),
    ("gep-i64-local-index", "[4 x i32]* %p, i64 %i", "%r = getelementptr inbounds [4 x i32], [4 x i32]* %p, i64 0, i64 %i"),
    ("gep-expr-index", "[4 x i32]* %p", "%r = getelementptr [4 x i32], [4 x i32]* %p, i32 0, i32 ptrtoint (i32* @gv to i32)"),
    ("gep-vector-index", "i32* %p, <2 x i32> %i", "%r = getelementptr i32, i32* %p, <2 x i32> %i"),
    ("load-named", "%U* %p", "%r = load %U, %U* %p"),
    ("store-named", "%U %u, %U* %p", "store %U %u, %U* %p"),
    ("alloca-named", "i32 %n", "%r = alloca %U, i32 %n"),
    ("call-named", "%U %u", "%r = call %U @id(%U %u)"),
    ("select-named", "i1 %c, %U %a, %U %b", "%r = select i1 %c, %U %a, %U %b"),
    ("bitcast-named", "%U* %p", "%r = bitcast %U* %p to %P*"),
    ("va_arg-named", "i8* %p", "%r = va_arg i8* %p, %U"),
    ("icmp-named-ptr", "%U* %a, %U* %b", "%r = icmp eq %U* %a, %b"),
    ("extractelement-named-ptr", "<2 x %U*> %v, i32 %i", "%r = extractelement <2 x %U*> %v, i32 %i"),
    ("insertelement-named-ptr", "<2 x %U*> %v, %U* %e, i32 %i", "%r = insertelement <2 x %U*> %v, %U* %e, i32 %i"),
    ("shufflevector-local-mask", "<2 x i32> %a, <2 x i32> %b", "%r = shufflevector <2 x i32> %a, <2 x i32> %b, <2 x i32> <i32 0, i32 3>"),
    ("freeze-named", "%U %u", "%r = freeze %U %u"),
    ("cmpxchg-locals", "i32* %p, i32 %a, i32 %b", "%r = cmpxchg i32* %p, i32 %a, i32 %b seq_cst seq_cst"),
    ("atomicrmw-locals", "i32* %p, i32 %a", "%r = atomicrmw add i32* %p, i32 %a seq_cst"),
    ("global-operands", "i32 %a", "%r = add i32 ptrtoint (i32* @gv to i32), %a"),
    ("named-global-operand", "i32 %a", "%r = load %P, %P* @gp"),
]


def twin_texts():
    """-> list of (name, text)"""
    out = []
    for name, param, inst in NAMED:
        body = "(%s) {\n\t%s\n\tret void\n}\n" % (param, inst)
        out.append(("twin.named." + name, HEAD + "define void @f" + body + "\ndefine void @f2" + body))
    for name, text, _ in catalog.inst_entries():
        if name.startswith("inst-md."):
            continue
        i = text.find("define ")
        if i < 0:
            continue
        fn = text[i:]
        fn2 = re.sub(r"@f(?=[(,])", "@f2", fn)
        out.append(("twin." + name, text.rstrip("\n") + "\n\n" + fn2))
    return out
