"""C20 — canonical, input-order-independent order of definitions (natural sort is a strict total order)."""
import itertools
from .gens import hx

TRUSTED = [
    "Lean 4.33 kernel; axioms: propext, Classical.choice, Quot.sound at most (see coverage.axioms_used)",
    "hand-written Lean model LlirModel/Natsort.lean of internal/natsort/natsort.go Less (index pair abstracted to the two remaining suffixes)",
    "sort.Sort is assumed to return a sorted permutation (nothing else); the driver's insertion sort stands for it",
    "Go harness ops_lit.go (natsort.Less / natsort.Strings through the verif hook)",
]
ASSUMPTIONS = ["Go string comparison is bytewise lexicographic"]
RULE = ("ops = natsort.Less on generated pairs, natsort.Strings on generated lists, order-law oracles on triples and numeric-reading oracles; strings mix digit "
        "runs (leading zeros, long runs, equal-length runs), letters, punctuation below '0' and above '9', shared prefixes; thorough adds all strings of length <= 3 "
        "over {0,1,9,a,.,:}; non-trivial = distinct op in which at least one argument contains a digit")

ALPHA = [b"0", b"1", b"9", b"a", b".", b":"]


def rstr(rng):
    parts = []
    for _ in range(rng.randint(0, 5)):
        k = rng.random()
        if k < 0.45:
            n = rng.choice([1, 1, 2, 3, 8, 19, 20, 25])
            d = "".join(rng.choice("0123456789") for _ in range(rng.randint(1, n)))
            if rng.random() < 0.4:
                d = "0" * rng.randint(1, 3) + d
            parts.append(d.encode())
        elif k < 0.8:
            parts.append(bytes(rng.choice(b"abxyzAZ_.$-") for _ in range(rng.randint(1, 3))))
        else:
            parts.append(bytes([rng.choice([0x2f, 0x3a, 0x20, 0x7f, 0x80, 0xff, 0x01, 0x30, 0x39])]))
    return b"".join(parts)


def mutate(rng, s):
    if not s or rng.random() < 0.2:
        return rstr(rng)
    s = bytearray(s)
    i = rng.randrange(len(s))
    k = rng.random()
    if k < 0.3:
        s[i] = rng.choice(b"0123456789a.:")
    elif k < 0.6:
        s[i:i] = rng.choice([b"0", b"00", b"1", b"a"])
    elif k < 0.8:
        del s[i]
    else:
        s = s[:i]
    return bytes(s)


def facts(res, harness):
    from . import regen
    r = regen.gen_facts(harness)
    return {"facts_regenerated_changed": r["facts_regenerated_changed"]}


TNAMES = [b"0", b"1", b"2", b"10", b"7", b".a", b"$s", b"-m", b"1a", b"2 b", b"!x", b"z9", b"z10", b"a", b"a2", b"a10", b"a02", b"T", b"struct.x", b"_", b"#h", b"9z", b"00x"]
CNAMES = [n for n in TNAMES if not n.isdigit()] + [b"c1", b"c01", b"c10"]
NNAMES = [b"llvm.x", b"a", b"a2", b"a10", b"a02", b"-m", b"$s", b".a", b"z9", b"z10", b"_1", b"m.1.2", b"m.1.10"]


def deforder_lines(rng, n):
    """the definitions of a module written in a random order (numbered type definitions among names that sort below the digits, between them and above them;
    comdats; named metadata; attribute group and metadata IDs): the printed module lists them in the order the model computes (theorem printed_order_canonical)"""
    lines = []
    for _ in range(n):
        ts = rng.sample(TNAMES, rng.randint(0, 9))
        cs = rng.sample(CNAMES, rng.randint(0, 6))
        ns = rng.sample(NNAMES, rng.randint(0, 6))
        ids = rng.sample([0, 1, 2, 3, 5, 9, 10, 11, 20, 100, 4294967296], rng.randint(0, 6))
        ms = rng.sample([0, 1, 2, 3, 5, 9, 10, 11, 20, 100, 4294967296], rng.randint(0, 6))
        g = lambda k, xs: k + ":" + (",".join(xs) or "-")
        lines.append("mod.deforder %s %s %s %s %s" % (g("T", [hx(x) for x in ts]), g("C", [hx(x) for x in cs]), g("N", [hx(x) for x in ns]), g("A", [str(i) for i in ids]), g("M", [str(i) for i in ms])))
    return lines


def gen(tier, rng, harness=None):
    lines = deforder_lines(rng, 300 if tier == "quick" else 20000)
    n = 1500 if tier == "quick" else 120000
    if tier == "thorough":
        univ = [b""] + [b"".join(t) for k in (1, 2, 3) for t in itertools.product(ALPHA, repeat=k)]
        for a in univ:
            for b in univ:
                lines.append("nat.less %s %s" % (hx(a), hx(b)))
        for _ in range(100000):
            a, b, c = rng.choice(univ), rng.choice(univ), rng.choice(univ)
            lines.append("!nat.law %s %s %s" % (hx(a), hx(b), hx(c)))
    for _ in range(n):
        a = rstr(rng)
        b = mutate(rng, a)
        c = mutate(rng, rng.choice([a, b]))
        lines.append("nat.less %s %s" % (hx(a), hx(b)))
        lines.append("nat.less %s %s" % (hx(b), hx(a)))
        lines.append("!nat.law %s %s %s" % (hx(a), hx(b), hx(c)))
        if rng.random() < 0.3:
            xs = [rstr(rng) if rng.random() < 0.5 else mutate(rng, a) for _ in range(rng.randint(2, 8))]
            lines.append("nat.sort " + " ".join(hx(x) for x in xs))
            lines.append("!nat.sorted " + " ".join(hx(x) for x in xs))
        if rng.random() < 0.3:
            p = rstr(rng)
            while p and p[-1:] in b"0123456789":
                p = p[:-1]
            s = rstr(rng)
            while s and s[:1] in b"0123456789":
                s = s[1:]
            m = rng.choice([0, 1, 9, 10, 99, 100, rng.randint(0, 10**rng.randint(1, 25))])
            k = rng.choice([m + 1, m * 10, max(m - 1, 0), rng.randint(0, 10**rng.randint(1, 25))])
            lines.append("!nat.num %s %d %d %s" % (hx(p), m, k, hx(s)))
    return lines


def nontrivial(ln, model_out):
    import re
    return any(re.search("3[0-9]", a) for a in ln.split()[1:])


def search(ln, a, b, harness, driver):
    if ln.startswith("mod.deforder"):
        # the printed order differs from the sorted order the property states: the operation (a module text) is the failing input
        return {"ops": [ln], "impl": [a], "model": [b]}
    return search_less(ln, a, b, harness, driver)


def search_less(ln, a, b, harness, driver):
    """a Less disagreement: look for a violated order law among the arguments and their neighbours"""
    from . import common as C
    import random
    args = ln.split()[1:]
    if ln.startswith("nat.sort"):
        c = "!nat.sorted " + " ".join(args)
        x = C.run_lines([harness, "run"], [c])[0]
        if x.split()[0] in ("FAIL", "panic"):
            return {"ops": [c], "impl": [x], "model": ["ok"]}
    rng = random.Random(hash(ln) & 0xffffff)
    raws = [bytes.fromhex(x) if x != "-" else b"" for x in args]
    pool = list(raws)
    for r in raws:
        for _ in range(12):
            pool.append(mutate(rng, r))
    cands = []
    for _ in range(400):
        x, y, z = rng.choice(pool), rng.choice(pool), rng.choice(pool)
        cands.append("!nat.law %s %s %s" % (hx(x), hx(y), hx(z)))
    impl = C.run_lines([harness, "run"], cands)
    for c, x in zip(cands, impl):
        if x.split()[0] in ("FAIL", "panic"):
            return {"ops": [c], "impl": [x], "model": ["ok"]}
    return None
