"""C03 — IR built through the constructors prints to valid, faithful LLVM assembly."""
from . import common as C
from . import coregen, pC01, pC06, pC08

TRUSTED = pC01.TRUSTED + ["constructor typing is the C06 model (resultIR) and its correspondence; numbering of constructed functions is the C08 model and its correspondence"]
ASSUMPTIONS = pC01.ASSUMPTIONS + ["construction programs are well-typed"]
RULE = ("construction programs over the public API: (a) M-Core modules built with NewTypeDef/NewGlobalDef/constant.Int: model text == printed text, re-parse gives the same "
        "names/widths/values and a stable text; (b) every instruction constructor on generated well-typed operand tuples: the constructor accepts and computes LLVM's type "
        "(typ.ok oracle of C06); (c) constructed functions of generated shapes are numbered like their parsed twins (num.check oracle of C08); non-trivial = distinct program")


def gen(tier, rng, harness, driver):
    lines = []
    n = 150 if tier == "quick" else 8000
    for _ in range(n):
        ts, gs = coregen.gen_core(rng)
        a = coregen.args(ts, gs)
        lines += ["core.print " + a, "!core.rt " + a]
    # constructors: reuse the C06 / C08 generators (oracle lines only)
    for l in pC06.gen("quick" if tier == "quick" else "thorough", rng, harness, driver)[: (600 if tier == "quick" else 40000)]:
        if l.startswith(("!typ.ok", "typ.ir")):
            lines.append(l)
    for l in pC08.gen("quick", rng, harness)[: (600 if tier == "quick" else 6000)]:
        if l.startswith(("!num.check", "num.api")):
            lines.append(l)
    return lines


nontrivial = pC01.nontrivial
search = pC01.search
