"""C03 — IR built through the constructors prints to valid, faithful LLVM assembly."""
from . import common as C
from . import coregen, pC01, pC06, pC07, pC08, pC10

TRUSTED = pC01.TRUSTED + ["constructor typing is the C06 model (resultIR) and its correspondence; numbering of constructed functions is the C08 model and its correspondence"]
ASSUMPTIONS = pC01.ASSUMPTIONS + ["construction programs are well-typed"]
RULE = ("construction programs over the public API: (a) M-Core modules built with NewTypeDef/NewGlobalDef/constant.Int: model text == printed text, re-parse gives the same "
        "names/widths/values and a stable text; (b) every instruction constructor on generated well-typed operand tuples: the constructor accepts and computes LLVM's type "
        "(typ.ok oracle of C06); (c) constructed functions of generated shapes are numbered like their parsed twins (num.check oracle of C08); (d) call / invoke / callbr built on callees of generated signatures "
        "(variadic or not, with 0..2 extra arguments): the type spelled at the call site equals the model's (proved to be read back by LLVM as the callee's signature); non-trivial = distinct program")


def facts(res, harness):
    """regenerated from the source (go/ast): every (*ir.Block).NewX is the pure delegation to the free constructor NewX"""
    from . import regen
    r = regen.gen_facts(harness)
    b = r["facts"].get("builders") or []
    for row in b:
        if not row["delegates"]:
            meth = row["name"] if "." in row["name"] else "Block." + row["name"]
            res.violation("(*ir.%s).%s is not the pure delegation to the free constructor %s: %s" % (meth.split(".")[0], meth.split(".")[1], meth.split(".")[1], row["why"]),
                          {"ops": [], "fact": row, "replay_hint": "cd /verif/harness && ./bin/harness facts | jq .builders"})
    return {"block_builders": len(b), "block_builders_not_delegating": [row["name"] for row in b if not row["delegates"]],
            "facts_regenerated_changed": r["facts_regenerated_changed"]}


def gen(tier, rng, harness, driver):
    lines = []
    n = 150 if tier == "quick" else 8000
    for _ in range(n):
        ts, gs = coregen.gen_core(rng)
        a = coregen.args(ts, gs)
        lines += ["core.print " + a, "!core.rt " + a]
    from . import core2gen
    for _ in range(n):
        ts, gs = core2gen.gen_core2(rng)
        lines += ["core2.print %s %s" % (ts, gs), "!core2.rt %s %s" % (ts, gs)]
        from . import core3gen
        a = " ".join(core3gen.gen_func(rng))
        lines += ["core3.print " + a, "!core3.rt " + a]
    # construction scenarios (constructors and builder methods only): values with special type state at several use sites; printed text must be
    # accepted and reproduced byte for byte by parse + print, and every registered value must report the stated type
    for name in C.run_lines([harness, "run"], ["api.list"])[0].split(","):
        lines.append("!api.fix " + name)
    # a constructed module printed (or only queried through Ident / String / Type / Operands of the expression), then a global variable and a function
    # RENAMED: the next print is the text of the same construction under the new names — for every kind of constant expression and aggregate constant
    for name in C.run_lines([harness, "run"], ["rename.list"])[0].split(","):
        for mode in "012":
            lines.append("!rename.ok %s %s" % (name, mode))
            if mode != "2":
                # (the same observers, then the ADDRESS SPACE of the global variable and the function is edited: the text is the one the edits give unobserved)
                lines.append("!edit.as %s %s" % (name, mode))
    # string-valued FIELDS set through the API at every site that prints one (section, gc, comdat, the syncscope of each of the five atomic kinds, asm strings, ...):
    # the text printed for the constructed module is accepted and the string comes back unchanged (quotes, backslashes, control and non-UTF-8 bytes)
    for sv in (b'wave"front\n', b"\\", b"bell\x07", b"\xff\x7f", b"plain"):
        lines.append("!rt.strsites %s" % sv.hex())
    # the calling-convention FIELD set to every number (keywords, the holes between them, the numbers beyond): printed text is accepted and read back as that number
    lines += ["!cc.rt %d" % n for n in range(0, 1101)]
    for site in ("call", "invoke", "callbr"):
        for kind in ("func", "param", "load", "bitcast", "alias", "asm"):
            for sg, nx in (("F(v;)", 0), ("F(i32;i8)", 0), ("G(i32;p0(i8))", 0), ("G(i32;p0(i8))", 2), ("G(v;)", 1), ("F(p0(F(v;));i32)", 0)):
                lines.append("cs.type %s %s %d %s" % (site, sg, nx, kind))
    # call sites: the callee type spelled by call / invoke / callbr for generated signatures (variadic or not, with and without extra arguments)
    from . import tygen
    for _ in range(300 if tier == "quick" else 20000):
        ret = tygen.gen_ty(rng, rng.randint(0, 2), True) if rng.random() < 0.7 else "v"
        ps = [tygen.gen_ty(rng, rng.randint(0, 2), True) for _ in range(rng.randint(0, 3))]
        var = rng.random() < 0.5
        lines.append("cs.type %s %s(%s;%s) %d" % (rng.choice(["call", "invoke", "callbr"]), "G" if var else "F", ret, ",".join(ps), rng.choice([0, 0, 1, 2]) if var else 0))
        # the same site with every KIND of callee value (the spelled type depends on the callee's type only, not on what the callee is)
        lines.append(lines[-1] + " " + rng.choice(["param", "load", "bitcast", "alias", "asm"]))
    # constructors: reuse the C06 / C08 generators (oracle lines only)
    lines += [l for l in pC06.gen("quick" if tier == "quick" else "thorough", rng, harness, driver) if l.startswith(("!typ.ok", "typ.ir"))][: (600 if tier == "quick" else 40000)]
    # getelementptr through the instruction constructor and the constant-expression constructor (every index form of C07): a well-typed construction is
    # accepted and typed as LLVM types it (a constructor that panics on a well-typed tuple fails the oracle)
    lines += [l for l in pC07.gen("quick" if tier == "quick" else "thorough", rng, harness, driver) if l.startswith(("!gep.ok", "gep.inst", "gep.expr"))][: (1500 if tier == "quick" else 60000)]
    # floating-point constants of every kind built by the constant constructors and printed: the literal denotes the value exactly (a decimal spelling only when exact)
    # (values for which the model predicts the recorded loss of a NaN payload belong to C10's finding, not to this property: left out)
    cand = [l for l in (pC10.gen("quick", rng, harness) if pC10.gen.__code__.co_argcount < 4 else pC10.gen("quick", rng, harness, driver)) if l.startswith("!flt.rt")]
    # (every kind takes part: all float and double lines — the kinds printed in decimal — and a share of the others)
    # (ppc_fp128 is left to C10: pairs are re-canonicalised — a recorded finding of C10 that the model cannot predict from the literal)
    cand = [l for l in cand if l.split()[1] in ("float", "double")] + [l for l in cand if l.split()[1] not in ("float", "double", "ppc_fp128")][: (600 if tier == "quick" else 20000)]
    lines += [l for l, pred in zip(cand, C.run_lines([driver], cand, shards=8)) if pred == "ok"]
    lines += [l for l in pC08.gen("quick", rng, harness, driver) if l.startswith(("!num.check", "num.api", "num.modapi"))][: (900 if tier == "quick" else 6000)]
    # every pair / triple of KINDS of unnamed global entity built through the Module builder methods, in every order (they share one ID sequence,
    # numbered in the order the module prints them: global variables, aliases, indirect functions, functions)
    import itertools
    for k in (2, 3):
        for ents in itertools.product(["G:u", "A:u", "I:u", "F:u", "D:u"], repeat=k):
            lines.append("num.modapi " + " ".join(ents))
            lines.append("!num.apiok " + " ".join(ents))
    return lines


def extra(res, findings, tier, rng, harness, driver):
    """"valid assembly" checked with LLVM 14 itself: the text printed for every construction scenario must be accepted by llvm-as"""
    from . import llvmref
    if not llvmref.available():
        return {"llvm_reference": {"available": False}}
    names = C.run_lines([harness, "run"], ["api.list"])[0].split(",")
    outs = C.run_lines([harness, "run"], ["api.text " + n for n in names])
    stats = {}
    for n, o in zip(names, outs):
        if o in ("skip", "panic") or not o:
            stats["skipped"] = stats.get("skipped", 0) + 1
            continue
        text = bytes.fromhex(o).decode("latin-1")
        _, st, msg = llvmref.assemble(text)
        stats[st] = stats.get(st, 0) + 1
        if st == "invalid":
            res.violation("constructed IR (scenario %s) prints text that LLVM 14 rejects: %s" % (n, msg), {"ops": ["!api.fix " + n], "printed": text, "reference": "llvm-as-14"})
    return {"llvm_reference": dict(stats, available=True, scenarios=len(names), tool="llvm-as-14")}


nontrivial = pC01.nontrivial


def search(ln, a, b, harness, driver):
    if ln.startswith("num.modapi") and a.startswith("panic"):
        # a module built through the builder methods cannot be printed: the operation itself is the failing input
        return {"ops": [ln], "impl": [a], "model": [b]}
    if ln.startswith("cs.type"):
        # the disagreeing operation IS the failing input: the spelled callee type differs from the one LLVM needs (theorem call_site_denotes_callee)
        return {"ops": [ln], "impl": [a], "model": [b]}
    return pC01.search(ln, a, b, harness, driver)
