"""C07 — getelementptr result types are computed correctly and consistently."""
from . import common as C

TRUSTED = [
    "Lean 4.33 kernel; axioms: propext, Quot.sound at most (see coverage.axioms_used)",
    "hand-written Lean model LlirModel/Gep.lean: gep.ResultType, the three getIndex classifiers (instruction constructor, constant expression, parser) and "
    "LLVMSpec.gepType transcribed from the LangRef (trusted transcription; VALIDATED on every run against llvm-as 14, see coverage.llvm_reference)",
    "identified structs are looked up in an environment; the harness fixes every %n = type { i32, %n* }",
    "Go harness ops_typing.go (three pipelines + gep.ResultType through the verif hook)",
]
ASSUMPTIONS = ["indices are well-typed for LLVM (LLVMSpec.gepType defined); struct indices are in range"]
RULE = ("source element types: nestings (depth <= 4) of arrays, vectors, packed/literal/identified structs; base: pointer or vector of pointers (fixed/scalable) in several "
        "address spaces; index lists of length 0..5 mixing i1/i8/i32/i64/i128 constants, zeroinitializer, splat and non-splat vectors, undef, poison, inrange, "
        "constant expressions and non-constant scalars/vectors; the three pipelines and gep.ResultType are compared with the model and the oracle demands all "
        "pipelines == LLVMSpec.gepType; non-trivial = distinct op with at least two indices")


def gen_elem(rng, depth):
    """(type descriptor, list of steps) where each step is ('arr'|'vec'|'struct', nfields/len, chosen)"""
    if depth <= 0 or rng.random() < 0.25:
        return rng.choice(["i8", "i32", "i64", "f2", "p0(i8)", "n61"]), []
    k = rng.random()
    if k < 0.35:
        sub, steps = gen_elem(rng, depth - 1)
        n = rng.choice([1, 2, 4, 10])
        return "a%d(%s)" % (n, sub), [("arr", n)] + steps
    if k < 0.45:
        e = rng.choice(["i8", "i32", "f2", "p0(i8)"])
        n = rng.choice([2, 4])
        return "V%d(%s)" % (n, e), [("vec", n)]
    if k < 0.9:
        nf = rng.randint(1, 3)
        pos = rng.randrange(nf)
        sub, steps = gen_elem(rng, depth - 1)
        fs = [rng.choice(["i8", "i32", "f2", "p0(i8)"]) for _ in range(nf)]
        fs[pos] = sub
        return "%s(%s)" % (rng.choice(["s", "P"]), ",".join(fs)), [("struct", pos)] + steps
    # identified struct { i32, %n* }
    pos = rng.choice([0, 1])
    return "n61", [("struct", pos)]


def idx_for(rng, step, vlen, scal, mode):
    """index descriptor for one step; vlen != 0 forces/permits vector indices of that length"""
    kind = step[0] if step else "arr"
    v = step[1] if kind == "struct" else rng.choice([0, 1, 2, 5]) if kind != "first" else rng.choice([0, 1, 3])
    if kind == "struct":
        forms = ["c32"]
        if vlen and not scal: forms += ["splat"]
        if v == 0: forms += ["zero", "zero" if vlen else "c32"]
        if mode == "wild" and rng.random() < 0.15: forms += ["inrange"]
        f = rng.choice(forms)
        if f == "c32": return "c:32:%d" % v
        if f == "splat": return "v:32:" + ",".join([str(v)] * vlen)
        if f == "zero": return "z:" + (("%s%d(i32)" % ("S" if scal else "V", vlen)) if vlen and rng.random() < 0.5 else "i32")
        if f == "inrange": return "r:c:32:%d" % v
    w = rng.choice([1, 8, 32, 64, 64, 128])
    forms = ["c", "c", "n"]
    if vlen: forms += ["nv", "nv"]
    if vlen and not scal: forms += ["v", "vs", "m"]
    if mode == "wild":
        forms += ["z", "u", "o", "ep", "ea", "r"]
        if vlen: forms += ["zv", "uv", "ov", "epv"]
    f = rng.choice(forms)
    vt = "%s%d(i%d)" % ("S" if scal else "V", vlen, 64 if w == 1 else w) if vlen else None
    if f == "c": return "c:%d:%d" % (w, v if w > 1 else v % 2)
    if f == "n": return "n:i%d" % (64 if w == 1 else w)
    if f == "nv": return "n:" + vt
    if f == "v": return "v:%d:%s" % (64 if w == 1 else w, ",".join(str(rng.choice([0, 1, 2])) for _ in range(vlen)))
    if f == "vs": return "v:%d:%s" % (64 if w == 1 else w, ",".join([str(v)] * vlen))
    if f == "m":
        # a literal vector with an element that is no integer literal (undef / poison), or a vector of booleans
        if rng.random() < 0.35:
            return "v:1:" + ",".join(str(rng.choice([0, 1])) for _ in range(vlen))
        es = [str(rng.choice([0, 1, 2])) for _ in range(vlen)]
        es[rng.randrange(vlen)] = rng.choice(["u", "o"])
        return "m:%d:%s" % (64 if w == 1 else w, ",".join(es))
    if f == "z": return "z:i64"
    if f == "u": return "u:i64"
    if f == "o": return "o:i64"
    if f == "ep": return "e:p:i64"
    if f == "ea": return "e:a:i64"
    if f == "r": return "r:c:64:%d" % v
    if f == "zv": return "z:" + vt
    if f == "uv": return "u:" + vt
    if f == "ov": return "o:" + vt
    if f == "epv": return "e:p:" + vt
    return "c:64:0"


def gen_case(rng):
    mode = "wild" if rng.random() < 0.45 else "tame"
    elem, steps = gen_elem(rng, rng.randint(0, 4))
    as_ = rng.choice([0, 0, 1, 3])
    k = rng.random()
    vlen, scal = 0, False
    if k < 0.25:
        vlen = rng.choice([2, 4]); scal = rng.random() < 0.3
        src = "%s%d(p%d(%s))" % ("S" if scal else "V", vlen, as_, elem)
    else:
        src = "p%d(%s)" % (as_, elem)
        if rng.random() < 0.3:
            vlen = rng.choice([2, 4]); scal = rng.random() < 0.25   # vector only through indices
    nsteps = rng.randint(0, len(steps))
    idxs = []
    if rng.random() < 0.92:
        idxs.append(idx_for(rng, ("first",), vlen, scal, mode))
        for st in steps[:nsteps]:
            idxs.append(idx_for(rng, st, vlen, scal, mode))
    if idxs and rng.random() < 0.06:
        # operands LLVM rejects (mismatching vector lengths, mixed fixed/scalable): no oracle applies (spec undefined or
        # not meaningful), but the three pipelines are still compared with the model (panic vs type)
        j = rng.randrange(len(idxs))
        idxs[j] = rng.choice(["n:V3(i64)", "n:S2(i64)", "z:V3(i32)", "u:S4(i64)", "v:64:1,1,1", "n:V2(i64)"])
    return elem, src, idxs


def raw_case(rng):
    elem, steps = gen_elem(rng, rng.randint(0, 3))
    src = rng.choice(["p0(%s)", "p2(%s)", "V2(p0(%s))", "V4(p1(%s))", "S2(p0(%s))"]) % elem
    raw = []
    n = rng.randint(0, len(steps) + 1)
    for i in range(n):
        hv = rng.random() < 0.7
        val = steps[i - 1][1] if (i > 0 and i - 1 < len(steps) and steps[i - 1][0] == "struct") else rng.choice([0, 1, 2])
        raw.append("%d:%d:%d:%d" % (1 if hv else 0, val if hv else 0, rng.choice([0, 0, 0, 2, 4]), rng.choice([0, 0, 1])))
    return "gep.rt %s %s %s" % (elem, src, " ".join(raw))


def systematic_cases():
    """vectors of ONE element (fixed and scalable) through every index form and through the base: the result is `<1 x T*>`, not `T*`"""
    out = []
    for elem, path in (("i32", []), ("a4(i32)", ["n:i64"]), ("s(i8,i32)", ["c:32:1"])):
        for v in ("V1", "S1"):
            for ix in ("n:%s(i64)" % v, "z:%s(i64)" % v, "u:%s(i32)" % v) + (("v:64:0",) if v == "V1" else ()):
                out.append((elem, "p0(%s)" % elem, [ix] + path))
                out.append((elem, "p1(%s)" % elem, ["n:i64"] + ([ix] if path and path[0].startswith("n:") else path)))
            out.append((elem, "%s(p0(%s))" % (v, elem), ["n:i64"] + path))
    return out


def gen(tier, rng, harness, driver):
    n = 500 if tier == "quick" else 50000
    cases = systematic_cases() + [gen_case(rng) for _ in range(n)]
    args = ["%s %s %s" % (e, s, " ".join(ix)) for e, s, ix in cases]
    spec = C.run_lines([driver], ["gep.spec " + a for a in args], shards=8)
    lines = []
    for a, sp in zip(args, spec):
        a = a.rstrip()
        for pl in ("inst", "expr", "asm"):
            lines.append("gep.%s %s" % (pl, a))
        if sp not in ("illtyped", "unknown-op"):
            lines.append("!gep.ok %s %s" % (a, sp))
    for _ in range(n // 2):
        lines.append(raw_case(rng).rstrip())
    # an index (or the base) whose vector type is written through a NAMED type (`%vec = type <2 x i64>`): the result is widened all the same; the use of the result
    # is written at LLVM's result type, so a parser that computes another type prints another text
    def hx(x): return x.encode().hex()
    for vty, rty in (("<2 x i64>", "<2 x i32*>"), ("<vscale x 4 x i32>", "<vscale x 4 x i32*>"), ("<1 x i8>", "<1 x i32*>")):
        t = ("%%vec = type %s\n\ndefine i32* @f([4 x i32]* %%p, %%vec %%i) {\n\t%%a = getelementptr [4 x i32], [4 x i32]* %%p, i64 0, %%vec %%i\n\t%%e = extractelement %s %%a, i32 0\n\tret i32* %%e\n}\n" % (vty, rty))
        lines.append("!mod.keeps %s %s" % (hx("%%e = extractelement %s %%a, i32 0" % rty), hx(t)))
    t = "%pv = type <2 x i32*>\n\ndefine i32* @f(%pv %b) {\n\t%a = getelementptr i32, %pv %b, i64 1\n\t%e = extractelement <2 x i32*> %a, i32 0\n\tret i32* %e\n}\n"
    lines.append("!mod.keeps %s %s" % (hx("%e = extractelement <2 x i32*> %a, i32 0"), hx(t)))
    return lines


def extra(res, findings, tier, rng, harness, driver):
    """LLVMSpec.gepType (transcribed by hand from the LangRef) validated against LLVM 14 itself: the getelementptr with its result USED at the expected
    type is handed to llvm-as; where LLVM accepts the instruction it must accept the use"""
    from . import llvmref
    if not llvmref.available():
        return {"llvm_reference": {"available": False}}
    cases = [gen_case(rng) for _ in range(400 if tier == "quick" else 8000)]
    args = [("%s %s %s" % (e, s_, " ".join(ix))).rstrip() for e, s_, ix in cases]
    spec = C.run_lines([driver], ["gep.spec " + a for a in args], shards=8)
    ops = ["gep.usetext %s %s" % (a, sp) for a, sp in zip(args, spec) if sp not in ("illtyped", "unknown-op")]
    outs = C.run_lines([harness, "run"], ops, shards=8)
    pairs = []
    for op, o in zip(ops, outs):
        p = o.split()
        if len(p) == 2:
            pairs.append((op, bytes.fromhex(p[0]).decode("latin-1"), bytes.fromhex(p[1]).decode("latin-1")))
    stats, bad = llvmref.validate_spec(pairs)
    for name, msg, use in bad:
        res.violation("LLVMSpec.gepType (the rule the theorems are stated against) disagrees with LLVM 14: %s: llvm-as rejects the use of the result at the expected type: %s" % (name, msg),
                      {"ops": [name], "llvm_input": use, "reference": "llvm-as-14"}, found_input=False)
    # the converse for ill-typed operand lists: where the spec is undefined LLVM must reject the instruction
    ill = ["gep.usetext %s 693332" % a for a, sp in zip(args, spec) if sp == "illtyped"]
    outs2 = C.run_lines([harness, "run"], ill, shards=8) if ill else []
    accepted_ill = []
    for op, o in zip(ill, outs2):
        p = o.split()
        if len(p) == 2:
            _, st, _ = llvmref.assemble(bytes.fromhex(p[0]).decode("latin-1"))
            if st == "ok":
                accepted_ill.append(op)
    for op in accepted_ill[:5]:
        res.violation("LLVMSpec.gepType is undefined on operands LLVM 14 accepts: %s" % op, {"ops": [op], "reference": "llvm-as-14"}, found_input=False)
    return {"llvm_reference": dict(stats, available=True, cases=len(pairs), ill_typed_checked=len(ill), ill_typed_accepted_by_llvm=len(accepted_ill), tool="llvm-as-14",
                                   what="LLVMSpec.gepType used at LLVM's own type check")}


def nontrivial(ln, model_out):
    return len(ln.split()) >= 5


def search(ln, a, b, harness, driver):
    p = ln.split()
    if p[0] == "gep.rt":
        return None
    sp = C.run_lines([driver], ["gep.spec " + " ".join(p[1:])])[0]
    if sp in ("illtyped", "unknown-op"):
        return None
    c = "!gep.ok " + " ".join(p[1:]) + " " + sp
    x = C.run_lines([harness, "run"], [c])[0]
    y = C.run_lines([driver], [c])[0]
    if x.split()[0] in ("FAIL", "panic") and y == "ok":
        return {"ops": [c], "impl": [x], "model": [y]}
    return None
