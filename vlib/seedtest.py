#!/usr/bin/env python3
"""Confirms a seeded change and runs the checks against it.
usage: seedtest.py <seed-id> <worktree-with-patch.diff> <demo-rel-path> <demo-cmd> <prop>[,<prop>...] [tier]
Keeps /verif/seeded/<seed-id>/{patch.diff, demo, meta.json}."""
import json, os, shutil, subprocess, sys, time
ENV = dict(os.environ, GOFLAGS="-mod=mod", GOPROXY="off", GOSUMDB="off", GOTOOLCHAIN="local")

def sh(cmd, cwd=None, timeout=1800):
    p = subprocess.run(cmd, shell=True, cwd=cwd, env=ENV, stdout=subprocess.PIPE, stderr=subprocess.STDOUT, text=True, errors='replace', timeout=timeout)
    return p.returncode, p.stdout

def main():
    sid, wt, demo_rel, demo_cmd, props = sys.argv[1:6]
    tier = sys.argv[6] if len(sys.argv) > 6 else "quick"
    dst = os.path.join("/verif/seeded", sid)
    os.makedirs(dst, exist_ok=True)
    if os.path.exists(os.path.join(wt, "patch.diff")):      # otherwise: re-run from what is already kept under seeded/<id>/
        shutil.copy(os.path.join(wt, "patch.diff"), os.path.join(dst, "patch.diff"))
        shutil.copy(os.path.join(wt, demo_rel), os.path.join(dst, os.path.basename(demo_rel)))
    if os.path.exists(os.path.join(wt, "NOTE.md")):
        shutil.copy(os.path.join(wt, "NOTE.md"), os.path.join(dst, "NOTE.md"))
    # independent confirmation in a fresh scratch worktree of /repo's HEAD
    scratch = "/tmp/confirm_" + sid
    sh("git -C /repo worktree remove --force %s" % scratch)
    rc, out = sh("git -C /repo worktree add -q --detach %s HEAD" % scratch)
    meta = {"seed": sid, "breaks": props.split(","), "demo": os.path.basename(demo_rel), "demo_cmd": demo_cmd, "ran": []}
    try:
        os.makedirs(os.path.dirname(os.path.join(scratch, demo_rel)), exist_ok=True)
        shutil.copy(os.path.join(dst, os.path.basename(demo_rel)), os.path.join(scratch, demo_rel))
        rc0, o0 = sh(demo_cmd, cwd=scratch)
        meta["ran"].append({"cmd": demo_cmd + " (original code)", "exit": rc0})
        rca, oa = sh("git apply %s" % os.path.join(dst, "patch.diff"), cwd=scratch)
        meta["ran"].append({"cmd": "git apply patch.diff", "exit": rca, "out": oa[-300:]})
        rc1, o1 = sh(demo_cmd, cwd=scratch)
        meta["ran"].append({"cmd": demo_cmd + " (with change)", "exit": rc1, "out": o1[-600:]})
        os.remove(os.path.join(scratch, demo_rel))
        rc2, o2 = sh("go build ./... && go test -vet=off -count=1 ./...", cwd=scratch)
        meta["ran"].append({"cmd": "go build ./... && go test -vet=off -count=1 ./... (with change, demo removed)", "exit": rc2, "out": o2[-300:] if rc2 else ""})
        meta["confirmed"] = (rc0 == 0 and rca == 0 and rc1 != 0 and rc2 == 0)
    finally:
        sh("git -C /repo worktree remove --force %s" % scratch)
    print("confirmed:", meta.get("confirmed"), [(r["cmd"][:40], r["exit"]) for r in meta["ran"]])
    # run our checks against it
    meta["checks"] = {}
    if meta.get("confirmed"):
        rc, out = sh("git -C /repo status --short")
        assert out.strip() == "", "repo not clean: " + out
        rc, out = sh("git -C /repo apply %s" % os.path.join(dst, "patch.diff"))
        try:
            for p in props.split(","):
                t0 = time.time()
                rc, out = sh("./check %s %s" % (p, tier), cwd="/verif", timeout=3600)
                vio = [l for l in out.splitlines() if l.startswith("VIOLATION")]
                det = [l for l in out.splitlines() if l.strip().startswith("detail:")]
                meta["checks"][p] = {"tier": tier, "exit": rc, "violations": len(vio), "first": (vio[0] if vio else ""), "detail": (det[0][:500] if det else ""),
                                     "wall_s": round(time.time() - t0, 1)}
                print(p, tier, "exit", rc, "violations", len(vio), (det[0][:300] if det else out[-300:]))
        finally:
            sh("git -C /repo checkout -- .")
            sh("git -C /repo clean -fdq -- . ':!verifhook'")
    json.dump(meta, open(os.path.join(dst, "meta.json"), "w"), indent=1)

if __name__ == "__main__":
    main()
