"""C14 — observing the IR never changes it."""
import itertools
from . import common as C

TRUSTED = [
    "Lean 4.33 kernel; axioms: propext, Quot.sound at most (see coverage.axioms_used)",
    "hand-written Lean model LlirModel/History.lean: a function under construction as the flat list of its slots (C08 model), edited by insert/remove/rename, observed "
    "by print (= the numbering pass; an error there is the panic of String()) and by pure queries; cached Typ/Successors fields are not modelled",
    "Go harness ops_hist.go replays the same histories on the real API (public fields are the editing API: slice splices on Block.Insts, SetName)",
]
ASSUMPTIONS = ["construction starts from a fresh function (no ID assigned yet)"]
RULE = ("random histories (length <= 30, thorough <= 120) of inserts of unnamed / named / void instructions at any position, removals, renames and un-names, with print and "
        "query observers interleaved at every position; every print's output (IDs or panic) is compared with the model; the oracle replays the history without observers "
        "and demands the same final print; thorough adds all histories of length <= 5 over 8 op forms; non-trivial = distinct history containing a print followed by an edit")


def gen_hist(rng, maxlen):
    kinds = []   # current instruction kinds
    toks = []
    for _ in range(rng.randint(1, maxlen)):
        k = rng.random()
        if k < 0.45 or not kinds:
            pos = rng.randint(0, len(kinds))
            kind = rng.choice("uuuns")
            kinds.insert(pos, kind)
            toks.append("i%d:%s" % (pos, kind))
        elif k < 0.55:
            pos = rng.randrange(len(kinds))
            del kinds[pos]
            toks.append("r%d" % pos)
        elif k < 0.65:
            cand = [i for i, x in enumerate(kinds) if x != "s"]
            if cand:
                pos = rng.choice(cand)
                f = rng.choice("01")
                kinds[pos] = "n" if f == "1" else "u"
                toks.append("n%d:%s" % (pos, f))
        elif k < 0.85:
            toks.append("p")
        else:
            toks.append("q")
    return toks


def append_only(rng, maxlen):
    """histories in which edits after a print only append at the end: the full property must hold"""
    toks, n = [], 0
    for _ in range(rng.randint(1, maxlen)):
        k = rng.random()
        if k < 0.6:
            toks.append("i%d:%s" % (n, rng.choice("uuns"))); n += 1
        elif k < 0.85:
            toks.append("p")
        else:
            toks.append("q")
    return toks


def facts(res, harness):
    """regenerated from the source (go/ast): constructors of Typ-caching structs settle the type themselves"""
    from . import regen
    r = regen.gen_facts(harness)
    rows = r["facts"].get("lazyctors") or []
    for row in rows:
        res.violation("ir.%s (%s) returns a %s whose cached Typ is neither set nor computed: the first observer (Type/String/print) decides what gets cached" %
                      (row["ctor"], row["file"], row["type"]), {"ops": [], "fact": row, "replay_hint": "cd /verif/harness && ./bin/harness facts | jq .lazyctors"})
    r_ow = r["facts"].get("observerwrites") or []
    ow = [x for x in r_ow if not ((x["method"] == "Succs" and x["field"] == "Successors") or x["type"] == "fmtWriter")]
    for row in ow:
        res.violation("(%s).%s in package %s stores into its receiver's field %s (line %d): an observer that caches makes the printed text depend on which queries were made before" %
                      (row["type"], row["method"], row["pkg"], row["field"], row["line"]), {"ops": [], "fact": row, "replay_hint": "cd /verif/harness && ./bin/harness facts | jq .observerwrites"})
    return {"lazy_constructors": rows, "observer_methods_storing_into_receiver": len(r_ow), "observer_stores_not_allowed": ow, "facts_regenerated_changed": r["facts_regenerated_changed"]}


FIELD_KINDS = ["func-addrspace", "func-sig", "global-addrspace", "global-contenttype", "alloca-addrspace", "alias-aliasee", "param-type", "invoke-invokee", "call-callee", "callbr-callee",
               "add-operands", "icmp-operands", "select-operands", "phi-incoming", "extractvalue-x", "gep-src", "cast-from",
               # the type object handed out by Type() is already part of ANOTHER entity (a parameter type): edits + observations must not change that entity
               "func-type-shared", "global-type-shared", "alloca-type-shared", "alias-type-shared"]


def gen(tier, rng, harness=None):
    # cached-type state (not part of the slot model): fields feeding a lazily computed type are edited after construction, with and without
    # interleaved pure observers (Type / String / Ident): the printed module must not depend on the observers
    lines = ["!hist.fobs %s" % k for k in FIELD_KINDS]
    # constructed modules that must print the same text twice in a row (a forward blockaddress of an unnamed block with and without global variables in the
    # module; float constants of every kind, whose printing must not change the value they hold)
    lines += ["!hist.twice %s" % k for k in C.run_lines([harness, "run"], ["hist.twice.list"])[0].split(",")]
    # NON-PRINT observers (String / Ident / Type of blocks, instructions, parameters and the function; Operands; Succs) on a never-printed function with an unnamed
    # entry block and unnamed values, then an edit that shifts the numbering, then the print: the text is the one the edit gives unobserved
    lines += ["!hist.qobs %s" % e for e in ("insert-front", "remove-first", "name-first", "append", "block-front", "param-front")]
    lines += ["!md.replace %d %d" % (n, i) for n in (1, 2, 3) for i in range(n)]
    lines.append("!md.prepend -")
    # renaming after a print / after pure queries of a constant expression (harness/ops_rename.go)
    for name in C.run_lines([harness, "run"], ["rename.list"])[0].split(","):
        for mode in "012":
            lines.append("!rename.ok %s %s" % (name, mode))
            if mode != "2":
                # (the same observers, then the ADDRESS SPACE of the global variable and the function is edited: the text is the one the edits give unobserved)
                lines.append("!edit.as %s %s" % (name, mode))
    # every sequence of up to 3 (quick) / 4 (thorough) edits out of three values per field (e.g. address space 5, 0, 3): a value that an observer
    # cached must be overwritten by the next edit, including the edit back to the zero value
    for k in FIELD_KINDS:
        for ln in range(1, 4 if tier == "quick" else 5):
            for seq in itertools.product(range(3), repeat=ln):
                if all(seq[i] != seq[i + 1] for i in range(ln - 1)):
                    lines.append("!hist.fobs %s %s" % (k, ",".join(map(str, seq))))
    n = 1500 if tier == "quick" else 60000
    ml = 30 if tier == "quick" else 120
    for _ in range(n):
        h = gen_hist(rng, rng.choice([4, 8, ml]))
        lines.append("hist.run " + " ".join(h))
        lines.append("!hist.obs " + " ".join(h))
        a = append_only(rng, 12)
        lines.append("!hist.obs " + " ".join(a))
    if tier == "thorough":
        forms = ["i0:u", "i1:u", "i0:n", "i0:s", "r0", "n0:0", "p", "q"]
        for k in range(1, 6):
            for h in itertools.product(forms, repeat=k):
                # validity of positions
                cnt, ok = 0, True
                for t in h:
                    if t.startswith("i"):
                        pos = int(t[1]);
                        if pos > cnt: ok = False; break
                        cnt += 1
                    elif t.startswith("r"):
                        if cnt < 1: ok = False; break
                        cnt -= 1
                    elif t.startswith("n"):
                        if cnt < 1: ok = False; break
                if ok and "p" in h:
                    lines.append("hist.run " + " ".join(h))
    return lines


def nontrivial(ln, model_out):
    t = ln.split()[1:]
    return "p" in t and any(x[0] in "irn" for x in t[t.index("p"):])


def search(ln, a, b, harness, driver):
    p = ln.split()
    c = "!hist.obs " + " ".join(p[1:])
    x = C.run_lines([harness, "run"], [c])[0]
    y = C.run_lines([driver], [c])[0]
    if x.split()[0] in ("FAIL", "panic") and y == "ok":
        return {"ops": [c], "impl": [x], "model": [y]}
    return None
