"""generator of M-Core-2 modules: struct type definitions (opaque or with a body) and global variables of any type whose
initialiser is an integer, zeroinitializer, null, undef or a nested struct / packed struct / array / vector constant.
Descriptors: see lean/LlirModel/Drv/Core2Ops.lean."""
from . import gens


def safe_name(rng, prefix):
    n = gens.rand_name(rng, 8)
    # names the theorem covers (TypeNameOK / non-empty): no NUL, not readable as a signed integer (recorded C11 finding on getTypeName)
    if not n or 0 in n or n.isdigit() or (n[:1] in (b"-", b"+") and n[1:].isdigit()):
        n = prefix + n.replace(b"\x00", b"")
    return n


def gen_ty(rng, depth, names, scalar_only=False):
    """type tree"""
    k = rng.random()
    if depth <= 0 or k < 0.3 or scalar_only:
        c = rng.random()
        if c < 0.55:
            return ("i", rng.choice([1, 1, 8, 16, 32, 64, 128, 7, 33]))
        if c < 0.7:
            return ("f", rng.randint(0, 5))
        if c < 0.85 and names:
            return ("p", rng.choice([0, 0, 1]), ("n", rng.choice(names)))
        return ("p", rng.choice([0, 0, 3]), ("i", 8))
    k = rng.random()
    if k < 0.2:
        e = gen_ty(rng, depth - 1, names) if rng.random() < 0.7 else ("F", rng.choice([("v",), ("i", 32)]), [gen_ty(rng, 0, names) for _ in range(rng.randint(0, 2))], rng.random() < 0.3)
        return ("p", rng.choice([0, 0, 0, 2]), e)
    if k < 0.35:
        e = rng.choice([("i", 1), ("i", 8), ("i", 32), ("i", 64), ("p", 0, ("i", 8))])
        return ("V", False, rng.choice([1, 2, 4]), e)
    if k < 0.55:
        return ("a", rng.choice([0, 1, 2, 3]), gen_ty(rng, depth - 1, names))
    if k < 0.9:
        return ("s", rng.random() < 0.3, [gen_ty(rng, depth - 1, names) for _ in range(rng.randint(0, 3))])
    if names:
        return ("n", rng.choice(names))
    return ("i", 32)


def ty_desc(t):
    k = t[0]
    if k == "i": return "i%d" % t[1]
    if k == "f": return "f%d" % t[1]
    if k == "v": return "v"
    if k == "p": return "p%d(%s)" % (t[1], ty_desc(t[2]))
    if k == "V": return "%s%d(%s)" % ("S" if t[1] else "V", t[2], ty_desc(t[3]))
    if k == "a": return "a%d(%s)" % (t[1], ty_desc(t[2]))
    if k == "s": return "%s(%s)" % ("P" if t[1] else "s", ",".join(ty_desc(x) for x in t[2]))
    if k == "n": return "n" + t[1].hex()
    if k == "F": return "%s(%s;%s)" % ("G" if t[3] else "F", ty_desc(t[1]), ",".join(ty_desc(x) for x in t[2]))
    raise ValueError(t)


def int_value(rng, w):
    if w == 1:
        return rng.choice([0, 1, 1, 0, -1])
    x = rng.choice([0, 1, -1, 42, 4096, 0x80000000, 0xFFFF, 10**9, -(2**(w - 1)), 2**w - 1, rng.randint(-2**(w - 1), 2**w - 1)])
    return max(-(2**(w - 1)), min(2**w - 1, x))


def gen_const(rng, t, bodies, depth=3):
    """constant descriptor of type t (bodies: name -> field type list / None for opaque, packed flag)"""
    k = t[0]
    z = rng.random()
    if k == "i":
        return "i%d" % int_value(rng, t[1]) if z < 0.8 else rng.choice(["z", "u"])
    if k == "f":
        return rng.choice(["z", "u"])
    if k == "p":
        return rng.choice(["n", "n", "z", "u"])
    if depth <= 0 or z < 0.15:
        return rng.choice(["z", "u"])
    if k == "V":
        return "V(%s)" % ",".join("%s=%s" % (ty_desc(t[3]), gen_const(rng, t[3], bodies, depth - 1)) for _ in range(t[2]))
    if k == "a":
        return "A(%s)" % ",".join("%s=%s" % (ty_desc(t[2]), gen_const(rng, t[2], bodies, depth - 1)) for _ in range(t[1]))
    if k == "s":
        return "%s(%s)" % ("Q" if t[1] else "S", ",".join("%s=%s" % (ty_desc(x), gen_const(rng, x, bodies, depth - 1)) for x in t[2]))
    if k == "n":
        body = bodies.get(t[1])
        if body is None:
            return "u"
        packed, fields = body
        return "%s(%s)" % ("Q" if packed else "S", ",".join("%s=%s" % (ty_desc(x), gen_const(rng, x, bodies, depth - 1)) for x in fields))
    return "u"


def gen_core2(rng):
    names, seen = [], set()
    for _ in range(rng.randint(0, 4)):
        n = safe_name(rng, b"T")
        if n in seen or not n or 0 in n:
            continue
        seen.add(n); names.append(n)
    bodies = {}
    tds = []
    for n in names:
        if rng.random() < 0.25:
            bodies[n] = None
            tds.append("%s:o" % n.hex())
        else:
            # a by-value field of a named type would need a layout order; use pointers and scalars only in bodies (plus nested literal aggregates)
            fields = [gen_ty(rng, 2, names, scalar_only=rng.random() < 0.4) for _ in range(rng.randint(0, 3))]
            fields = [f if f[0] != "n" else ("p", 0, f) for f in fields]
            packed = rng.random() < 0.25
            bodies[n] = (packed, fields)
            tds.append("%s:%s" % (n.hex(), ty_desc(("s", packed, fields))))
    gls, seen = [], set()
    defined = [n for n in names if bodies[n] is not None]
    for _ in range(rng.randint(0, 4)):
        n = safe_name(rng, b"g")
        if n in seen or not n or 0 in n:
            continue
        seen.add(n)
        t = gen_ty(rng, rng.randint(0, 3), names)
        # by-value use of a named type only when it has a body
        t = strip_opaque(t, bodies)
        gls.append("%s:%s:%s=%s" % (n.hex(), rng.choice(["g", "g", "c"]), ty_desc(t), gen_const(rng, t, bodies)))
    return "/".join(tds) or "-", "/".join(gls) or "-"


def strip_opaque(t, bodies):
    k = t[0]
    if k == "n":
        return t if bodies.get(t[1]) is not None else ("i", 32)
    if k == "a": return ("a", t[1], strip_opaque(t[2], bodies))
    if k == "s": return ("s", t[1], [strip_opaque(x, bodies) for x in t[2]])
    return t
