"""C16 — type equality is a structural equivalence matching LLVM type identity."""
from . import common as C
from . import tygen

TRUSTED = [
    "Lean 4.33 kernel; axioms: propext, Quot.sound at most (see coverage.axioms_used)",
    "hand-written Lean model LlirModel/Types.lean of ir/types/types.go (Equal, String) in the universe 'names unique, only structs named' (identified struct = leaf)",
    "hand-written Lean reader LlirModel/TyParse.lean of printed types: injectivity of the printer (on which PointerType.Equal relies) and the print->parse round trip are THEOREMS about it; "
    "it is compared with the real parser on printed types and on single-character structural mutants (ty.parse)",
    "enc.TypeName model (C11); fmt %d = decimal rendering",
    "Go harness ops_types.go (descriptor parser builds real types; named types are real self-referential struct objects)",
]
ASSUMPTIONS = ["type names are unique and only struct types are named (the property's universe)"]
RULE = ("ops = Equal / String on generated type pairs (random nesting depth <= 4 plus structurally-close mutants: width, scalability, packedness, variadicity, address space, "
        "length), law oracles on triples, injectivity oracles on pairs, print->parse oracles, reader-vs-parser stream on printed and mutated type texts; thorough adds all ordered pairs of a depth<=2 universe; non-trivial = "
        "distinct op with at least one composite type")


def parse_stream(tier, rng, driver):
    """texts of printed types (from the model's printer), as such and with one structural character deleted or replaced:
    the model's reader (TyParse.parse, proved to invert the printer) and the real parser must agree on accept/reject and on the type read"""
    from .gens import hx
    n = 300 if tier == "quick" else 20000
    descs = [tygen.gen_ty(rng, rng.randint(0, 4)) for _ in range(n)]
    descs = [d for d in descs if d != "v"]
    outs = C.run_lines([driver], ["ty.string %s" % d for d in descs], shards=8)
    lines = []
    for d, o in zip(descs, outs):
        if o in ("unknown-op", "-") or not o:
            continue
        text = bytes.fromhex(o)
        if d.startswith("F(") or d.startswith("G("):
            text += b"*"          # a function type is not a parameter type; its pointer is
        lines.append("ty.parse %s" % hx(text))
        if rng.random() < 0.5:
            # outside quoted names only (a quoted name may contain anything)
            # (an `x` only where it is the separator ` x `: the lexer of llir/ll SKIPS unknown words such as y86_fp80, which is
            # outside llir/llvm and not what this stream is about)
            pos = [i for i, c in enumerate(text) if (c in b"<>[]{}()" or text[i - 1:i + 2] == b" x ") and text[:i].count(b'"') % 2 == 0]
            if pos:
                i = rng.choice(pos)
                mut = text[:i] + (b"y" if text[i:i + 1] == b"x" else b"") + text[i + 1:]
                lines.append("ty.parse %s" % hx(mut))
    return lines


def gen(tier, rng, harness=None, driver=None):
    lines = parse_stream(tier, rng, driver)
    if tier == "thorough":
        U = tygen.small_universe() + ["s(i32,p0(n61))", "P(i32,p0(n61))", "s(i32,p0(n62))"]
        for a in U:
            lines.append("ty.string %s" % a)
            lines.append("!ty.rt %s" % a) if a != "v" else None
            for b in U:
                lines.append("ty.equal %s %s" % (a, b))
                lines.append("!ty.inj %s %s" % (a, b))
        for _ in range(30000):
            lines.append("!ty.laws %s %s %s" % (rng.choice(U), rng.choice(U), rng.choice(U)))
    # systematically: every pair of types that differ in exactly ONE attribute at the edge of its range — zero fields / zero length / zero parameters —
    # alone and inside every container (a special case for "empty" is where a comparison forgets an attribute)
    edge = [("s()", "P()"), ("s(s())", "s(P())"), ("a0(i32)", "a0(i64)"), ("a0(s())", "a0(P())"), ("F(v;)", "G(v;)"), ("F(s();)", "F(P();)"),
            ("V1(i32)", "S1(i32)"), ("p0(s())", "p0(P())"), ("p0(i8)", "p1(i8)"), ("s(i8)", "P(i8)"), ("a0(i8)", "a1(i8)"), ("V1(i8)", "a1(i8)")]
    for x, y in edge:
        for wrap in ("%s", "p0(%s)", "a2(%s)", "a0(%s)", "s(%s)", "P(i8,%s)", "F(v;%s)", "F(%s;i32)", "s(s(%s))"):
            a, b = wrap % x, wrap % y
            if "V1" in a and wrap in ("a2(%s)", "a0(%s)") and False:
                continue
            for l, r in ((a, b), (b, a)):
                lines.append("ty.equal %s %s" % (l, r))
                lines.append("!ty.inj %s %s" % (l, r))
                lines.append("ty.staged %s %s" % (l, r))
    # types built in STAGES the way a front end builds them (a struct shell pointed to before it has fields or a name, a function type before its variadic flag,
    # a pointer before its address space), printed and compared BETWEEN the stages: equality and text depend on the final structure only
    for x in ("n61", "p0(n61)", "s(i32,p0(n61))", "p0(s(i8,i16))", "p0(G(i32;p0(i8)))", "p0(F(i32;p0(i8)))", "p3(i8)", "s(p0(s()),p0(P()))", "a4(p0(n62))", "F(p0(n61);p0(n62))",
              "S4(i32)", "V4(p1(i8))", "P(p0(P(i8)))", "p0(p0(p0(s(i1))))"):
        for y in ("n61", "p0(n61)", "p0(s())", "p0(s(i32,p0(n61)))", "p0(F(i32;p0(i8)))", "p0(G(i32;p0(i8)))", "p0(s(i8,i16))", "p0(i8)", x):
            lines.append("ty.staged %s %s" % (x, y))
            lines.append("ty.staged %s %s" % (y, x))
    n = 800 if tier == "quick" else 40000
    for _ in range(n):
        a = tygen.gen_ty(rng, rng.randint(0, 4))
        b = tygen.mutate_ty(rng, a) if rng.random() < 0.7 else a
        if rng.random() < 0.12:
            # an identified struct against the literal struct with the very same body (the harness gives %n the body { i32, %n* })
            nm = "n" + rng.choice(tygen.NAMES).hex()
            twin = "%s(i32,p0(%s))" % (rng.choice(["s", "s", "P"]), nm)
            wrap = rng.choice(["%s", "p0(%s)", "a2(%s)", "s(%s)", "V2(p0(%s))", "F(%s;)"])
            a, b = wrap % nm, wrap % twin
            if rng.random() < 0.5:
                a, b = b, a
        c = tygen.mutate_ty(rng, rng.choice([a, b]))
        lines.append("ty.string %s" % a)
        lines.append("ty.equal %s %s" % (a, b))
        lines.append("ty.equal %s %s" % (b, a))
        lines.append("!ty.laws %s %s %s" % (a, b, c))
        lines.append("!ty.inj %s %s" % (a, b))
        lines.append("ty.staged %s %s" % (a, b))
        lines.append("ty.staged %s %s" % (b, a))
        fc = tygen.gen_ty(rng, rng.randint(0, 3), True)
        lines.append("!ty.rt %s" % fc)
    return lines


def extra(res, findings, tier, rng, harness, driver):
    """LLVM 14 as the reader of printed types: the text llir prints for a generated type (as a parameter of a declaration) and the text llir prints after
    reading it back must be the same type for LLVM"""
    from . import refstage, tygen
    descs = [tygen.gen_ty(rng, rng.randint(0, 4), True) for _ in range(200 if tier == "quick" else 5000)]
    outs = C.run_lines([harness, "run"], ["ty.text " + d for d in descs], shards=8)
    texts = [(d, bytes.fromhex(o).decode("latin-1")) for d, o in zip(descs, outs) if o and o not in ("panic", "unknown-op") and all(c in "0123456789abcdef" for c in o)]
    return refstage.run(res, findings, harness, "C16", texts)


def nontrivial(ln, model_out):
    return "(" in ln


def search(ln, a, b, harness, driver):
    p = ln.split()
    if p[0] == "ty.parse":
        return None
    if p[0] == "ty.staged":
        # Equal / String of a type built in stages differs from what its final structure determines: the operation (a construction history) is the failing input
        return {"ops": [ln], "impl": [a], "model": [b]}
    args = p[1:]
    cands = []
    for x in args:
        cands.append("!ty.rt %s" % x)
        for y in args:
            cands.append("!ty.inj %s %s" % (x, y))
            for z in args:
                cands.append("!ty.laws %s %s %s" % (x, y, z))
    impl = C.run_lines([harness, "run"], cands)
    for c, x in zip(cands, impl):
        if x.split()[0] in ("FAIL", "panic"):
            return {"ops": [c], "impl": [x], "model": ["ok"]}
    return None
