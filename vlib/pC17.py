"""C17 — metadata IDs are unique and references share node identity."""
import itertools
from . import common as C

TRUSTED = [
    "Lean 4.33 kernel; axioms: propext, Quot.sound at most (see coverage.axioms_used)",
    "hand-written Lean model LlirModel/MetaIDs.lean of Module.AssignMetadataIDs on the list of ID fields; the unbounded `for` loop of nextID is a well-founded "
    "recursion whose termination proof is part of the model",
    "reference identity in parsed modules (forward references, cycles, distinct, inline nodes, named-metadata merging, ascending definition order) is decided by the "
    "md.graph oracle on the implementation (pointer identity observed in-process); its Lean statement is the resolver theorem of C04",
    "Go harness ops_md.go",
]
ASSUMPTIONS = ["explicit metadata IDs are pairwise distinct (otherwise AssignMetadataIDs reports an error, which is also proved)"]
RULE = ("ID lists mixing explicit, sparse, negative and unassigned (-1) IDs incl. duplicates (all lists of length <= 5 over {-1,0,1,2,5} in thorough); metadata graphs "
        "with forward references, cycles, self references, distinct nodes, null/string/inline fields and repeated named metadata in shuffled textual order; "
        "non-trivial = distinct op with at least one unassigned and one explicit ID, or a graph with a cycle")


def gen_ids(rng):
    n = rng.randint(0, 8)
    pool = [-1, -1, -1, 0, 1, 2, 3, 5, 7, 10, 100, -5] + ([2**32, 2**32 + 1, 2**31] if rng.random() < 0.3 else [])
    ids = [rng.choice(pool) for _ in range(n)]
    if rng.random() < 0.7:   # make explicit ones distinct
        seen, out = set(), []
        for x in ids:
            if x != -1 and x in seen:
                x = -1
            seen.add(x)
            out.append(x)
        ids = out
    return ids


def gen_graph(rng):
    n = rng.randint(1, 7)
    # IDs of every magnitude: small, around 2^31 / 2^32 (incl. pairs congruent modulo 2^32) and up to 2^62
    pool = list(range(0, 12)) + [2**31 - 1, 2**31, 2**32 - 1, 2**32, 2**32 + 1, 2**32 + 5, 2**33, 2**40 + 3, 2**62]
    ids = rng.sample(pool, n) if rng.random() < 0.4 else rng.sample(range(0, 12), n)
    defs = []
    for i in ids:
        refs = []
        for _ in range(rng.randint(0, 4)):
            k = rng.random()
            refs.append(str(rng.choice(ids)) if k < 0.7 else rng.choice(["n", "s", "i"]))
        defs.append("%d%s:%s" % (i, "d" if rng.random() < 0.3 else "", ",".join(refs)))
    for _ in range(rng.randint(0, 3)):
        name = rng.choice(["foo", "llvm.dbg.cu", "a1", "x.y"]).encode().hex()
        defs.append("N%s:%s" % (name, ",".join(str(rng.choice(ids)) for _ in range(rng.randint(0, 3)))))
    rng.shuffle(defs)
    return " ".join(defs)


def gen(tier, rng, harness=None, driver=None):
    # definitions replaced between two prints (the list keeps its length): numbered, unique, referred to by ID
    repl = ["!md.replace %d %d" % (n, i) for n in (1, 2, 3, 4) for i in range(n)]
    from . import catalog as _c20
    def _hx(x): return (x if isinstance(x, bytes) else x.encode()).hex()
    repl += ["!mod.keeps %s %s" % (_hx("\x1f".join(f)), _hx(t)) for n, t, f in _c20.round20_entries() if n.startswith("diexpression.")]
    # specialised debug-info nodes: every field that references a numbered node must print that node's ID (`scope: !91`, `expr: !97`, ...),
    # and inline nodes must stay inline (the one-construct catalogue of C01, here for its reference fields)
    from . import catalog
    from .modprops import hx
    lines = ["!mod.keeps %s %s" % (hx("\x1f".join(frags or [])), hx(text)) for name, text, frags in catalog.DI]
    # M-DI: every kind of specialised node, distinct and not, with references in every reference-valued field (`distinct` and every `!N` must come back)
    from . import pC01
    lines += pC01.di_stream(rng, harness, driver, 60 if tier == "quick" else 2000)
    # M-Meta: whole metadata sections at byte level (proved: IDs unique and ascending in every accepted section, every reference denotes exactly one definition)
    from . import metagen
    lines += metagen.print_lines(rng, 150 if tier == "quick" else 6000)
    lines += metagen.parse_stream(rng, driver, 100 if tier == "quick" else 4000)
    n = 600 if tier == "quick" else 30000
    for _ in range(n):
        ids = gen_ids(rng)
        s = ",".join(map(str, ids)) or "-"
        lines.append("md.assign " + s)
        ex = [x for x in ids if x != -1]
        if len(ex) == len(set(ex)) and all(x >= 0 for x in ex):
            lines.append("!md.uniq " + s)
        lines.append("!md.graph " + gen_graph(rng))
    if tier == "thorough":
        for k in range(0, 6):
            for ids in itertools.product([-1, 0, 1, 2, 5], repeat=k):
                s = ",".join(map(str, ids)) or "-"
                lines.append("md.assign " + s)
                ex = [x for x in ids if x != -1]
                if len(ex) == len(set(ex)):
                    lines.append("!md.uniq " + s)
    return lines + repl


def graph_text(desc):
    """the module text of a `md.graph` descriptor (same rendering as the harness op)"""
    out = []
    for s_ in desc.split():
        p = s_.split(":", 1)
        refs = [r for r in (p[1].split(",") if len(p) > 1 and p[1] else [])]
        if p[0].startswith("N"):
            out.append("!%s = !{%s}" % (bytes.fromhex(p[0][1:]).decode(), ", ".join("!" + r for r in refs)))
            continue
        dist = p[0].endswith("d")
        i = p[0][:-1] if dist else p[0]
        fs = [{"n": "null", "s": '!"str"', "i": "!{}"}.get(r, "!" + r) for r in refs]
        out.append("!%s = %s!{%s}" % (i, "distinct " if dist else "", ", ".join(fs)))
    return "\n".join(out) + "\n"


def extra(res, findings, tier, rng, harness, driver):
    """LLVM 14 as the reader of metadata graphs: the graph LLVM builds from the input and from llir's output must be the same up to numbering and order
    (structural hashes refined over references: distinct nodes, sharing and cycles are told apart)"""
    from . import refstage, catalog
    texts = []
    def uniqued_cycle(desc):
        """a cycle through NON-distinct nodes only: LLVM uniques such nodes while their operands are still forward references, so what it builds depends on
        the ORDER of the definitions (`!2 = !{!11}` before / after `!11 = !{!11}` gives one node or two) - llir's canonical order (by ID) is then a
        different module for LLVM; not a graph LLVM's own printer ever emits, excluded from the comparison"""
        adj, dist = {}, set()
        for s_ in desc.split():
            p = s_.split(":", 1)
            if p[0].startswith("N"):
                continue
            i = p[0].rstrip("d")
            if p[0].endswith("d"):
                dist.add(i)
            adj[i] = [r for r in (p[1].split(",") if len(p) > 1 and p[1] else []) if r.isdigit()]
        color = {}
        def dfs(u):
            color[u] = 1
            for v in adj.get(u, []):
                if v in dist or v not in adj:
                    continue
                if color.get(v) == 1 or (color.get(v) is None and dfs(v)):
                    return True
            color[u] = 2
            return False
        return any(color.get(u) is None and u not in dist and dfs(u) for u in adj)
    skipped = 0
    for i in range(150 if tier == "quick" else 5000):
        g = gen_graph(rng)
        if uniqued_cycle(g):
            skipped += 1
            continue
        t = graph_text(g)
        # everything must be reachable for LLVM to keep it: one named metadata node listing every definition
        ids = [l.split(" ")[0] for l in t.split("\n") if l and l[1].isdigit()]
        texts.append(("graph-%d" % i, t + "!keep = !{%s}\n" % ", ".join(ids)))
    texts += [(n, t) for n, t, _ in catalog.DI]
    out = refstage.run(res, findings, harness, "C17", texts)
    out["llvm_reference"]["graphs_with_uniqued_cycles_excluded"] = skipped
    return out


def nontrivial(ln, model_out):
    p = ln.split()
    if p[0].endswith("md.graph"):
        return len(p) > 3
    return "-1" in ln and any(not t.startswith("-") for t in p[1].split(","))


def search(ln, a, b, harness, driver):
    p = ln.split()
    if not p[0].lstrip("!").startswith(("md.ids", "md.uniq", "md.assign")) or len(p) < 2 or not all(t.lstrip("-").isdigit() for t in p[1].split(",") if t and t != "-"):
        # (a disagreement on another op family — meta.*, di.*, mod.*: the op itself is the replay)
        return {"ops": [ln], "impl": [a], "model": [b]}
    ids = [int(x) for x in p[1].split(",")] if p[1] != "-" else []
    seen, out = set(), []
    for x in ids:
        if x < -1: x = -x
        if x != -1 and x in seen:
            x = -1
        seen.add(x)
        out.append(x)
    c = "!md.uniq " + (",".join(map(str, out)) or "-")
    x = C.run_lines([harness, "run"], [c])[0]
    if x.split()[0] in ("FAIL", "panic"):
        return {"ops": [c], "impl": [x], "model": ["ok"]}
    return None
