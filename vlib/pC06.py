"""C06 — result types agree with LLVM's typing rules, in parser and IR alike."""
from . import common as C
from . import tygen

TRUSTED = [
    "Lean 4.33 kernel; axioms: propext, Quot.sound at most (see coverage.axioms_used)",
    "hand-written Lean model LlirModel/Typing.lean: resultIR (Type() methods of ir/inst_*.go, terminator.go), resultAsm (asm newXxxInst), and LLVMSpec.resultType "
    "transcribed from the LangRef (an assumption of the theorems, not derived from LLVM's source; VALIDATED on every run against llvm-as 14: each expected type is handed to LLVM's own type check, see coverage.llvm_reference)",
    "operands are abstracted to their types; 25 representative kinds (binop stands for the 18 binary/bitwise instructions, cast for the 13 conversions)",
    "constant-expression Type() methods share the instruction rules (same text in ir/constant/expr_*.go); covered by correspondence only through gep (C07)",
    "Go harness ops_typing.go (constructors with parameter operands; parser leg through rendered one-instruction functions)",
]
ASSUMPTIONS = ["operand tuples are well-typed by LLVM's rules (LLVMSpec.wellTyped)"]
RULE = ("for each instruction kind, operand type tuples generated from a palette (ints, floats, pointers in several address spaces, fixed and scalable vectors, arrays, "
        "literal and identified structs, function pointers with and without varargs); model and implementation are compared on the IR-computed type and on the "
        "parser-attached type, and the oracle demands IR type == parser type == LLVMSpec type; non-trivial = distinct op whose operands include a composite type")

INTS = ["i1", "i8", "i32", "i64", "i128"]
FLOATS = ["f0", "f1", "f2", "f3", "f4", "f5"]


def scalar(rng):
    k = rng.random()
    if k < 0.4: return rng.choice(INTS)
    if k < 0.6: return rng.choice(FLOATS)
    return "p%d(%s)" % (rng.choice([0, 0, 1, 5]), rng.choice(INTS + FLOATS + ["n61", "F(i32;i8)", "G(v;)"]))


def vec_of(rng, e, n=None):
    return "%s%d(%s)" % (rng.choice(["V", "V", "S"]), n or rng.choice([1, 2, 4]), e)


def first_class(rng):
    k = rng.random()
    if k < 0.5: return scalar(rng)
    if k < 0.7: return vec_of(rng, rng.choice(INTS + FLOATS + ["p0(i8)"]))
    if k < 0.8: return "a%d(%s)" % (rng.choice([1, 3]), first_class(rng))
    if k < 0.95: return "%s(%s)" % (rng.choice(["s", "P"]), ",".join(first_class(rng) for _ in range(rng.randint(1, 3))))
    return "n61"


def agg_with_path(rng, depth=0, maxd=None):
    """(aggregate type, valid index path, element type); one path in four goes up to four levels deep"""
    if maxd is None:
        maxd = 2 if rng.random() < 0.75 else 4
    if depth >= maxd or (depth > 0 and rng.random() < (0.4 if maxd == 2 else 0.15)):
        t = first_class(rng) if rng.random() < 0.5 else rng.choice(INTS)
        return t, [], t
    if rng.random() < 0.5:
        sub, path, el = agg_with_path(rng, depth + 1, maxd)
        n = rng.choice([1, 2, 5])
        return "a%d(%s)" % (n, sub), [rng.randrange(n)] + path, el
    k = rng.randint(1, 3)
    pos = rng.randrange(k)
    sub, path, el = agg_with_path(rng, depth + 1, maxd)
    fields = [rng.choice(INTS + FLOATS) for _ in range(k)]
    fields[pos] = sub
    return "%s(%s)" % (rng.choice(["s", "P"]), ",".join(fields)), [pos] + path, el


def gen_case(rng):
    k = rng.choice(["fneg", "add", "fadd", "xor", "extractelement", "insertelement", "shufflevector", "extractvalue", "insertvalue", "alloca", "load",
                    "cmpxchg", "atomicrmw", "cast", "icmp", "fcmp", "phi", "select", "freeze", "call", "invoke", "vaarg", "landingpad", "catchpad",
                    "cleanuppad", "catchswitch", "callbr", "icmp", "fcmp", "shufflevector"])
    if k in ("fneg", "fadd"):
        t = rng.choice(FLOATS) if rng.random() < 0.5 else vec_of(rng, rng.choice(FLOATS))
        return k, [t] if k == "fneg" else [t, t]
    if k in ("add", "xor"):
        t = rng.choice(INTS) if rng.random() < 0.5 else vec_of(rng, rng.choice(INTS))
        return k, [t, t]
    if k == "extractelement":
        e = rng.choice(INTS + FLOATS + ["p0(i8)"])
        return k, [vec_of(rng, e), rng.choice(["i32", "i64"])]
    if k == "insertelement":
        e = rng.choice(INTS + FLOATS + ["p0(i8)"])
        return k, [vec_of(rng, e), e, rng.choice(["i32", "i64"])]
    if k == "shufflevector":
        e = rng.choice(INTS + FLOATS)
        sc = rng.choice(["V", "V", "S"])
        n, m = rng.choice([1, 2, 4]), rng.choice([1, 2, 4, 8])
        v = "%s%d(%s)" % (sc, n, e)
        return k, [v, v, "%s%d(i32)" % (sc, m)]
    if k == "extractvalue":
        t, path, _ = agg_with_path(rng)
        if not path: return gen_case(rng)
        return "extractvalue:" + ".".join(map(str, path)), [t]
    if k == "insertvalue":
        t, path, el = agg_with_path(rng)
        if not path: return gen_case(rng)
        return "insertvalue:" + ".".join(map(str, path)), [t, el]
    if k == "alloca":
        return "alloca:%d" % rng.choice([0, 0, 0, 5]), [first_class(rng)]
    if k == "load":
        t = first_class(rng)
        return k, [t, "p%d(%s)" % (rng.choice([0, 1]), t)]
    if k == "cmpxchg":
        t = rng.choice(INTS[1:] + ["p0(i8)"])
        return k, ["p0(%s)" % t, t, t]
    if k == "atomicrmw":
        t = rng.choice(INTS[1:])
        return k, ["p0(%s)" % t, t]
    if k == "cast":
        if rng.random() < 0.2:
            return k, ["p0(%s)" % rng.choice(INTS), "p0(%s)" % first_class(rng)]
        # every conversion instruction, scalar and (fixed / scalable) vector operands
        op = rng.choice(["trunc", "zext", "sext", "fptrunc", "fpext", "fptoui", "fptosi", "uitofp", "sitofp", "ptrtoint", "inttoptr", "bitcast", "addrspacecast"])
        a, b = {"trunc": ("i64", "i8"), "zext": ("i8", "i64"), "sext": ("i16", "i32"), "fptrunc": ("f2", "f1"), "fpext": ("f1", "f2"), "fptoui": ("f1", "i32"),
                "fptosi": ("f2", "i64"), "uitofp": ("i32", "f1"), "sitofp": ("i64", "f2"), "ptrtoint": ("p0(i8)", "i64"), "inttoptr": ("i64", "p0(i8)"),
                "bitcast": ("i32", "f1"), "addrspacecast": ("p0(i8)", "p1(i8)")}[op]
        if rng.random() < 0.6:
            sc, n = rng.choice(["V", "V", "S"]), rng.choice([1, 2, 4])
            a, b = "%s%d(%s)" % (sc, n, a), "%s%d(%s)" % (sc, n, b)
        return "cast:" + op, [a, b]
    if k == "icmp":
        e = rng.choice(INTS + ["p0(i8)", "p1(n61)"])
        t = e if rng.random() < 0.4 else vec_of(rng, e)
        return k, [t, t]
    if k == "fcmp":
        e = rng.choice(FLOATS)
        t = e if rng.random() < 0.4 else vec_of(rng, e)
        return k, [t, t]
    if k in ("phi", "freeze", "landingpad"):
        return k, [first_class(rng)]
    if k == "select":
        t = first_class(rng)
        return k, ["i1", t, t]
    if k in ("call", "invoke", "callbr"):
        ret = first_class(rng) if rng.random() < 0.7 else "v"
        ps = [rng.choice(INTS + FLOATS + ["p0(i8)"]) for _ in range(rng.randint(0, 3))]
        var = rng.random() < 0.3
        sig = "%s(%s;%s)" % ("G" if var else "F", ret, ",".join(ps))
        extra = [rng.choice(INTS[1:]) for _ in range(rng.randint(0, 2))] if var else []
        return k, ["p%d(%s)" % (rng.choice([0, 0, 2]), sig)] + ps + extra
    if k == "vaarg":
        return k, ["p0(i8)", first_class(rng)]
    return k, []


def use_stream(rng, driver, n):
    """`!typ.use` lines only (also part of C01: parse-then-print keeps the type at which a result is used)"""
    cases = systematic_cases() + [gen_case(rng) for _ in range(n)]
    spec = C.run_lines([driver], ["typ.spec %s %s" % (k, " ".join(ts)) for k, ts in cases], shards=8)
    return [("!typ.use %s %s" % (k, " ".join(ts))).rstrip() + " " + sp for (k, ts), sp in zip(cases, spec) if sp not in ("illtyped", "unknown-op")]


CASTS = {"trunc": ("i64", "i8"), "zext": ("i8", "i64"), "sext": ("i16", "i32"), "fptrunc": ("f2", "f1"), "fpext": ("f1", "f2"), "fptoui": ("f1", "i32"),
         "fptosi": ("f2", "i64"), "uitofp": ("i32", "f1"), "sitofp": ("i64", "f2"), "ptrtoint": ("p0(i8)", "i64"), "inttoptr": ("i64", "p0(i8)"),
         "bitcast": ("i32", "f1"), "addrspacecast": ("p0(i8)", "p1(i8)")}


INT_BINOPS = ["add", "sub", "mul", "udiv", "sdiv", "urem", "srem", "shl", "lshr", "ashr", "and", "or", "xor"]
FP_BINOPS = ["fadd", "fsub", "fmul", "fdiv", "frem"]


def systematic_cases():
    """every conversion and every binary instruction on a scalar, a fixed vector and a scalable vector operand: present in every run"""
    out = []
    for op in INT_BINOPS + FP_BINOPS:
        e = "i32" if op in INT_BINOPS else "f2"
        for t in (e, "V4(%s)" % e, "S2(%s)" % e):
            out.append(("add:" + op, [t, t]))
    for k, tys in (("fneg", ["f1"]), ("icmp", ["i64", "i64"]), ("fcmp", ["f2", "f2"]), ("select", ["i1", "i32", "i32"])):
        out.append((k, tys))
        for sc, n in (("V", 4), ("S", 2)):
            w = lambda t: "%s%d(%s)" % (sc, n, t)
            out.append((k, [w(t) for t in tys]))
    for sc in ("V", "S"):
        out.append(("extractelement", ["%s4(i32)" % sc, "i32"]))
        out.append(("insertelement", ["%s4(i32)" % sc, "i32", "i64"]))
        out.append(("shufflevector", ["%s4(i32)" % sc, "%s4(i32)" % sc, "%s2(i32)" % sc]))
    for op, (a, b) in sorted(CASTS.items()):
        out.append(("cast:" + op, [a, b]))
        for sc, n in (("V", 4), ("S", 2)):
            out.append(("cast:" + op, ["%s%d(%s)" % (sc, n, a), "%s%d(%s)" % (sc, n, b)]))
    # pointer casts whose TARGET differs from the source in more than the one thing the cast is about (the result is the target type as written, whatever the source)
    for a, b in (("p0(i8)", "p1(i32)"), ("p0(s(i32,i8))", "p3(i8)"), ("p2(i8)", "p0(a4(i16))"), ("p1(F(i32;i8))", "p0(i8)"), ("p0(i8)", "p5(p0(i8))"), ("p0(n61)", "p1(i8)")):
        out.append(("cast:addrspacecast", [a, b]))
        out.append(("cast:addrspacecast", ["V2(%s)" % a, "V2(%s)" % b]))
    for a, b in (("p0(i8)", "p0(i64)"), ("p1(i8)", "p1(s(i32))"), ("p0(F(v;))", "p0(i8)"), ("p0(n61)", "p0(i8)"), ("V2(i32)", "i64"), ("i64", "V4(i16)"), ("V2(p0(i8))", "V2(p0(i32))")):
        out.append(("cast:bitcast", [a, b]))
    for a, b in (("p1(i32)", "i32"), ("p0(s(i8))", "i8"), ("V2(p1(i8))", "V2(i16)")):
        out.append(("cast:ptrtoint", [a, b]))
        out.append(("cast:inttoptr", [b, a]))
    return out


def alias_cases():
    """operand types under a NAME (`%A = type <4 x i32>`) at the positions whose type does not become the result type: the result must be the plain type
    LLVM computes, never a type that inherits the operand's name"""
    A, B = "N4130", "N4231"          # %A0, %B1
    out = []
    for v in ("V4(i32)", "S2(i64)", "V2(p0(i8))"):
        out.append(("icmp", ["%s(%s)" % (A, v)] * 2))
    for v in ("V4(f2)", "S2(f1)"):
        out.append(("fcmp", ["%s(%s)" % (A, v)] * 2))
    out.append(("select", ["%s(V2(i1))" % A, "V2(i32)", "V2(i32)"]))
    out.append(("select", ["%s(i1)" % A, "i64", "i64"]))
    for sc in ("V", "S"):
        out.append(("extractelement", ["%s(%s4(i32))" % (A, sc), "%s(i32)" % B]))
        out.append(("insertelement", ["%s4(i32)" % sc, "%s(i32)" % A, "%s(i64)" % B]))
        out.append(("shufflevector", ["%s4(i32)" % sc, "%s4(i32)" % sc, "%s(%s2(i32))" % (A, sc)]))
        out.append(("shufflevector", ["%s(%s4(f1))" % (A, sc)] * 2 + ["%s(%s8(i32))" % (B, sc)]))
    for op in ("trunc", "zext", "fptosi", "sitofp", "ptrtoint", "bitcast", "addrspacecast"):
        a, b = CASTS[op]
        out.append(("cast:" + op, ["%s(%s)" % (A, a), b]))
        out.append(("cast:" + op, ["%s(V4(%s))" % (A, a), "V4(%s)" % b]))
    out.append(("load", ["i32", "%s(p0(i32))" % A]))
    out.append(("load", ["V4(f1)", "%s(p1(V4(f1)))" % A]))
    out.append(("extractvalue:1", ["%s(s(i32,V2(i8)))" % A]))
    out.append(("extractvalue:0.1", ["%s(a2(s(i8,i64)))" % A]))
    # index paths of three and four levels through every sequence of array and struct levels (each level has its own element types, the path never takes the
    # first element twice in the same way): a walk that re-applies, skips or reorders an index lands on another type
    import itertools
    for depth in (3, 4):
        for word in itertools.product("as", repeat=depth):
            t, path, el = "f1", [], "f1"
            for lvl, ch in enumerate(reversed(word)):
                if ch == "a":
                    t, path = "a%d(%s)" % (lvl + 2, t), [lvl + 1] + path
                else:
                    fields = ["i%d" % (8 * (lvl + 1))] * (lvl % 2 + 1) + [t]
                    t, path = "s(%s)" % ",".join(fields), [len(fields) - 1] + path
            out.append(("extractvalue:" + ".".join(map(str, path)), ["%s(%s)" % (A, t)]))
            out.append(("insertvalue:" + ".".join(map(str, path)), [t, el]))          # (the result IS the aggregate type: written without the alias)
    return out


def gen(tier, rng, harness, driver):
    # call sites spelled with a NAMED signature (`%sig = type i32 (i32, ...)`): the parser's type is the callee's return type
    sig = ["!sig.alias %s %s %s" % (site, rv, var) for site in ("call", "invoke", "callbr") for rv in ("v", "i") for var in ("0", "1")]
    n = 700 if tier == "quick" else 60000
    cases = systematic_cases() + alias_cases() + [gen_case(rng) for _ in range(n)]
    spec = C.run_lines([driver], ["typ.spec %s %s" % (k, " ".join(ts)) for k, ts in cases], shards=8)
    lines = []
    for (k, ts), sp in zip(cases, spec):
        args = " ".join(ts)
        lines.append(("typ.ir %s %s" % (k, args)).rstrip())
        lines.append(("typ.asm %s %s" % (k, args)).rstrip())
        lines.append(("typ.expr %s %s" % (k, args)).rstrip())
        if sp not in ("illtyped", "unknown-op"):
            lines.append(("!typ.ok %s %s" % (k, args)).rstrip() + " " + sp)
            lines.append(("!typ.use %s %s" % (k, args)).rstrip() + " " + sp)
    # result type of call / invoke / callbr for every KIND of callee value (function, parameter, loaded pointer, bitcast expression, alias, inline asm): the result
    # is the return type of the function type the callee operand POINTS TO, whatever the callee is (model: LlirModel/CallSite.lean)
    for site in ("call", "invoke", "callbr"):
        for kind in ("func", "param", "load", "bitcast", "alias", "asm"):
            for sg, nx in (("F(v;)", 0), ("F(i32;i8)", 0), ("G(i32;p0(i8))", 0), ("G(i32;p0(i8))", 2), ("G(v;)", 1), ("F(p0(F(v;));i32)", 0)):
                lines.append("cs.type %s %s %d %s" % (site, sg, nx, kind))
    # the PARSER's result type of a call / invoke whose return type is a pointer to a function, written by the return type alone: the result used at that type
    from . import catalog
    for name, text, frags in catalog.round13_entries():
        if "returns-function-pointer" in name:
            lines.append("!mod.keeps %s %s" % ("\x1f".join(frags).encode().hex(), text.encode().hex()))
    return lines + sig


def extra(res, findings, tier, rng, harness, driver):
    """the expected types (LLVMSpec, transcribed by hand from the LangRef) validated against LLVM 14 itself: the instruction with its result USED at the
    expected type is handed to llvm-as; where LLVM accepts the instruction it must accept the use"""
    from . import llvmref
    if not llvmref.available():
        return {"llvm_reference": {"available": False}}
    cases = systematic_cases() + [gen_case(rng) for _ in range(300 if tier == "quick" else 6000)]
    spec = C.run_lines([driver], ["typ.spec %s %s" % (k, " ".join(ts)) for k, ts in cases], shards=8)
    ops = [("typ.usetext %s %s" % (k, " ".join(ts))).rstrip() + " " + sp for (k, ts), sp in zip(cases, spec) if sp not in ("illtyped", "unknown-op")]
    outs = C.run_lines([harness, "run"], ops, shards=8)
    pairs = []
    for op, o in zip(ops, outs):
        p = o.split()
        if len(p) == 2:
            pairs.append((op, bytes.fromhex(p[0]).decode("latin-1"), bytes.fromhex(p[1]).decode("latin-1")))
    stats, bad = llvmref.validate_spec(pairs)
    for name, msg, use in bad:
        res.violation("LLVMSpec (the typing rule the theorems are stated against) disagrees with LLVM 14: %s: llvm-as rejects the use of the result at the expected type: %s" % (name, msg),
                      {"ops": [name], "llvm_input": use, "reference": "llvm-as-14"}, found_input=False)
    return {"llvm_reference": dict(stats, available=True, cases=len(pairs), tool="llvm-as-14", what="LLVMSpec result types used at LLVM's own type check")}


def nontrivial(ln, model_out):
    return "(" in ln


def search(ln, a, b, harness, driver):
    p = ln.split()
    if p[0] == "cs.type":
        # the disagreeing operation IS the failing input: the type computed (and spelled) for the call site is not the one LLVM's rule gives
        return {"ops": [ln], "impl": [a], "model": [b]}
    sp = C.run_lines([driver], ["typ.spec " + " ".join(p[1:])])[0]
    if sp in ("illtyped", "unknown-op"):
        return None
    c = "!typ.ok " + " ".join(p[1:]) + " " + sp
    x = C.run_lines([harness, "run"], [c])[0]
    y = C.run_lines([driver], [c])[0]
    if x.split()[0] in ("FAIL", "panic") and y == "ok":
        return {"ops": [c], "impl": [x], "model": [y]}
    return None
