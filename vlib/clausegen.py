"""Optional clauses crossed: every PAIR of optional clauses of a global variable, of a function header and of a call / invoke site, and the full cross of
the clauses of the memory instructions (load, store, alloca, cmpxchg, atomicrmw, fence, getelementptr) and of metadata attachments on every terminator.

The catalogue has each keyword once, alone. A printer that drops, misplaces or re-orders one clause only when ANOTHER clause is present (each clause is an
`if` of its own in the LLString methods, and their order is LLVM's grammar order, which the parser of LLVM enforces) is visible only on such pairs: the text
written in LLVM's order must be accepted, every clause must still be in the output (`mod.keeps`), and LLVM 14 must read input and output as the same module."""
import itertools

MD = "\n!0 = !{}\n!1 = !{!0}\n"


def _pairs(slots):
    """slots: list of (slot name, [choices]); a choice is (label, text, fragment). Yields (label, {slot: choice}) for every pair of slots and every choice"""
    for (i, (na, ca)), (j, (nb, cb)) in itertools.combinations(enumerate(slots), 2):
        for a in ca:
            for b in cb:
                yield "%s+%s" % (a[0], b[0]), {na: a, nb: b}
    for n, cs in slots:
        for c in cs:
            yield c[0], {n: c}


def _get(sel, slot):
    return sel[slot][1] if slot in sel else ""


def _frags(sel):
    return [c[2] for c in sel.values() if c[2]]


GLOBAL_SLOTS = [
    ("linkage", [("internal", "internal ", "internal "), ("weak_odr", "weak_odr ", "weak_odr "), ("private", "private ", "private ")]),
    ("preempt", [("dso_local", "dso_local ", "dso_local "), ("dso_preemptable", "dso_preemptable ", "dso_preemptable ")]),
    ("vis", [("hidden", "hidden ", "hidden "), ("protected", "protected ", "protected ")]),
    ("dll", [("dllexport", "dllexport ", "dllexport ")]),
    ("tls", [("tls", "thread_local ", "thread_local "), ("tls-ie", "thread_local(initialexec) ", "thread_local(initialexec) ")]),
    ("uaddr", [("unnamed_addr", "unnamed_addr ", "unnamed_addr "), ("local_unnamed_addr", "local_unnamed_addr ", "local_unnamed_addr ")]),
    ("as", [("addrspace", "addrspace(3) ", "addrspace(3) ")]),
    ("extinit", [("externally_initialized", "externally_initialized ", "externally_initialized ")]),
    ("mut", [("constant", "constant", "constant i32 0")]),            # `constant` instead of `global` (crossed with every other clause)
    ("section", [("section", ', section "s"', 'section "s"')]),
    ("partition", [("partition", ', partition "p"', 'partition "p"')]),
    ("comdat", [("comdat", ", comdat", "comdat"), ("comdat-other", ", comdat($c)", "comdat($c)")]),
    ("align", [("align", ", align 8", "align 8")]),
    ("md", [("md", ", !dbg !0", "!dbg !0"), ("md2", ", !a !0, !b !1", "!a !0, !b !1")]),
]


def global_entries():
    out = []
    for label, sel in _pairs(GLOBAL_SLOTS):
        g = lambda s: _get(sel, s)
        text = ("$c = comdat any\n\n$g = comdat any\n\n@g = %s%s%s%s%s%s%s%s%s i32 0%s%s%s%s%s\n" %
                (g("linkage"), g("preempt"), g("vis"), g("dll"), g("tls"), g("uaddr"), g("as"), g("extinit"), g("mut") or "global", g("section"), g("partition"), g("comdat"), g("align"), g("md"))) + MD
        out.append(("clause.global." + label, text, _frags(sel)))
        if "linkage" not in sel and "comdat" not in sel and "mut" not in sel:
            # the same clauses on a DECLARATION (no initialiser)
            for ext in ("external", "extern_weak"):
                text = ("@g = %s %s%s%s%s%s%s%sglobal i32%s%s%s%s\n" %
                        (ext, g("preempt"), g("vis"), g("dll"), g("tls"), g("uaddr"), g("as"), g("extinit"), g("section"), g("partition"), g("align"), g("md"))) + MD
                out.append(("clause.global-decl.%s.%s" % (ext, label), text, _frags(sel) + [ext + " "]))
    return out


SYM_SLOTS = [s for s in GLOBAL_SLOTS if s[0] in ("linkage", "preempt", "vis", "dll", "tls", "uaddr", "partition")]


def symbol_entries():
    """aliases and ifuncs: every pair of their optional clauses"""
    out = []
    for label, sel in _pairs(SYM_SLOTS):
        g = lambda s: _get(sel, s)
        head = "%s%s%s%s%s%s" % (g("linkage"), g("preempt"), g("vis"), g("dll"), g("tls"), g("uaddr"))
        out.append(("clause.alias." + label, "@g = global i32 0\n\n@a = %salias i32, i32* @g%s\n" % (head, g("partition")), _frags(sel)))
        out.append(("clause.ifunc." + label, "@i = %sifunc void (), void ()* ()* @r%s\n\ndefine void ()* @r() {\n\tret void ()* null\n}\n" % (head, g("partition")), _frags(sel)))
    return out


FUNC_SLOTS = [
    ("linkage", [("internal", "internal ", "internal "), ("linkonce_odr", "linkonce_odr ", "linkonce_odr ")]),
    ("preempt", [("dso_local", "dso_local ", "dso_local ")]),
    ("vis", [("hidden", "hidden ", "hidden "), ("protected", "protected ", "protected ")]),
    ("dll", [("dllexport", "dllexport ", "dllexport ")]),
    ("cc", [("fastcc", "fastcc ", "fastcc "), ("cc10", "cc 10 ", "ghccc "), ("amdgpu_kernel", "amdgpu_kernel ", "amdgpu_kernel ")]),
    ("retattr", [("noalias", "noalias ", "noalias "), ("deref", "dereferenceable(8) ", "dereferenceable(8) ")]),
    ("uaddr", [("unnamed_addr", " unnamed_addr", " unnamed_addr"), ("local_unnamed_addr", " local_unnamed_addr", " local_unnamed_addr")]),
    ("as", [("addrspace", " addrspace(2)", " addrspace(2)")]),
    ("fattr", [("nounwind", " nounwind", " nounwind"), ("group", " #0", " #0"), ("strattr", ' "k"="v"', '"k"="v"'), ("alignstack", " alignstack(8)", "alignstack(8)")]),
    ("section", [("section", ' section "s"', 'section "s"')]),
    ("partition", [("partition", ' partition "p"', 'partition "p"')]),
    ("comdat", [("comdat", " comdat", " comdat"), ("comdat-other", " comdat($c)", "comdat($c)")]),
    ("align", [("align", " align 16", " align 16")]),
    ("gc", [("gc", ' gc "shadow-stack"', 'gc "shadow-stack"')]),
    ("prefix", [("prefix", " prefix i32 1", "prefix i32 1")]),
    ("prologue", [("prologue", " prologue i8 2", "prologue i8 2")]),
    ("personality", [("personality", " personality i8* bitcast (i32 (...)* @pers to i8*)", "personality i8* bitcast (i32 (...)* @pers to i8*)")]),
    ("md", [("md", " !dbg !2", "!dbg !2")]),
]


def func_entries():
    out = []
    for label, sel in _pairs(FUNC_SLOTS):
        g = lambda s: _get(sel, s)
        head = ("%s%s%s%s%s%si8* @f(i8* %%p)%s%s%s%s%s%s%s%s%s%s%s" %
                (g("linkage"), g("preempt"), g("vis"), g("dll"), g("cc"), g("retattr"), g("uaddr"), g("as"), g("fattr"), g("section"), g("partition"), g("comdat"),
                 g("align"), g("gc"), g("prefix"), g("prologue"), g("personality")))
        text = ("$c = comdat any\n\n$f = comdat any\n\ndeclare i32 @pers(...)\n\ndefine %s%s {\n\tret i8* %%p\n}\n\nattributes #0 = { noinline }\n" % (head, g("md")) + MD +
                '!2 = distinct !DISubprogram(name: "f", unit: !3)\n!3 = distinct !DICompileUnit(language: DW_LANG_C99, file: !4)\n!4 = !DIFile(filename: "a", directory: "b")\n')
        out.append(("clause.func." + label, text, _frags(sel)))
    return out


DECL_SLOTS = [("md", [("md", " !a !0", "!a !0"), ("md2", " !a !0 !b !1", "!a !0 !b !1")]),
              ("linkage", [("extern_weak", "extern_weak ", "extern_weak "), ("external", "external ", "external ")])] + \
             [(n, [c for c in cs if c[0] != "amdgpu_kernel"]) for n, cs in FUNC_SLOTS if n in ("preempt", "vis", "dll", "cc", "retattr", "uaddr", "as", "fattr", "section", "align", "gc")]


def decl_entries():
    """function DECLARATIONS: metadata attachments come before the header (`declare !a !0 extern_weak i8* @f(i8*)`), every pair of optional clauses"""
    out = []
    for label, sel in _pairs(DECL_SLOTS):
        g = lambda s: _get(sel, s)
        head = ("declare%s %s%s%s%s%s%si8* @f(i8* %%0)%s%s%s%s%s%s" %
                (g("md"), g("linkage"), g("preempt"), g("vis"), g("dll"), g("cc"), g("retattr"), g("uaddr"), g("as"), g("fattr"), g("section"), g("align"), g("gc")))
        out.append(("clause.decl." + label, head + "\n\nattributes #0 = { noinline }\n" + MD, _frags(sel)))
    return out


CALL_SLOTS = [
    ("tail", [("tail", "tail ", "tail call"), ("notail", "notail ", "notail call")]),
    ("fmf", [("nnan", "nnan ", "nnan "), ("fast", "fast ", "fast ")]),
    ("cc", [("fastcc", "fastcc ", "fastcc "), ("cc10", "cc 10 ", "ghccc ")]),
    ("retattr", [("noundef", "noundef ", "noundef ")]),
    ("as", [("addrspace", "addrspace(0) ", None)]),
    ("argattr", [("argattr", "noundef ", "float noundef %a")]),
    ("fattr", [("nounwind", " nounwind", " nounwind"), ("group", " #0", " #0"), ("strattr", ' "k"', '"k"')]),
    ("bundle", [("bundle", ' [ "deopt"(i32 1) ]', '[ "deopt"(i32 1) ]'), ("bundles", ' [ "deopt"(i32 1), "x"() ]', '[ "deopt"(i32 1), "x"() ]')]),
    ("md", [("md", ", !dbg !0", "!dbg !0"), ("md2", ", !a !0, !b !1", "!a !0, !b !1")]),
]


def call_entries():
    out = []
    for label, sel in _pairs(CALL_SLOTS):
        g = lambda s: _get(sel, s)
        cc = g("cc")
        for site in ("call", "invoke"):
            if site == "invoke" and ("tail" in sel or "fmf" in sel):
                continue
            if site == "call":
                inst = "%%r = %scall %s%s%s%sfloat @g(float %s%%a)%s%s%s\n\tret float %%r" % (g("tail"), g("fmf"), cc, g("retattr"), g("as"), g("argattr"), g("fattr"), g("bundle"), g("md"))
            else:
                inst = ("%%r = invoke %s%s%sfloat @g(float %s%%a)%s%s\n\t\tto label %%ok unwind label %%lp%s\n\nok:\n\tret float %%r\n\nlp:\n\t%%e = landingpad { i8*, i32 }\n\t\tcleanup\n\tret float 0.0" %
                        (cc, g("retattr"), g("as"), g("argattr"), g("fattr"), g("bundle"), g("md")))
            text = ("declare %sfloat @g(float %%0)\n\ndefine float @f(float %%a) personality i8* null {\n\t%s\n}\n\nattributes #0 = { noinline }\n" % (cc, inst)) + MD
            out.append(("clause.%s.%s" % (site, label), text, _frags(sel)))
    return out


def mem_entries():
    """full cross of the clauses of the memory instructions"""
    out = []
    def fn(name, params, body, frags):
        out.append(("clause." + name, "define void @f(%s) {\n\t%s\n\tret void\n}\n" % (params, body) + MD, frags))
    B = (False, True)
    for atomic, vol, scope, md in itertools.product(B, B, B, B):
        if scope and not atomic:
            continue
        tail = ("%s %s, align 4" % (' syncscope("agent")' if scope else "", "acquire")).replace("  ", " ") if atomic else ", align 4"
        inst = "%%v = load %s%si32, i32* %%p%s%s" % ("atomic " if atomic else "", "volatile " if vol else "", tail, ", !nontemporal !1, !dbg !0" if md else "")
        fn("load.%d%d%d%d" % (atomic, vol, scope, md), "i32* %p", inst, [inst])
        tail = ("%s %s, align 4" % (' syncscope("agent")' if scope else "", "release")).replace("  ", " ") if atomic else ", align 4"
        inst = "store %s%si32 7, i32* %%p%s%s" % ("atomic " if atomic else "", "volatile " if vol else "", tail, ", !nontemporal !1, !dbg !0" if md else "")
        fn("store.%d%d%d%d" % (atomic, vol, scope, md), "i32* %p", inst, [inst])
    for pre, n, al, asp, md in itertools.product(("", "inalloca ", "swifterror "), B, B, B, B):
        ty = "i8*" if pre == "swifterror " else "i32"
        inst = "%%v = alloca %s%s%s%s%s%s" % (pre, ty, ", i32 %n" if n else "", ", align 8" if al else "", ", addrspace(5)" if asp else "", ", !dbg !0" if md else "")
        fn("alloca.%s.%d%d%d%d" % (pre.strip() or "plain", n, al, asp, md), "i32 %n", inst, [inst])
    for weak, vol, scope, al, md in itertools.product(B, B, B, B, B):
        inst = "%%v = cmpxchg %s%si32* %%p, i32 1, i32 2%s acq_rel monotonic%s%s" % ("weak " if weak else "", "volatile " if vol else "", ' syncscope("agent")' if scope else "", ", align 8" if al else "", ", !dbg !0" if md else "")
        fn("cmpxchg.%d%d%d%d%d" % (weak, vol, scope, al, md), "i32* %p", inst, [inst])
    for op in ("xchg", "add", "umax", "fadd"):
        for vol, scope, al, md in itertools.product(B, B, B, B):
            t, v = ("float", "1.0") if op == "fadd" else ("i32", "1")
            inst = "%%v = atomicrmw %s%s %s* %%p, %s %s%s seq_cst%s%s" % ("volatile " if vol else "", op, t, t, v, ' syncscope("agent")' if scope else "", ", align 16" if al else "", ", !dbg !0" if md else "")
            fn("atomicrmw.%s.%d%d%d%d" % (op, vol, scope, al, md), "%s* %%p" % t, inst, [inst])
    for scope, md in itertools.product(B, B):
        inst = "fence%s seq_cst%s" % (' syncscope("agent")' if scope else "", ", !dbg !0" if md else "")
        fn("fence.%d%d" % (scope, md), "i32 %a", inst, [inst])
    for inb, md in itertools.product(B, B):
        inst = "%%v = getelementptr %s{ i32, [4 x i8] }, { i32, [4 x i8] }* %%p, i64 1, i32 1, i64 2%s" % ("inbounds " if inb else "", ", !dbg !0" if md else "")
        fn("gep.%d%d" % (inb, md), "{ i32, [4 x i8] }* %p", inst, [inst])
    # metadata attachments on every terminator kind
    terms = [("ret", "ret void"), ("br", "br label %b1"), ("condbr", "br i1 %c, label %b1, label %b2"), ("switch", "switch i32 %a, label %b1 [\n\t\ti32 1, label %b2\n\t]"),
             ("indirectbr", "indirectbr i8* %t, [label %b1, label %b2]"), ("unreachable", "unreachable"), ("resume", "resume { i8*, i32 } undef")]
    for name, t in terms:
        for md, frag in ((", !dbg !0", "!dbg !0"), (", !prof !1, !dbg !0", "!prof !1, !dbg !0")):
            text = "define void @f(i1 %%c, i32 %%a, i8* %%t) personality i8* null {\n\t%s%s\n\nb1:\n\tret void\n\nb2:\n\tret void\n}\n" % (t, md) + MD
            out.append(("clause.term.%s.%d" % (name, md.count("!") // 2), text, [t.split("\n")[0], frag]))
    return out


def all_entries():
    return global_entries() + symbol_entries() + func_entries() + decl_entries() + call_entries() + mem_entries()
