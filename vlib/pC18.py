"""C18 — every enumerated keyword maps back to the value that printed it."""
from . import common as C
from . import regen

TRUSTED = [
    "Lean 4.33 kernel (decide +kernel over regenerated finite tables; no extra axioms), propext/Quot.sound at most",
    "the table generator: harness enumgen (go/ast over ir/enum/enum.go, ir/types/types.go, asm/enum) + the generated Go program that evaluates every constant, "
    "its String() and the parser's XFromString(String()); keywords are carried as base-256 numbers (encoding done in vlib/regen.py)",
    "hand-written Lean model LlirModel/Flags.lean of diFlagsString / dispFlagsString / allocKindString and of the parser's OR-fold, tied by the flags.* streams",
    "printing paths that wrap String() (callingConvString, dwarfTagString, tlsModelString, uwtable) are covered by correspondence on whole modules (C01), not by this table",
]
ASSUMPTIONS = ["each enum value is printed through its String() method (stringer -linecomment output) and parsed through asm/enum XFromString"]
RULE = ("the keyword tables are complete by construction (every constant of every enumerated type, regenerated from source); dynamic part: flag-set printers and "
        "print->parse oracles on all subsets of the low 12 masks (thorough), random 64-bit subsets of defined masks and random raw values; non-trivial = distinct op "
        "whose flag value has at least two bits set")


def facts(res, harness):
    return regen.gen_enums(harness)


def gen(tier, rng, harness=None):
    lines = []
    di_bits = [2, 3, 4, 5, 6, 7, 8, 9, 10, 11, 12, 13, 14, 15, 16, 17, 18, 19, 20, 22, 23, 24, 25, 26, 27, 28, 29]
    disp_bits = [0, 1, 2, 3, 4, 5, 6, 7, 8, 9, 11]
    alloc_bits = [0, 1, 2, 3, 4, 5]
    if tier == "thorough":
        for v in range(0, 4096):
            lines += ["flags.disp %d" % v, "flags.di %d" % v]
            if v & 1024 == 0:
                lines.append("!flags.rt disp %d" % v)
            lines.append("!flags.rt di %d" % v)
        for v in range(0, 64):
            lines += ["flags.alloc %d" % v, "!flags.rt alloc %d" % v]
    # calling conventions by NUMBER (printed by the hand-written helper ir/helper.go callingConvString: keyword, or `cc N` for a number without one): every value
    # 0..1100 set in the field of a declaration and of a call site is read back as that value
    lines += ["!cc.rt %d" % n for n in range(0, 1101)]
    # enum members printed INSIDE a structured attribute by a hand-written String method (`uwtable(sync)`, `uwtable(async)`, `allockind("…")`, `memory`-like forms):
    # the catalogue entries `enumattr.*` must keep the member they were written with
    from . import catalog
    def hx(x): return (x if isinstance(x, bytes) else x.encode()).hex()
    for name, text, frags in catalog.round17_entries():
        if name.startswith("enumattr."):
            lines.append("!mod.keeps %s %s" % (hx("\x1f".join(frags)), hx(text)))
    # keywords in situ: a FloatType that was printed as one kind prints its current kind after an edit (all ordered pairs of the 6 kinds)
    lines += ["!kw.floathist %d %d" % (a, b) for a in range(6) for b in range(6)]
    n = 300 if tier == "quick" else 20000
    for _ in range(n):
        for ty, bits in (("disp", disp_bits), ("di", di_bits), ("alloc", alloc_bits)):
            v = 0
            for b in rng.sample(bits, rng.randint(0, min(len(bits), 6))):
                v |= 1 << b
            if ty == "di" and rng.random() < 0.5:
                v |= rng.randint(0, 3)
            lines.append("flags.%s %d" % (ty, v))
            lines.append("!flags.rt %s %d" % (ty, v))
        # raw values (possibly undefined bits): printers must still agree with the model
        lines.append("flags.disp %d" % rng.getrandbits(rng.choice([4, 12, 16, 40])))
        lines.append("flags.di %d" % rng.getrandbits(rng.choice([4, 12, 30, 40])))
        lines.append("flags.alloc %d" % rng.getrandbits(8))
    return lines


def nontrivial(ln, model_out):
    p = ln.split()
    try:
        return bin(int(p[-1])).count("1") >= 2
    except ValueError:
        return False


def search(ln, a, b, harness, driver):
    p = ln.split()
    ty = p[0].split(".")[1]
    v = int(p[1])
    cands = []
    # the smallest subsets of v's defined bits are the most readable failing inputs
    bits = [i for i in range(64) if v >> i & 1]
    for i in bits:
        cands.append("!flags.rt %s %d" % (ty, 1 << i))
    cands.append("!flags.rt %s %d" % (ty, v))
    impl = C.run_lines([harness, "run"], cands)
    model = C.run_lines([driver], cands)
    for c, x, y in zip(cands, impl, model):
        if x.split()[0] in ("FAIL", "panic") and y == "ok":
            return {"ops": [c], "impl": [x], "model": [y]}
    return None
