"""The LLVM-reference stage shared by the properties: for every input text LLVM 14 accepts, llir must accept it, LLVM must accept what llir prints, and
`llvm-as | llvm-dis` of input and output must be the same text (up to metadata numbering). Validation of the tie between the properties' wording
("valid LLVM IR", "denotes the same module/value/name") and LLVM itself; never a substitute for a theorem."""
import re
from . import common as C
from . import llvmref
from .modprops import hx


def run(res, findings, harness, prop, texts, key="llvm_reference"):
    if not llvmref.available():
        return {key: {"available": False}}
    texts = list(texts)
    # the recorded findings of this stage are re-run on every run
    texts += [("finding:" + f["id"], f["input"]) for f in findings.data["findings"] if f["property"] == prop and f.get("class") == "llvm-reference" and f.get("input")
              and not f.get("own_stage")]
    outs = C.run_lines([harness, "run"], ["mod.print %s" % hx(t) for _, t in texts], shards=8)
    pairs = []
    for (n, t), o in zip(texts, outs):
        y = bytes.fromhex(o[3:]).decode("latin-1") if o.startswith("ok ") and o[3:] != "-" else ("" if o == "ok -" else None)
        pairs.append((n, t, y, o))
    stats, problems = llvmref.compare(pairs)
    for name, kind, detail, x in problems:
        known = None
        for f in findings.data["findings"]:
            if f["property"] == prop and f.get("input_contains") and f["input_contains"] in x:
                known = f
            if f["property"] == prop and f.get("input_regex") and re.search(f["input_regex"], x):
                known = f
        if known:
            cnt, what = res.known.get(known["id"], (0, known.get("what", known["id"])))
            res.known[known["id"]] = (cnt + 1, what)
            continue
        res.violation("LLVM 14 as reference, input `%s`: %s: %s" % (name, kind, detail),
                      {"ops": ["mod.print %s" % hx(x)], "input": x, "reference": "llvm-as-14 | llvm-dis-14", "replay_hint":
                       "print the input with llir (harness op mod.print), then `llvm-as | llvm-dis` both texts"})
    return {key: dict(stats, available=True, inputs=len(pairs), tool="llvm-as-14 / llvm-dis-14")}
