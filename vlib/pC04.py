"""C04 — every reference in a parsed module is the object that defines it."""
from . import common as C
from . import modgen, modprops, localgen
from .modprops import hx

TRUSTED = ["Lean 4.33 kernel; axioms: propext, Quot.sound at most (see coverage.axioms_used)"] + modprops.MODEL_TRUST
ASSUMPTIONS = ["modules are accepted by the parser; references to unnamed globals by number are not generated"]
RULE = ("generated modules with forward, mutual, self and cross-function references (recursive types, globals initialised with each other's and with functions' addresses, "
        "aliases, phi/branch cycles, uses before definitions, same local names in different functions, metadata cycles, attachments) plus the corpus modules; model and "
        "implementation are compared on acceptance and on the ordered definition lists; the oracle walks the whole parsed object graph by reflection and demands that every "
        "reachable definition-like object is the listed definition, blocks/instructions/params belong to the function that uses them, and parents agree with containment; "
        "the same walk on the SECOND of two parses of one text in the same process (corpus, generated modules, and twin modules with the same body in two functions for every "
        "instruction kind): nothing that outlives a translation may hand out an object of another function or module; non-trivial = distinct module with at least 3 references")


def gen(tier, rng, harness=None):
    n = 150 if tier == "quick" else 6000
    lines = []
    for t in modprops.corpus_texts():
        lines.append("!mod.closure - %s" % hx(t))
    from . import catalog as _c20
    for _n, _t, _f in _c20.round20_entries():
        if _n.startswith("diexpression."):
            lines.append("!mod.keeps %s %s" % (hx("\x1f".join(_f)), hx(_t)))
    # type definitions whose body is another named type (`%a = type %b`) next to definitions that mention them: translated in map order, so each text is walked
    # twelve times — every use of a named type is an object the module lists, under every order
    for t in ("%a = type %b\n%b = type { i32 }\n%c = type { %a }\n@g = global %c zeroinitializer\n@h = global %a zeroinitializer\n",
              "%b = type { i32, %a* }\n%a = type %b\n@g = global %a* null\n",
              "%z = type %y\n%y = type %x\n%x = type { %z*, i8 }\n%w = type { %z, %y, %x }\n@g = global %w zeroinitializer\n"):
        for _ in range(12):
            lines.append("!mod.closure - %s" % hx(t))
    # systematic: every use-site kind of one function body under namings that make names and IDs confusable (vlib/localgen.py)
    for kind, exp, text, sk in localgen.cases(rng, 20 if tier == "quick" else 400):
        if exp == "ok":
            lines.append("mod.outcome %s %s" % (hx(sk), hx(text)))
            lines.append("!mod.closure %s %s" % (hx(sk), hx(text)))
            lines.append("!mod.fix %s %s" % (hx(sk), hx(text)))
    # state that outlives one translation: the same text parsed twice in this process (corpus, and twin modules: the same body in two functions, over named
    # types, parameters and globals, for every instruction kind - vlib/twingen.py); every reference of the second module is a definition of the second module
    from . import twingen
    for t in modprops.corpus_texts():
        lines.append("!mod.closure2 - %s" % hx(t))
    for _, t in twingen.twin_texts():
        lines.append("!mod.closure - %s" % hx(t))
        lines.append("!mod.closure2 - %s" % hx(t))
    # references by NUMBER across entities of other namespaces written in between (each with an ID of its own): `@1` is the second unnamed global
    from . import catalog
    for name, text, frags in catalog.order_entries() + catalog.layout_entries():
        if name.startswith(("numbering.", "uint.md-id-use")):
            lines.append("!mod.keeps %s %s" % (hx("\x1f".join(frags or [])), hx(text)))
            lines.append("!mod.closure - %s" % hx(text))
    # every module of the catalogue (one construct each: every specialised metadata node with references, numbered DIExpressions, attachments, call-site
    # metadata operands, constant expressions …): each reference of the parsed module must be the listed definition
    from . import regen
    for name, text, frags in catalog.all_entries(regen.enum_table(harness)):
        if not name.startswith(("numbering.", "uint.md-id-use")):
            lines.append("!mod.closure - %s" % hx(text))
    # an explicit ID that reads as zero at a position that is not the first unnamed value (any spelling: `%0`, `%00`, `00:`) must be rejected, not renumbered
    for kind, text in localgen.zero_spellings():
        lines.append("!mod.mustfail - %s" % hx(text))
    for m, text, sk in modprops.gen_modules(rng, n):
        lines.append("mod.outcome %s %s" % (hx(sk), hx(text)))
        lines.append("mod.lists %s %s" % (hx(sk), hx(text)))
        lines.append("mod.refs %s %s" % (hx(sk), hx(text)))      # name-level: the comdat / attribute groups each entity is bound to
        lines.append("!mod.closure %s %s" % (hx(sk), hx(text)))
        # every operand is printed from the object it was bound to: the canonical text must come back byte for byte (a use bound to
        # another definition - e.g. `%"1"` taken for `%1` - changes the printed operand)
        lines.append("!mod.fix %s %s" % (hx(sk), hx(text)))
        if rng.random() < 0.5:
            t2, _ = modgen.render(m, rng, shuffle=True)
            lines.append("!mod.closure %s %s" % (hx(sk), hx(t2)))
        if rng.random() < 0.3:
            lines.append("!mod.closure2 - %s" % hx(text))
    return lines


def nontrivial(ln, model_out):
    p = ln.split()
    if len(p) < 3 or p[1] == "-":
        return len(p) >= 3
    return bytes.fromhex(p[1]).count(b"=") >= 3


def search(ln, a, b, harness, driver):
    p = ln.split()
    cands = ["!mod.closure %s %s" % (p[1], p[2]), "!mod.fix %s %s" % (p[1], p[2]), "!mod.closure2 - %s" % p[2]]
    impl = C.run_lines([harness, "run"], cands)
    for c, x in zip(cands, impl):
        if x.split()[0] in ("FAIL", "panic"):
            return {"ops": [c], "impl": [x], "model": ["ok"]}
    return None
