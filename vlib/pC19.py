"""C19 — WriteTo honours io.WriterTo, also when the writer fails."""
from . import common as C

TRUSTED = [
    "Lean 4.33 kernel; axioms: propext, Quot.sound at most (see coverage.axioms_used)",
    "hand-written Lean model LlirModel/Writer.lean of fmtWriter.Fprint/Fprintf/Fprintln and of WriteTo as a sequence of such calls; the chunk sequence is "
    "recorded from the real WriteTo on every run and the theorems hold for ANY chunk sequence and ANY io.Writer-conforming writer",
    "fmt.Fprint* is assumed to issue exactly one Write per call and to return that Write's (n, err) (validated by the recorded trace)",
    "Go harness ops_writer.go (recording / failing writers)",
]
ASSUMPTIONS = ["the underlying writer obeys the io.Writer contract: 0 <= n <= len(p) and n < len(p) implies err != nil"]
RULE = ("for every corpus module: chunk trace of the real WriteTo, then failure offsets k (all k in [0, len] for small modules in thorough, sampled otherwise) "
        "x writer kinds {fails after k bytes, reports an error on a complete write past k, never fails}; model and implementation must agree on "
        "(n, err, bytes delivered, writes after failure) and the implementation must satisfy the property oracle; non-trivial = distinct case with 0 < k < len")


def facts(res, harness):
    from . import regen
    r = regen.gen_facts(harness)
    return {"facts_regenerated_changed": r["facts_regenerated_changed"]}


def gen(tier, rng, harness=None):
    n = int(C.run_lines([harness, "run"], ["wt.count"])[0])
    traces = C.run_lines([harness, "run"], ["wt.trace %d" % i for i in range(n)])
    lines = []
    for i, t in enumerate(traces):
        # (a trace that is no trace — the print panicked, or the process DIED printing this module: `crash`, `hang`, `skipped-after-crashes` — still gets its
        # oracle line: the verdict comes from the comparison, never from an exception of this generator)
        if t in ("bad", "panic") or len(t.split()) != 2 or not t.split()[0].isdigit():
            lines.append("!wt.prop %d ok 0" % i)
            continue
        total, chunks = t.split()
        total = int(total)
        ks = set([0, 1, total - 1, total, total + 1, total + 100])
        bounds, acc = [], 0
        for c in (chunks.split(",") if chunks != "-" else []):
            acc += int(c)
            bounds += [acc - 1, acc, acc + 1]
        if tier == "thorough" and total <= 6000:
            ks |= set(range(0, total + 2))
        else:
            ks |= set(rng.sample(bounds, min(len(bounds), 30 if tier == "quick" else 400)))
            ks |= set(rng.randint(0, total) for _ in range(20 if tier == "quick" else 300))
        for k in sorted(x for x in ks if x >= 0):
            for mode in ("fail", "errfull"):
                lines.append("wt.run %d %s %d %s" % (i, mode, k, chunks))
            lines.append("!wt.prop %d fail %d" % (i, k))
        lines.append("wt.run %d ok 0 %s" % (i, chunks))
        lines.append("!wt.prop %d ok 0" % i)
        lines.append("!wt.prop %d errfull %d" % (i, total // 2))
    return lines


def nontrivial(ln, model_out):
    p = ln.split()
    return len(p) >= 4 and p[2] != "ok" and p[3] != "0"


def search(ln, a, b, harness, driver):
    p = ln.split()
    cands = ["!wt.prop %s %s %s" % (p[1], p[2], p[3]), "!wt.prop %s fail %s" % (p[1], p[3]), "!wt.prop %s ok 0" % p[1]]
    impl = C.run_lines([harness, "run"], cands)
    for c, x in zip(cands, impl):
        if x.split()[0] in ("FAIL", "panic"):
            return {"ops": [c], "impl": [x], "model": ["ok"]}
    return None
