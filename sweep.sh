#!/bin/sh
# usage: ./sweep.sh <tier> <seed>...   — runs every check for each seed; prints only non-OK results
tier=$1; shift
for s in "$@"; do
  for p in C01 C02 C03 C04 C05 C06 C07 C08 C09 C10 C11 C12 C13 C14 C15 C16 C17 C18 C19 C20; do
    out=$(VERIF_SEED=$s ./check $p $tier 2>&1); rc=$?
    if [ $rc -ne 0 ]; then echo "== seed $s $p $tier exit $rc"; echo "$out" | grep -v "^KNOWN-FINDING" | tail -4 | cut -c1-400; fi
  done
  echo "seed $s $tier done"
done
