//go:build verif

package main

import (
	"fmt"
	"strconv"

	"github.com/llir/llvm/asm"
	"github.com/llir/llvm/ir"
	"github.com/llir/llvm/ir/enum"
	"github.com/llir/llvm/ir/types"
	"github.com/llir/llvm/ir/value"
)

func init() {
	// C18 / C03: a calling convention given by NUMBER (every value a user can store in the field) is printed as its keyword or as `cc N` and read back
	// as the same value, on a declaration and at a call site; the text is a fixpoint
	reg("cc.rt", func(a []string) string {
		n, err := strconv.Atoi(a[0])
		if err != nil {
			return "FAIL bad-arg"
		}
		m := ir.NewModule()
		d := m.NewFunc("d", types.Void)
		d.CallingConv = enum.CallingConv(n)
		f := m.NewFunc("f", types.Void)
		b := f.NewBlock("entry")
		c := b.NewCall(d)
		c.CallingConv = enum.CallingConv(n)
		b.NewRet(nil)
		s := safe(func([]string) string { return m.String() }, nil)
		if s == "panic" {
			return "FAIL print-panic"
		}
		m2, err := asm.ParseString("x.ll", s)
		if err != nil {
			return "FAIL reparse-error " + firstDiff("", s)
		}
		if got := m2.Funcs[0].CallingConv; got != enum.CallingConv(n) {
			return fmt.Sprintf("FAIL header-read-back-as %d", got)
		}
		if got := m2.Funcs[1].Blocks[0].Insts[0].(*ir.InstCall).CallingConv; got != enum.CallingConv(n) {
			return fmt.Sprintf("FAIL call-site-read-back-as %d", got)
		}
		if s2 := m2.String(); s2 != s {
			return "FAIL unstable " + firstDiff(s, s2)
		}
		return "ok"
	})
	// C06 / C08: a call / invoke / callbr whose written type is a NAMED type standing for a function type (`%sig = type i32 (i32, ...)`): the type the parser
	// attaches is the callee's RETURN type (the one the IR computes from the callee), a void call takes no number, and the values behind it keep theirs.
	//   sig.alias <call|invoke|callbr> <v|i> <0|1 variadic>
	reg("sig.alias", func(a []string) string {
		site, void, variadic := a[0], a[1] == "v", a[2] == "1"
		ret := "i32"
		if void {
			ret = "void"
		}
		dots := ""
		if variadic {
			dots = ", ..."
		}
		lhs, next := "", 2
		if !void {
			lhs, next = "%2 = ", 3
		}
		var line string
		switch site {
		case "call":
			line = fmt.Sprintf("\t%scall %%sig @callee(i32 %%x)\n", lhs)
		case "invoke":
			line = fmt.Sprintf("\t%sinvoke %%sig @callee(i32 %%x)\n\t\tto label %%n unwind label %%n\n\nn:\n", lhs)
		case "callbr":
			line = fmt.Sprintf("\t%scallbr %%sig @callee(i32 %%x)\n\t\tto label %%n []\n\nn:\n", lhs)
		default:
			return "FAIL bad-site"
		}
		text := fmt.Sprintf("%%sig = type %s (i32%s)\n\ndeclare %s @callee(i32 %%0%s)\n\ndefine i32 @f(i32 %%x) personality i8* null {\n\t%%1 = add i32 %%x, 1\n%s\t%%%d = mul i32 %%1, %%1\n\tret i32 %%%d\n}\n",
			ret, dots, ret, dots, line, next, next)
		m, err := asm.ParseString("x.ll", text)
		if err != nil {
			return "FAIL parse-error (a numbering LLVM accepts is rejected, or the call is mistyped)"
		}
		var found value.Value
		for _, b := range m.Funcs[1].Blocks {
			for _, in := range b.Insts {
				if c, ok := in.(*ir.InstCall); ok {
					found = c
				}
			}
			switch t := b.Term.(type) {
			case *ir.TermInvoke:
				found = t
			case *ir.TermCallBr:
				found = t
			}
		}
		if found == nil {
			return "FAIL no-call-site"
		}
		want := types.Type(types.I32)
		if void {
			want = types.Void
		}
		if !found.Type().Equal(want) || found.Type().String() != want.String() {
			return "FAIL result-type " + found.Type().String()
		}
		s := safe(func([]string) string { return m.String() }, nil)
		if s == "panic" {
			return "FAIL print-panic"
		}
		m2, err := asm.ParseString("y.ll", s)
		if err != nil {
			return "FAIL reparse-error"
		}
		if s2 := m2.String(); s2 != s {
			return "FAIL unstable " + firstDiff(s, s2)
		}
		return "ok"
	})
}
