//go:build verif

package main

import (
	"fmt"
	"strings"

	"github.com/llir/llvm/asm"
	"github.com/llir/llvm/ir"
	"github.com/llir/llvm/ir/constant"
	"github.com/llir/llvm/ir/types"
	"github.com/llir/llvm/ir/value"
)

type slotTok struct {
	kind string // P B V S C CV R I IV
	mode byte   // n i e
	id   int64
}

func parseSlots(a []string) []slotTok {
	var out []slotTok
	for _, s := range a {
		p := strings.SplitN(s, ":", 2)
		t := slotTok{kind: p[0]}
		if len(p) == 2 {
			t.mode = p[1][0]
			if t.mode == 'e' {
				t.id = atoi64(p[1][1:])
			}
		}
		out = append(out, t)
	}
	return out
}

func (t slotTok) counting() bool {
	switch t.kind {
	case "P", "B", "V", "CV", "I", "K", "CB":
		return true
	}
	return false
}

type identer interface {
	IsUnnamed() bool
	ID() int64
	Name() string
}

func idsOf(f *ir.Func, includeExit bool) string {
	var out []string
	add := func(v identer) {
		if v.IsUnnamed() {
			out = append(out, fmt.Sprint(v.ID()))
		} else {
			out = append(out, "n")
		}
	}
	for _, p := range f.Params {
		add(p)
	}
	for bi, b := range f.Blocks {
		if !includeExit && bi == len(f.Blocks)-1 {
			break
		}
		add(b)
		for _, inst := range b.Insts {
			if v, ok := inst.(interface {
				identer
				value.Value
			}); ok && !types.Equal(v.Type(), types.Void) {
				add(v)
			}
		}
		if v, ok := b.Term.(interface {
			identer
			value.Value
		}); ok && !types.Equal(v.Type(), types.Void) {
			add(v)
		}
	}
	return strings.Join(out, ",")
}

func slotsText(ts []slotTok) string {
	var sb strings.Builder
	sb.WriteString("%vsig = type void ()\n\ndeclare void @vf()\n\ndeclare i32 @if()\n\ndefine void @f(")
	first := true
	k := 0
	nm := func() string { k++; return fmt.Sprintf("v%d", k) }
	for _, t := range ts {
		if t.kind != "P" {
			continue
		}
		if !first {
			sb.WriteString(", ")
		}
		first = false
		switch t.mode {
		case 'n':
			sb.WriteString("i32 %" + nm())
		case 'i':
			sb.WriteString("i32")
		case 'e':
			fmt.Fprintf(&sb, "i32 %%%d", t.id)
		case 'q': // the empty quoted name: LLVM reads `%""` as "unnamed"
			sb.WriteString(`i32 %""`)
		}
	}
	sb.WriteString(") personality i8* null {\n")
	// identifiers of the i32 values defined so far (every one of them is USED in the exit block: a numbering that is accepted must also bind)
	var i32vals []string
	llvmN := 0
	for _, t := range ts { // parameters: their LLVM numbers come first
		if t.kind == "P" && t.mode != 'n' {
			if t.mode == 'e' {
				i32vals = append(i32vals, fmt.Sprintf("%%%d", t.id))
			} else {
				i32vals = append(i32vals, fmt.Sprintf("%%%d", llvmN))
			}
			llvmN++
		}
	}
	pos, my := llvmN, 0 // LLVM's number of the slot at hand (used to REFER to a value defined under the empty quoted name)
	lhsVal := func(t slotTok, isI32 bool) string {
		var id string
		use := ""
		if t.mode == 'n' {
			id = "%" + nm()
		} else if t.mode == 'q' {
			id, use = `%""`, fmt.Sprintf("%%%d", my)
		} else {
			id = fmt.Sprintf("%%%d", t.id)
		}
		if use == "" {
			use = id
		}
		if isI32 {
			i32vals = append(i32vals, use)
		}
		return id + " = "
	}
	lhs := func(t slotTok) string { return lhsVal(t, true) }
	for _, t := range ts {
		if t.kind != "P" && t.counting() && t.mode != 'n' {
			my = pos
			pos++
		}
		switch t.kind {
		case "B":
			switch t.mode {
			case 'n':
				sb.WriteString(nm() + ":\n")
			case 'e':
				fmt.Fprintf(&sb, "%d:\n", t.id)
			case 'q':
				sb.WriteString("\"\":\n")
			}
		case "V":
			sb.WriteString("\t" + lhs(t) + "add i32 0, 0\n")
		case "S":
			sb.WriteString("\tstore i32 0, i32* null\n")
		case "C":
			sb.WriteString("\tcall void @vf()\n")
		case "CV":
			sb.WriteString("\t" + lhs(t) + "call i32 @if()\n")
		case "R":
			sb.WriteString("\tret void\n")
		case "I":
			sb.WriteString("\t" + lhs(t) + "invoke i32 @if()\n\t\tto label %exit unwind label %exit\n")
		case "K": // value-yielding terminators other than invoke
			sb.WriteString("\t" + lhsVal(t, false) + "catchswitch within none [label %exit] unwind to caller\n")
		case "CB":
			sb.WriteString("\t" + lhs(t) + "callbr i32 @if()\n\t\tto label %exit []\n")
		case "IV":
			sb.WriteString("\tinvoke void @vf()\n\t\tto label %exit unwind label %exit\n")
		case "IVF": // the callee's full (non-variadic) function type spelled out
			sb.WriteString("\tinvoke void () @vf()\n\t\tto label %exit unwind label %exit\n")
		case "CF":
			sb.WriteString("\tcall void () @vf()\n")
		// void call sites that must take no number: callbr (plain, with the full function type, through a named signature), call / invoke through a named signature
		case "CBV":
			sb.WriteString("\tcallbr void @vf()\n\t\tto label %exit []\n")
		case "CBVF":
			sb.WriteString("\tcallbr void () @vf()\n\t\tto label %exit []\n")
		case "CBVA":
			sb.WriteString("\tcallbr %vsig @vf()\n\t\tto label %exit []\n")
		case "CA":
			sb.WriteString("\tcall %vsig @vf()\n")
		case "IVA":
			sb.WriteString("\tinvoke %vsig @vf()\n\t\tto label %exit unwind label %exit\n")
		}
	}
	sb.WriteString("exit:\n")
	// uses only when the written numbering is LLVM's (otherwise the text is not the module under test anyway)
	n, valid := 0, true
	for _, t := range ts {
		if !t.counting() || t.mode == 'n' {
			continue
		}
		if t.mode == 'e' && t.id != int64(n) {
			valid = false
		}
		n++
	}
	if !valid {
		i32vals = nil
	}
	for i, v := range i32vals {
		fmt.Fprintf(&sb, "\t%%use%d = add i32 %s, 0\n", i, v)
	}
	sb.WriteString("\tret void\n}\n")
	return sb.String()
}

func buildSlotsAPI(ts []slotTok) *ir.Func {
	k := 0
	// names: every second one is all digits (a NAMED value spelled `%"102"`, which takes no number)
	nm := func() string {
		k++
		if k%2 == 0 {
			return fmt.Sprint(100 + k)
		}
		return fmt.Sprintf("v%d", k)
	}
	var params []*ir.Param
	for _, t := range ts {
		if t.kind == "P" {
			p := ir.NewParam("", types.I32)
			if t.mode == 'n' {
				// (through the constructor, as a user of the API names a parameter)
				p = ir.NewParam(nm(), types.I32)
			} else if t.mode == 'e' {
				p.LocalID = t.id
			}
			params = append(params, p)
		}
	}
	vf := ir.NewFunc("vf", types.Void)
	ifn := ir.NewFunc("if", types.I32)
	f := ir.NewFunc("f", types.Void, params...)
	exit := ir.NewBlock("exit")
	exit.NewRet(nil)
	zero := constant.NewInt(types.I32, 0)
	var cur *ir.Block
	setIdent := func(t slotTok, li *ir.LocalIdent) {
		if t.mode == 'n' {
			li.SetName(nm())
		} else if t.mode == 'e' {
			li.LocalID = t.id
		}
	}
	for _, t := range ts {
		switch t.kind {
		case "B":
			cur = ir.NewBlock("")
			setIdent(t, &cur.LocalIdent)
			cur.Parent = f
			f.Blocks = append(f.Blocks, cur)
		case "V":
			i := cur.NewAdd(zero, zero)
			setIdent(t, &i.LocalIdent)
		case "S":
			cur.NewStore(zero, constant.NewNull(types.I32Ptr))
		case "C":
			cur.NewCall(vf)
		case "CV":
			i := cur.NewCall(ifn)
			setIdent(t, &i.LocalIdent)
		case "R":
			cur.NewRet(nil)
		case "I":
			i := cur.NewInvoke(ifn, nil, exit, exit)
			setIdent(t, &i.LocalIdent)
		case "K":
			i := cur.NewCatchSwitch(constant.None, []*ir.Block{exit}, nil)
			setIdent(t, &i.LocalIdent)
		case "CB":
			i := cur.NewCallBr(ifn, nil, exit)
			setIdent(t, &i.LocalIdent)
		case "IV", "IVF", "IVA":
			cur.NewInvoke(vf, nil, exit, exit)
		case "CF", "CA":
			cur.NewCall(vf)
		case "CBV", "CBVF", "CBVA":
			cur.NewCallBr(vf, nil, exit)
		}
	}
	exit.Parent = f
	f.Blocks = append(f.Blocks, exit)
	return f
}

func llvmNumbering(ts []slotTok) string {
	var out []string
	n := 0
	for _, t := range ts {
		if !t.counting() {
			continue
		}
		if t.mode == 'n' {
			out = append(out, "n")
		} else {
			out = append(out, fmt.Sprint(n))
			n++
		}
	}
	return strings.Join(out, ",")
}

func parsedF(text string) (*ir.Func, *ir.Module, error) {
	m, err := asm.ParseString("x.ll", text)
	if err != nil {
		return nil, nil, err
	}
	for _, f := range m.Funcs {
		if f.Name() == "f" {
			return f, m, nil
		}
	}
	return nil, m, fmt.Errorf("no @f")
}

// ---- module level ----

func modText(a []string) string {
	var sb strings.Builder
	sb.WriteString("@base = global i32 0\n")
	id := 0
	k := 0
	x := 0
	for _, s := range a {
		p := strings.Split(s, ":")
		if p[0] == "X" {
			// an entity of another namespace with an ID / name of its own between the global entities
			x++
			switch p[1] {
			case "a":
				fmt.Fprintf(&sb, "attributes #%d = { nounwind }\n", x-1) // small IDs: they coincide with IDs of unnamed globals
			case "m":
				fmt.Fprintf(&sb, "!%d = !{}\n", x-1)
			case "t":
				fmt.Fprintf(&sb, "%%t%d = type opaque\n", x)
			case "c":
				fmt.Fprintf(&sb, "$c%d = comdat any\n", x)
			case "n":
				fmt.Fprintf(&sb, "!nm%d = !{}\n", x)
			}
			continue
		}
		var ident string
		if p[1] == "n" {
			k++
			ident = fmt.Sprintf("@g%d", k)
		} else if p[1] == "q" {
			ident = `@""` // the empty name: an unnamed entity without a written ID
			id++
		} else if strings.HasPrefix(p[1], "e") {
			ident = "@" + p[1][1:] // the ID as written, right or wrong
			id++
		} else {
			ident = fmt.Sprintf("@%d", id)
			id++
		}
		switch p[0] {
		case "G":
			fmt.Fprintf(&sb, "%s = global i32 0\n", ident)
		case "A":
			fmt.Fprintf(&sb, "%s = alias i32, i32* @base\n", ident)
		case "I":
			fmt.Fprintf(&sb, "%s = ifunc void (), void ()* ()* @resolver\n", ident)
		case "F":
			fmt.Fprintf(&sb, "declare void %s()\n", ident)
		case "D":
			fmt.Fprintf(&sb, "define void %s() {\n\tret void\n}\n", ident)
		}
	}
	sb.WriteString("declare void ()* @resolver()\n")
	return sb.String()
}

func modIDs(m *ir.Module) string {
	var out []string
	add := func(named bool, id int64) {
		if named {
			out = append(out, "n")
		} else {
			out = append(out, fmt.Sprint(id))
		}
	}
	for _, g := range m.Globals {
		add(!g.IsUnnamed(), g.GlobalID)
	}
	for _, g := range m.Aliases {
		add(!g.IsUnnamed(), g.GlobalID)
	}
	for _, g := range m.IFuncs {
		add(!g.IsUnnamed(), g.GlobalID)
	}
	for _, g := range m.Funcs {
		add(!g.IsUnnamed(), g.GlobalID)
	}
	return strings.Join(out, ",")
}

func init() {
	reg("num.api", func(a []string) string {
		f := buildSlotsAPI(parseSlots(a))
		if err := f.AssignIDs(); err != nil {
			return "error"
		}
		return "ok " + idsOf(f, false)
	})
	// num.text: the source text of a shape (explicit IDs as given) and, when llir accepts it, the text llir prints: for LLVM's own parser
	reg("num.text", func(a []string) string {
		src := slotsText(parseSlots(a))
		_, m, err := parsedF(src)
		if err != nil {
			return hexOut([]byte(src)) + " -"
		}
		return hexOut([]byte(src)) + " " + hexOut([]byte(m.String()))
	})
	reg("num.parse", func(a []string) string {
		f, _, err := parsedF(slotsText(parseSlots(a)))
		if err != nil {
			return "error"
		}
		return "ok " + idsOf(f, false)
	})
	// oracle for fresh (implicit) or valid explicit numberings: LLVM's numbering, accepted, printable, stable
	reg("num.check", func(a []string) string {
		ts := parseSlots(a)
		want := llvmNumbering(ts)
		f, m, err := parsedF(slotsText(ts))
		if err != nil {
			return "FAIL parse-error"
		}
		if got := idsOf(f, false); got != want {
			return "FAIL numbering " + got
		}
		text := m.String()
		if err := f.AssignIDs(); err != nil || idsOf(f, false) != want {
			return "FAIL not-idempotent"
		}
		f2, _, err := parsedF(text)
		if err != nil {
			return "FAIL reparse-error"
		}
		if got := idsOf(f2, false); got != want {
			return "FAIL reparse-numbering " + got
		}
		// the constructed twin must be numbered the same way
		g := buildSlotsAPI(ts)
		if err := g.AssignIDs(); err != nil || idsOf(g, false) != want {
			return "FAIL api-numbering"
		}
		return "ok"
	})
	reg("num.mod", func(a []string) string {
		m, err := asm.ParseString("x.ll", modText(a))
		if err != nil {
			return "error"
		}
		_ = m.String()
		return "ok " + modIDs(m)
	})
	// the same module built through the Module builder methods (unnamed entities get the empty name), then printed
	reg("num.modapi", func(a []string) string {
		m := ir.NewModule()
		base := m.NewGlobalDef("base", constant.NewInt(types.I32, 0))
		resolver := ir.NewFunc("resolver", types.NewPointer(types.NewFunc(types.Void)))
		k := 0
		for _, s := range a {
			p := strings.Split(s, ":")
			if p[0] == "X" {
				continue
			}
			name := ""
			if p[1] == "n" {
				k++
				name = fmt.Sprintf("g%d", k)
			}
			switch p[0] {
			case "G":
				m.NewGlobalDef(name, constant.NewInt(types.I32, 0))
			case "A":
				m.NewAlias(name, base)
			case "I":
				m.NewIFunc(name, resolver)
			case "F":
				m.NewFunc(name, types.Void)
			case "D":
				m.NewFunc(name, types.Void).NewBlock("").NewRet(nil)
			}
		}
		m.Funcs = append(m.Funcs, resolver)
		resolver.Parent = m
		_ = m.String()
		return "ok " + modIDs(m)
	})
	// a module built through the builder methods with one function per unnamed entity that returns a reference to it: the printed text numbers the
	// unnamed definitions 0, 1, 2 ... in the order they are written (LLVM's rule), the parser accepts it, every reference still denotes an entity of
	// the kind that was constructed, and printing the parsed module gives the same text
	reg("num.apiok", func(a []string) string {
		m := ir.NewModule()
		base := m.NewGlobalDef("base", constant.NewInt(types.I32, 0))
		resolver := ir.NewFunc("resolver", types.NewPointer(types.NewFunc(types.Void)))
		var ents []constant.Constant
		k := 0
		for _, s := range a {
			p := strings.Split(s, ":")
			if p[0] == "X" {
				continue
			}
			name := ""
			if p[1] == "n" {
				k++
				name = fmt.Sprintf("g%d", k)
			}
			switch p[0] {
			case "G":
				ents = append(ents, m.NewGlobalDef(name, constant.NewInt(types.I32, 0)))
			case "A":
				ents = append(ents, m.NewAlias(name, base))
			case "I":
				ents = append(ents, m.NewIFunc(name, resolver))
			case "F":
				ents = append(ents, m.NewFunc(name, types.Void))
			case "D":
				f := m.NewFunc(name, types.Void)
				f.NewBlock("").NewRet(nil)
				ents = append(ents, f)
			}
		}
		m.Funcs = append(m.Funcs, resolver)
		resolver.Parent = m
		kindOf := func(v interface{}) string { return fmt.Sprintf("%T", v) }
		for i, e := range ents {
			u := m.NewFunc(fmt.Sprintf("use%d", i), e.Type())
			u.NewBlock("").NewRet(e)
		}
		text := m.String()
		want := 0
		for _, l := range strings.Split(text, "\n") {
			if !strings.HasPrefix(l, "@") && !strings.HasPrefix(l, "define") && !strings.HasPrefix(l, "declare") {
				continue
			}
			i := strings.Index(l, "@")
			j := i + 1
			for j < len(l) && l[j] >= '0' && l[j] <= '9' {
				j++
			}
			if j == i+1 || (j < len(l) && l[j] != ' ' && l[j] != '(') {
				continue
			}
			if l[i+1:j] != fmt.Sprint(want) {
				return fmt.Sprintf("FAIL definition-out-of-order @%s expected @%d", l[i+1:j], want)
			}
			want++
		}
		m2, err := asm.ParseString("x.ll", text)
		if err != nil {
			return "FAIL parse-error"
		}
		for i, e := range ents {
			for _, f := range m2.Funcs {
				if f.Name() != fmt.Sprintf("use%d", i) {
					continue
				}
				r, ok := f.Blocks[0].Term.(*ir.TermRet)
				if !ok || kindOf(r.X) != kindOf(e) {
					return fmt.Sprintf("FAIL reference-kind use%d %T", i, r.X)
				}
			}
		}
		if m2.String() != text {
			return "FAIL unstable"
		}
		return "ok"
	})
	reg("num.gsrc", func(a []string) string {
		m, err := asm.ParseString("x.ll", modText(a))
		if err != nil {
			return "error"
		}
		_ = m.String()
		return "ok " + modIDs(m)
	})
	reg("num.modok", func(a []string) string {
		m, err := asm.ParseString("x.ll", modText(a))
		if err != nil {
			return "FAIL parse-error"
		}
		text := m.String() // panics when global numbering fails
		m2, err := asm.ParseString("x.ll", text)
		if err != nil {
			return "FAIL reparse-error"
		}
		if m2.String() != text {
			return "FAIL unstable"
		}
		return "ok"
	})
}
