//go:build verif

// Command racer prints modules from many goroutines at once; built with -race.
// usage: racer <goroutines> <rounds> <mode:module|mixed> <file.ll>...
// For every file: (a) parsed, never printed: G goroutines call String/WriteTo/LLString concurrently;
// (b) already printed once: again; (c) a constructed twin (via the ir API) of a small catalogue.
// Output: one line per case "case <name> <state> ok|MISMATCH"; the race detector reports on stderr and
// makes the process exit with code 66.
package main

import (
	"bytes"
	"fmt"
	"os"
	"strconv"
	"sync"

	"github.com/llir/llvm/asm"
	"github.com/llir/llvm/ir"
	"github.com/llir/llvm/ir/constant"
	"github.com/llir/llvm/ir/metadata"
	"github.com/llir/llvm/ir/types"
)

func concurrent(m *ir.Module, g int, want string, piecewise bool) bool {
	var wg sync.WaitGroup
	ok := make([]bool, g)
	for i := 0; i < g; i++ {
		wg.Add(1)
		go func(i int) {
			defer wg.Done()
			sel := i % 3
			if sel == 2 && !piecewise {
				sel = 0
			}
			switch sel {
			case 0:
				ok[i] = m.String() == want
			case 1:
				var buf bytes.Buffer
				_, err := m.WriteTo(&buf)
				ok[i] = err == nil && buf.String() == want
			default:
				// piecewise printing through LLString / Ident / Type of the parts
				good := true
				for _, f := range m.Funcs {
					s := f.LLString()
					_ = f.Ident()
					_ = f.Type().String()
					for _, b := range f.Blocks {
						_ = b.LLString()
						_ = b.Ident()
					}
					good = good && len(s) > 0
				}
				for _, gl := range m.Globals {
					_ = gl.LLString()
					_ = gl.Ident()
				}
				ok[i] = good && m.String() == want
			}
		}(i)
	}
	wg.Wait()
	for _, b := range ok {
		if !b {
			return false
		}
	}
	return true
}

func constructed(k int) *ir.Module {
	m := ir.NewModule()
	g0 := m.NewGlobalDef("", constant.NewInt(types.I32, int64(k)))
	m.NewGlobalDef("", constant.NewInt(types.I64, 7))
	f := m.NewFunc("", types.I32, ir.NewParam("", types.I32), ir.NewParam("x", types.I32))
	entry := f.NewBlock("")
	a := entry.NewAdd(f.Params[0], f.Params[1])
	l := entry.NewLoad(types.I32, g0)
	next := f.NewBlock("")
	entry.NewBr(next)
	p := next.NewPhi(ir.NewIncoming(a, entry))
	c := next.NewICmp(1, p, l)
	s := next.NewSelect(c, a, l)
	al := next.NewAlloca(types.I32)
	next.NewStore(s, al)
	// lazily settled type state: a NAMED alloca whose address space is set after construction, used as an operand
	slot := next.NewAlloca(types.I64)
	slot.AddrSpace = types.AddrSpace(3 + k%2)
	slot.SetName("slot")
	next.NewStore(constant.NewInt(types.I64, 1), slot)
	// a global variable and a function whose ADDRESS SPACE is set after construction (the only way the API offers), after they were used as operands:
	// their cached types are stale when the first print starts
	late := m.NewGlobalDef("late", constant.NewInt(types.I32, 1))
	callee := m.NewFunc("callee", types.Void)
	next.NewLoad(types.I32, late)
	next.NewCall(callee)
	late.AddrSpace = types.AddrSpace(2 + k%2)
	callee.AddrSpace = types.AddrSpace(1 + k%2)
	next.NewRet(s)
	for i := 0; i < k%4; i++ {
		m.NewFunc("", types.Void).NewBlock("").NewRet(nil)
	}
	t := &metadata.Tuple{MetadataID: -1}
	t2 := &metadata.Tuple{MetadataID: -1, Fields: []metadata.Field{t}}
	m.MetadataDefs = append(m.MetadataDefs, t, t2)
	m.NamedMetadataDefs["n"] = &metadata.NamedDef{Name: "n", Nodes: []metadata.Node{t2}}
	return m
}

// failedPrints: every documented way a print can FAIL (panic or error), recovered by the caller as a user would. A failed print must leave no
// shared state behind (a scratch buffer handed back twice, a half-written cache) that later or concurrent prints of healthy modules can observe.
func failedPrints(k int) {
	try := func(f func()) {
		defer func() { _ = recover() }()
		f()
	}
	// (1) a block under construction (no terminator yet)
	m := ir.NewModule()
	f := m.NewFunc("broken", types.I32, ir.NewParam("", types.I32))
	b := f.NewBlock("")
	b.NewAdd(f.Params[0], constant.NewInt(types.I32, int64(k)))
	try(func() { _ = b.LLString() })
	try(func() { _ = f.LLString() })
	try(func() { _ = m.String() })
	try(func() { var buf bytes.Buffer; _, _ = m.WriteTo(&buf) })
	// (2) stale explicit IDs (an unnamed value inserted before a numbered one after a print)
	m2 := constructed(k)
	_ = m2.String()
	f2 := m2.Funcs[0]
	extra := ir.NewAdd(f2.Params[0], f2.Params[1])
	f2.Blocks[0].Insts = append([]ir.Instruction{extra}, f2.Blocks[0].Insts...)
	try(func() { _ = m2.String() })
	try(func() { _ = f2.LLString() })
	// (3) a writer that fails half way
	m3 := constructed(k)
	try(func() { _, _ = m3.WriteTo(&failingWriter{left: 40 + 13*k}) })
}

type failingWriter struct{ left int }

func (w *failingWriter) Write(p []byte) (int, error) {
	if len(p) > w.left {
		n := w.left
		w.left = 0
		return n, fmt.Errorf("disk full")
	}
	w.left -= len(p)
	return len(p), nil
}

// blocksOnly: every goroutine prints every basic block of a FRESHLY parsed module through Block.LLString alone (no module- or function-level print, so nothing
// has settled lazily cached types under a lock); the texts must be those a lone sequential pass over another fresh parse gives
func blocksOnly(fn string, g int) (bool, bool) {
	ref, err := asm.ParseFile(fn)
	if err != nil {
		return true, false
	}
	var want []string
	for _, f := range ref.Funcs {
		for _, b := range f.Blocks {
			want = append(want, b.LLString())
		}
	}
	m, _ := asm.ParseFile(fn)
	var wg sync.WaitGroup
	ok := make([]bool, g)
	for i := 0; i < g; i++ {
		wg.Add(1)
		go func(i int) {
			defer wg.Done()
			k, good := 0, true
			for _, f := range m.Funcs {
				for _, b := range f.Blocks {
					good = good && b.LLString() == want[k]
					k++
				}
			}
			ok[i] = good
		}(i)
	}
	wg.Wait()
	for _, b := range ok {
		if !b {
			return false, true
		}
	}
	return true, true
}

func main() {
	g, _ := strconv.Atoi(os.Args[1])
	rounds, _ := strconv.Atoi(os.Args[2])
	mixed := os.Args[3] == "mixed"
	files := os.Args[4:]
	bad := 0
	if os.Args[3] == "blocks" {
		for r := 0; r < rounds; r++ {
			for _, fn := range files {
				good, parsed := blocksOnly(fn, g)
				if !parsed {
					continue
				}
				res := "ok"
				if !good {
					res = "MISMATCH"
					bad++
				}
				fmt.Printf("case %s blocks %s\n", fn, res)
			}
		}
		if bad > 0 {
			os.Exit(1)
		}
		return
	}
	for r := 0; r < rounds; r++ {
		// failed prints first (sequentially, then from several goroutines at once), healthy concurrent prints afterwards
		for k := 0; k < 3; k++ {
			failedPrints(k)
		}
		var fw sync.WaitGroup
		for k := 0; k < 4; k++ {
			fw.Add(1)
			go func(k int) { defer fw.Done(); failedPrints(k) }(k)
		}
		fw.Wait()
		for _, fn := range files {
			ref, err := asm.ParseFile(fn)
			if err != nil {
				continue
			}
			want := ref.String()
			m, _ := asm.ParseFile(fn)
			res := "ok"
			if !concurrent(m, g, want, mixed) {
				res = "MISMATCH"
				bad++
			}
			fmt.Printf("case %s fresh %s\n", fn, res)
			res = "ok"
			if !concurrent(m, g, want, true) {
				res = "MISMATCH"
				bad++
			}
			fmt.Printf("case %s printed %s\n", fn, res)
		}
		for k := 0; k < 6; k++ {
			want := constructed(k).String()
			m := constructed(k)
			res := "ok"
			if !concurrent(m, g, want, mixed) || !concurrent(m, g, want, true) {
				res = "MISMATCH"
				bad++
			}
			fmt.Printf("case constructed-%d both %s\n", k, res)
		}
	}
	if bad > 0 {
		os.Exit(1)
	}
}
