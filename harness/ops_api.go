//go:build verif

package main

import (
	"fmt"
	"sort"
	"strings"

	"github.com/llir/llvm/asm"
	"github.com/llir/llvm/ir"
	"github.com/llir/llvm/ir/constant"
	"github.com/llir/llvm/ir/enum"
	"github.com/llir/llvm/ir/types"
	"github.com/llir/llvm/ir/value"
)

// C03 — constructed IR prints to valid, faithful assembly: scenarios built ONLY through the constructors and builder methods, each placing a
// value with some special type state (address space, named non-struct type, scalable vector, variadic signature ...) at several kinds of use
// site. Oracle: the printed text is accepted by the parser and printing the parsed module reproduces it byte for byte (the parser re-derives
// every operand type from the definitions, so a use printed at a type the definition does not have cannot survive the round trip), and every
// typed value the scenario registers reports the type the scenario states.

type apiScenario struct {
	name  string
	build func(m *ir.Module, expect func(v value.Value, want string))
	// text the printed module must contain: what was constructed and does not show in any type (a flag, a marker)
	frags []string
}

func useAll(m *ir.Module, v value.Value) {
	// the value at several use sites whose text spells its type
	pt := v.Type()
	f := m.NewFunc("user", types.Void)
	b := f.NewBlock("entry")
	if p, ok := pt.(*types.PointerType); ok {
		if types.IsInt(p.ElemType) || types.IsPointer(p.ElemType) || types.IsFloat(p.ElemType) {
			ld := b.NewLoad(p.ElemType, v)
			ld.SetName("ld")
			b.NewStore(ld, v)
		}
		b.NewICmp(enum.IPredEQ, v, constant.NewNull(p)).SetName("c")
		if c, ok := v.(constant.Constant); ok {
			m.NewGlobalDef("init", c)
			m.NewGlobalDef("cast", constant.NewBitCast(c, types.NewPointer(types.I8)))
			if p.AddrSpace != 0 {
				m.Globals[len(m.Globals)-1].Init = constant.NewBitCast(c, &types.PointerType{ElemType: types.I8, AddrSpace: p.AddrSpace})
				m.Globals[len(m.Globals)-1].ContentType = &types.PointerType{ElemType: types.I8, AddrSpace: p.AddrSpace}
				m.Globals[len(m.Globals)-1].Typ = nil
			}
			m.NewGlobalDef("agg", constant.NewStruct(types.NewStruct(pt), c))
		}
	}
	callee := m.NewFunc("sink", types.Void, ir.NewParam("", pt))
	b.NewCall(callee, v)
	b.NewRet(nil)
}

func apiScenarios() []apiScenario {
	as1 := func(e types.Type) *types.PointerType { return &types.PointerType{ElemType: e, AddrSpace: 1} }
	return []apiScenario{
		{"alias-of-addrspacecast", func(m *ir.Module, expect func(value.Value, string)) {
			g := m.NewGlobalDef("g", constant.NewInt(types.I32, 0))
			a := m.NewAlias("a", constant.NewAddrSpaceCast(g, as1(types.I32)))
			expect(a, "i32 addrspace(1)*")
			useAll(m, a)
		}, nil},
		{"alias-of-addrspace-global", func(m *ir.Module, expect func(value.Value, string)) {
			g := m.NewGlobalDef("g", constant.NewInt(types.I32, 0))
			g.AddrSpace = 3
			a := m.NewAlias("a", g)
			expect(g, "i32 addrspace(3)*")
			expect(a, "i32 addrspace(3)*")
			useAll(m, a)
		}, nil},
		{"alias-of-gep-expr", func(m *ir.Module, expect func(value.Value, string)) {
			g := m.NewGlobalDef("g", constant.NewZeroInitializer(types.NewArray(2, types.I32)))
			g.AddrSpace = 2
			zero := constant.NewInt(types.I64, 0)
			a := m.NewAlias("a", constant.NewGetElementPtr(types.NewArray(2, types.I32), g, zero, constant.NewInt(types.I64, 1)))
			expect(a, "i32 addrspace(2)*")
			useAll(m, a)
		}, nil},
		{"alias-of-bitcast", func(m *ir.Module, expect func(value.Value, string)) {
			g := m.NewGlobalDef("g", constant.NewInt(types.I32, 0))
			a := m.NewAlias("a", constant.NewBitCast(g, types.NewPointer(types.I8)))
			expect(a, "i8*")
			useAll(m, a)
		}, nil},
		{"ifunc", func(m *ir.Module, expect func(value.Value, string)) {
			impl := types.NewPointer(types.NewFunc(types.I32, types.I32))
			r := m.NewFunc("resolver", impl)
			r.NewBlock("entry").NewRet(constant.NewNull(impl))
			i := m.NewIFunc("i", r)
			expect(i, "i32 (i32)*")
			useAll(m, i)
		}, nil},
		{"global-addrspace", func(m *ir.Module, expect func(value.Value, string)) {
			g := m.NewGlobalDef("g", constant.NewInt(types.I32, 0))
			g.AddrSpace = 5
			expect(g, "i32 addrspace(5)*")
			useAll(m, g)
		}, nil},
		{"func-addrspace", func(m *ir.Module, expect func(value.Value, string)) {
			h := m.NewFunc("h", types.Void)
			h.AddrSpace = 2
			expect(h, "void () addrspace(2)*")
			useAll(m, h)
		}, nil},
		{"func-variadic", func(m *ir.Module, expect func(value.Value, string)) {
			h := m.NewFunc("h", types.I32, ir.NewParam("", types.NewPointer(types.I8)))
			h.Sig.Variadic = true
			expect(h, "i32 (i8*, ...)*")
			useAll(m, h)
			f := m.NewFunc("caller", types.I32, ir.NewParam("fp", h.Type()))
			b := f.NewBlock("entry")
			r1 := b.NewCall(h, constant.NewNull(types.NewPointer(types.I8)), constant.NewInt(types.I32, 1))
			r2 := b.NewCall(f.Params[0], constant.NewNull(types.NewPointer(types.I8)), constant.NewInt(types.I32, 2))
			expect(r1, "i32")
			expect(r2, "i32")
			b.NewRet(b.NewAdd(r1, r2))
		}, nil},
		{"two-names-one-underlying-type", func(m *ir.Module, expect func(value.Value, string)) {
			// several type definitions whose underlying types are structurally equal (non-struct types compare by structure): each must be listed
			// (in the order the parser lists them: natural sort of the names)
			meters, seconds := types.NewInt(32), types.NewInt(32)
			pa, pb := types.NewPointer(types.I8), types.NewPointer(types.I8)
			va, vb := types.NewVector(2, types.Float), types.NewVector(2, types.Float)
			m.NewTypeDef("meters", meters)
			m.NewTypeDef("pa", pa)
			m.NewTypeDef("pb", pb)
			m.NewTypeDef("seconds", seconds)
			m.NewTypeDef("va", va)
			m.NewTypeDef("vb", vb)
			m.NewGlobalDef("m", constant.NewInt(meters, 1))
			m.NewGlobalDef("s", constant.NewInt(seconds, 2))
			f := m.NewFunc("f", seconds, ir.NewParam("a", meters), ir.NewParam("p", pb), ir.NewParam("v", vb), ir.NewParam("q", pa), ir.NewParam("w", va))
			b := f.NewBlock("entry")
			r := b.NewAdd(f.Params[0], constant.NewInt(meters, 3))
			expect(r, "%meters")
			b.NewRet(b.NewBitCast(r, seconds))
		}, nil},
		{"shuffle-mask-lengths", func(m *ir.Module, expect func(value.Value, string)) {
			// the result of a shufflevector has the length of its MASK, however it compares with the length of the inputs (1, 2, 8 from 2)
			v2 := types.NewVector(2, types.I32)
			f := m.NewFunc("f", types.NewVector(8, types.I32), ir.NewParam("a", v2), ir.NewParam("b", v2))
			b := f.NewBlock("entry")
			mask := func(n int) constant.Constant {
				es := make([]constant.Constant, n)
				for i := range es {
					es[i] = constant.NewInt(types.I32, int64(i%4))
				}
				return constant.NewVector(types.NewVector(uint64(n), types.I32), es...)
			}
			s1 := b.NewShuffleVector(f.Params[0], f.Params[1], mask(1))
			expect(s1, "<1 x i32>")
			s2 := b.NewShuffleVector(f.Params[0], f.Params[1], mask(2))
			expect(s2, "<2 x i32>")
			s8 := b.NewShuffleVector(f.Params[0], f.Params[1], mask(8))
			expect(s8, "<8 x i32>")
			b.NewExtractElement(s1, constant.NewInt(types.I32, 0))
			b.NewAdd(s2, s2)
			b.NewRet(s8)
		}, nil},
		{"named-vector-compare", func(m *ir.Module, expect func(value.Value, string)) {
			v := types.NewVector(4, types.I32)
			m.NewTypeDef("v", v)
			f := m.NewFunc("f", types.NewVector(4, types.I32), ir.NewParam("a", v))
			b := f.NewBlock("entry")
			c := b.NewICmp(enum.IPredEQ, f.Params[0], constant.NewZeroInitializer(v))
			c.SetName("c")
			expect(c, "<4 x i1>")
			z := b.NewZExt(c, types.NewVector(4, types.I32))
			b.NewRet(z)
		}, nil},
		{"named-float-vector-compare", func(m *ir.Module, expect func(value.Value, string)) {
			v := types.NewVector(2, types.Double)
			m.NewTypeDef("fv", v)
			f := m.NewFunc("f", types.NewVector(2, types.I1), ir.NewParam("a", v))
			b := f.NewBlock("entry")
			c := b.NewFCmp(enum.FPredOEQ, f.Params[0], f.Params[0])
			c.SetName("c")
			expect(c, "<2 x i1>")
			b.NewRet(c)
		}, nil},
		{"scalable-compare-select", func(m *ir.Module, expect func(value.Value, string)) {
			v := &types.VectorType{Scalable: true, Len: 4, ElemType: types.Float}
			f := m.NewFunc("f", v, ir.NewParam("a", v), ir.NewParam("b", v))
			b := f.NewBlock("entry")
			c := b.NewFCmp(enum.FPredOLT, f.Params[0], f.Params[1])
			c.SetName("c")
			expect(c, "<vscale x 4 x i1>")
			ic := b.NewICmp(enum.IPredEQ, b.NewBitCast(f.Params[0], &types.VectorType{Scalable: true, Len: 4, ElemType: types.I32}),
				constant.NewZeroInitializer(&types.VectorType{Scalable: true, Len: 4, ElemType: types.I32}))
			expect(ic, "<vscale x 4 x i1>")
			s := b.NewSelect(b.NewAnd(c, ic), f.Params[0], f.Params[1])
			expect(s, "<vscale x 4 x float>")
			b.NewRet(s)
		}, nil},
		{"named-struct-aggregate-ops", func(m *ir.Module, expect func(value.Value, string)) {
			inner := types.NewStruct(types.I8, types.I64)
			outer := types.NewStruct(types.I32, inner)
			m.NewTypeDef("outer", outer)
			f := m.NewFunc("f", types.I8, ir.NewParam("a", outer))
			b := f.NewBlock("entry")
			e := b.NewExtractValue(f.Params[0], 1, 0)
			expect(e, "i8")
			i := b.NewInsertValue(f.Params[0], constant.NewInt(types.I64, 7), 1, 1)
			expect(i, "%outer")
			e2 := b.NewExtractValue(i, 1, 0)
			b.NewRet(b.NewAdd(e, e2))
		}, nil},
		{"empty-aggregates", func(m *ir.Module, expect func(value.Value, string)) {
			ps := &types.StructType{Packed: true}
			m.NewGlobalDef("a", constant.NewStruct(types.NewStruct()))
			m.NewGlobalDef("b", constant.NewStruct(ps))
			m.NewGlobalDef("c", constant.NewStruct(&types.StructType{Packed: true, Fields: []types.Type{types.I32}}, constant.NewInt(types.I32, 7)))
			m.NewGlobalDef("d", constant.NewArray(types.NewArray(0, types.I8)))
			m.NewGlobalDef("e", constant.NewStruct(types.NewStruct(ps, types.NewStruct()), constant.NewStruct(ps), constant.NewStruct(types.NewStruct())))
		}, nil},
		{"ptrtoint-scalable-expr", func(m *ir.Module, expect func(value.Value, string)) {
			pv := &types.VectorType{Scalable: true, Len: 2, ElemType: types.NewPointer(types.I8)}
			iv := &types.VectorType{Scalable: true, Len: 2, ElemType: types.I64}
			e := constant.NewPtrToInt(constant.NewZeroInitializer(pv), iv)
			expect(e, "<vscale x 2 x i64>")
			m.NewFunc("f", iv).NewBlock("entry").NewRet(e)
		}, nil},
		{"alloca-addrspace", func(m *ir.Module, expect func(value.Value, string)) {
			f := m.NewFunc("f", types.Void)
			b := f.NewBlock("entry")
			a := b.NewAlloca(types.I32)
			a.AddrSpace = 5
			a.SetName("slot")
			expect(a, "i32 addrspace(5)*")
			b.NewStore(constant.NewInt(types.I32, 1), a)
			b.NewRet(nil)
		}, nil},
		{"gepexpr-inrange", func(m *ir.Module, expect func(value.Value, string)) {
			vt := m.NewGlobalDef("vt", constant.NewZeroInitializer(types.NewStruct(types.NewArray(4, types.I8Ptr), types.NewArray(2, types.I8Ptr))))
			zero := constant.NewInt(types.I32, 0)
			idx := constant.NewIndex(constant.NewInt(types.I32, 1))
			idx.InRange = true
			e := constant.NewGetElementPtr(vt.ContentType, vt, zero, idx, constant.NewInt(types.I32, 1))
			e.InBounds = true
			expect(e, "i8**")
			m.NewGlobalDef("p", e)
			f := m.NewFunc("f", types.NewPointer(types.I8Ptr))
			f.NewBlock("entry").NewRet(e)
		}, []string{"@p = global i8** getelementptr inbounds ({ [4 x i8*], [2 x i8*] }, { [4 x i8*], [2 x i8*] }* @vt, i32 0, inrange i32 1, i32 1)",
			"ret i8** getelementptr inbounds ({ [4 x i8*], [2 x i8*] }, { [4 x i8*], [2 x i8*] }* @vt, i32 0, inrange i32 1, i32 1)"}},
		// a global variable DECLARATION made by the constructor (no initializer, no linkage set): the grammar has no declaration without linkage
		{"global-declaration-without-linkage", func(m *ir.Module, expect func(value.Value, string)) {
			g := m.NewGlobal("g", types.I32)
			expect(g, "i32*")
			h := m.NewGlobal("h", types.I8Ptr)
			h.Linkage = enum.LinkageExternWeak
			f := m.NewFunc("f", types.I32)
			f.NewBlock("entry").NewRet(f.Blocks[0].NewLoad(types.I32, g))
		}, []string{"@g = external global i32", "@h = extern_weak global i8*"}},
		// the address of an UNNAMED block in the initializer of a global variable, which is printed before the function is: the IDs of the blocks
		// are those the function prints (behind an unnamed parameter and the entry block), on the FIRST print
		{"blockaddress-unnamed-block-before-function", func(m *ir.Module, expect func(value.Value, string)) {
			f := m.NewFunc("f", types.Void, ir.NewParam("", types.I32))
			b0, b1, b2 := f.NewBlock(""), f.NewBlock(""), f.NewBlock("")
			b0.NewBr(b1)
			b1.NewBr(b2)
			b2.NewRet(nil)
			tbl := constant.NewArray(types.NewArray(2, types.I8Ptr), constant.NewBlockAddress(f, b1), constant.NewBlockAddress(f, b2))
			expect(tbl, "[2 x i8*]")
			m.NewGlobalDef("tbl", tbl)
		}, []string{"@tbl = global [2 x i8*] [i8* blockaddress(@f, %2), i8* blockaddress(@f, %3)]"}},
	}
}

func init() {
	var sc []apiScenario
	reg("api.list", func(a []string) string {
		var ns []string
		for _, s := range apiScenarios() {
			ns = append(ns, s.name)
		}
		sort.Strings(ns)
		return strings.Join(ns, ",")
	})
	reg("api.text", func(a []string) string {
		for _, s := range apiScenarios() {
			if s.name == a[0] {
				m := ir.NewModule()
				s.build(m, func(value.Value, string) {})
				return hexOut([]byte(m.String()))
			}
		}
		return "skip"
	})
	reg("api.fix", func(a []string) string {
		if sc == nil {
			sc = apiScenarios()
		}
		for _, s := range sc {
			if s.name != a[0] {
				continue
			}
			m := ir.NewModule()
			bad := ""
			s.build(m, func(v value.Value, want string) {
				if got := v.Type().String(); got != want && bad == "" {
					bad = fmt.Sprintf("FAIL %s: a value of type %s reports %s", s.name, want, got)
				}
			})
			if bad != "" {
				return bad
			}
			text := m.String()
			for _, fr := range s.frags {
				if !strings.Contains(text, fr) {
					return "FAIL " + s.name + ": the printed module lacks " + fr
				}
			}
			m2, err := asm.ParseString("x.ll", text)
			if err != nil {
				return "FAIL " + s.name + ": printed text rejected: " + firstLineOf(err.Error())
			}
			if t2 := m2.String(); t2 != text {
				return "FAIL " + s.name + ": not faithful " + firstDiff(text, t2)
			}
			return "ok"
		}
		return "FAIL unknown scenario"
	})
}
