//go:build verif

package main

import (
	"math/big"
	"sort"
	"strconv"
	"strings"

	"github.com/llir/llvm/asm"
	"github.com/llir/llvm/ir/constant"
	"github.com/llir/llvm/ir/types"
	"github.com/llir/llvm/verifhook"
)

func bigArg(s string) *big.Int {
	x, ok := new(big.Int).SetString(s, 10)
	if !ok {
		panic("harness: bad big int " + s)
	}
	return x
}

func uintArg(s string) uint64 {
	x, err := strconv.ParseUint(s, 10, 64)
	if err != nil {
		panic("harness: bad uint " + s)
	}
	return x
}

func asmIntConst(w uint64, lit string) (*big.Int, bool) {
	m, err := asm.ParseString("x.ll", "@g = global i"+strconv.FormatUint(w, 10)+" "+lit+"\n")
	if err != nil || len(m.Globals) != 1 {
		return nil, false
	}
	c, ok := m.Globals[0].Init.(*constant.Int)
	if !ok {
		return nil, false
	}
	return c.X, true
}

func init() {
	reg("nat.less", func(a []string) string {
		return strconv.FormatBool(verifhook.NatLess(string(unhexArg(a[0])), string(unhexArg(a[1]))))
	})
	reg("nat.sort", func(a []string) string {
		ss := make([]string, len(a))
		for i := range a {
			ss[i] = string(unhexArg(a[i]))
		}
		verifhook.NatStrings(ss)
		out := make([]string, len(ss))
		for i := range ss {
			out[i] = hexOut([]byte(ss[i]))
		}
		return strings.Join(out, " ")
	})
	// natsort.Strings returns a Less-sorted permutation, the same for every input order
	reg("nat.sorted", func(a []string) string {
		ss := make([]string, len(a))
		for i := range a {
			ss[i] = string(unhexArg(a[i]))
		}
		sorted := append([]string(nil), ss...)
		verifhook.NatStrings(sorted)
		for i := 0; i+1 < len(sorted); i++ {
			if verifhook.NatLess(sorted[i+1], sorted[i]) {
				return "FAIL not-sorted"
			}
		}
		cnt := map[string]int{}
		for _, x := range ss {
			cnt[x]++
		}
		for _, x := range sorted {
			cnt[x]--
		}
		for _, c := range cnt {
			if c != 0 {
				return "FAIL not-permutation"
			}
		}
		// other input orders: reversed, rotated, plain-bytewise sorted
		variants := [][]string{}
		rev := append([]string(nil), ss...)
		for i, j := 0, len(rev)-1; i < j; i, j = i+1, j-1 {
			rev[i], rev[j] = rev[j], rev[i]
		}
		variants = append(variants, rev)
		if len(ss) > 1 {
			variants = append(variants, append(append([]string(nil), ss[1:]...), ss[0]))
		}
		bw := append([]string(nil), ss...)
		sort.Strings(bw)
		variants = append(variants, bw)
		for _, v := range variants {
			verifhook.NatStrings(v)
			for i := range v {
				if v[i] != sorted[i] {
					return "FAIL order-dependent"
				}
			}
		}
		return "ok"
	})
	// order laws on the real comparison function
	reg("nat.law", func(a []string) string {
		x, y, z := string(unhexArg(a[0])), string(unhexArg(a[1])), string(unhexArg(a[2]))
		L := verifhook.NatLess
		for _, s := range []string{x, y, z} {
			if L(s, s) {
				return "FAIL irrefl"
			}
		}
		for _, p := range [][2]string{{x, y}, {y, z}, {x, z}} {
			if L(p[0], p[1]) && L(p[1], p[0]) {
				return "FAIL asymm"
			}
			if !L(p[0], p[1]) && !L(p[1], p[0]) && p[0] != p[1] {
				return "FAIL total"
			}
		}
		perms := [][3]string{{x, y, z}, {x, z, y}, {y, x, z}, {y, z, x}, {z, x, y}, {z, y, x}}
		for _, p := range perms {
			if L(p[0], p[1]) && L(p[1], p[2]) && !L(p[0], p[2]) {
				return "FAIL trans"
			}
		}
		return "ok"
	})
	// numeric reading of digit runs: prefix ++ dec(m) ++ suffix vs prefix ++ dec(n) ++ suffix
	reg("nat.num", func(a []string) string {
		p, s := string(unhexArg(a[0])), string(unhexArg(a[3]))
		m, n := bigArg(a[1]), bigArg(a[2])
		got := verifhook.NatLess(p+m.String()+s, p+n.String()+s)
		if got != (m.Cmp(n) < 0) {
			return "FAIL"
		}
		return "ok"
	})

	reg("int.ident", func(a []string) string {
		c := &constant.Int{Typ: types.NewInt(uintArg(a[0])), X: bigArg(a[1])}
		return hexOut([]byte(c.Ident()))
	})
	reg("int.parse", func(a []string) string {
		c, err := constant.NewIntFromString(types.NewInt(uintArg(a[0])), string(unhexArg(a[1])))
		if err != nil {
			return "error"
		}
		return c.X.String()
	})
	reg("int.asm", func(a []string) string {
		x, ok := asmIntConst(uintArg(a[0]), string(unhexArg(a[1])))
		if !ok {
			return "error"
		}
		return x.String()
	})
	reg("int.rt", func(a []string) string {
		w := uintArg(a[0])
		x := bigArg(a[1])
		typ := types.NewInt(w)
		c := &constant.Int{Typ: typ, X: x}
		s := c.Ident()
		c2, err := constant.NewIntFromString(typ, s)
		if err != nil || c2.X.Cmp(x) != 0 {
			return "FAIL direct"
		}
		y, ok := asmIntConst(w, s)
		if !ok || y.Cmp(x) != 0 {
			return "FAIL asm"
		}
		return "ok"
	})
	reg("int.sem", func(a []string) string {
		w := uintArg(a[0])
		n := bigArg(a[2])
		var lit string
		want := new(big.Int).Set(n)
		switch a[1] {
		case "dec":
			lit = n.String()
		case "dec0": // leading zeros are still decimal
			if n.Sign() < 0 {
				lit = "-00" + new(big.Int).Neg(n).String()
			} else {
				lit = "0" + n.String()
			}
		case "u0x":
			lit = "u0x" + strings.ToUpper(n.Text(16))
		case "u0xl":
			lit = "u0x" + n.Text(16)
		case "s0x":
			lit = "s0x" + strings.ToUpper(n.Text(16))
			if n.Bit(int(w)-1) == 1 {
				want.Sub(want, new(big.Int).Lsh(big.NewInt(1), uint(w)))
			}
		}
		c, err := constant.NewIntFromString(types.NewInt(w), lit)
		if err != nil || c.X.Cmp(want) != 0 {
			return "FAIL direct"
		}
		y, ok := asmIntConst(w, lit)
		if !ok || y.Cmp(want) != 0 {
			return "FAIL asm"
		}
		return "ok"
	})
}
