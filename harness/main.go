//go:build verif

// Command harness runs line-protocol operations against the real llir/llvm
// implementation in /repo (linked through a replace directive).
package main

import (
	"bufio"
	"encoding/hex"
	"fmt"
	"os"
	"runtime/debug"
	"strings"
	"sync/atomic"
	"time"
)

type opFunc func(args []string) string

var ops = map[string]opFunc{}

func reg(name string, f opFunc) { ops[name] = f }

func unhexArg(s string) []byte {
	if s == "-" {
		return nil
	}
	b, err := hex.DecodeString(s)
	if err != nil {
		panic("harness: bad hex arg " + s)
	}
	return b
}

func hexOut(b []byte) string {
	if len(b) == 0 {
		return "-"
	}
	return hex.EncodeToString(b)
}

var verbosePanic = os.Getenv("VERIF_PANIC_TRACE") != ""

func safe(f opFunc, args []string) (res string) {
	defer func() {
		if e := recover(); e != nil {
			if verbosePanic {
				fmt.Fprintf(os.Stderr, "panic: %v\n%s\n", e, debug.Stack())
			}
			res = "panic"
		}
	}()
	return f(args)
}

func main() {
	if len(os.Args) < 2 {
		fmt.Fprintln(os.Stderr, "usage: harness run|tables|facts ...")
		os.Exit(2)
	}
	switch os.Args[1] {
	case "run":
		run()
	case "tables":
		tables()
	default:
		if f, ok := cmds[os.Args[1]]; ok {
			f(os.Args[2:])
			return
		}
		fmt.Fprintln(os.Stderr, "unknown subcommand", os.Args[1])
		os.Exit(2)
	}
}

var cmds = map[string]func(args []string){}

func run() {
	in := bufio.NewScanner(os.Stdin)
	in.Buffer(make([]byte, 1<<20), 1<<26)
	out := bufio.NewWriterSize(os.Stdout, 1<<16)
	defer out.Flush()
	var progress int64
	var lineNo int64
	// watchdog: an op that takes more than 20 s is reported as "hang" and the process exits 3.
	go func() {
		last := int64(-1)
		stuck := 0
		for {
			time.Sleep(2 * time.Second)
			cur := atomic.LoadInt64(&progress)
			if cur == last {
				stuck++
			} else {
				stuck = 0
				last = cur
			}
			if stuck >= 10 {
				out.Flush()
				fmt.Println("hang")
				os.Exit(3)
			}
		}
	}()
	for in.Scan() {
		line := in.Text()
		lineNo++
		atomic.AddInt64(&progress, 1)
		if line == "" || strings.HasPrefix(line, "#") {
			fmt.Fprintln(out, line)
			continue
		}
		fields := strings.Fields(line)
		name := strings.TrimPrefix(fields[0], "!")
		f, ok := ops[name]
		if !ok {
			fmt.Fprintln(out, "unknown-op")
			continue
		}
		// one line per op, whatever the op put into its message
		res := safe(f, fields[1:])
		if strings.ContainsAny(res, "\n\r") {
			res = strings.NewReplacer("\n", "\\n", "\r", "\\r").Replace(res)
		}
		fmt.Fprintln(out, res)
		if lineNo%256 == 0 {
			out.Flush()
		}
	}
}
