//go:build verif

package main

import (
	"fmt"
	"sort"
	"strings"

	"github.com/llir/llvm/asm"
	"github.com/llir/llvm/ir"
	"github.com/llir/llvm/ir/metadata"
)

func mdModule(ids []int64) *ir.Module {
	m := ir.NewModule()
	for _, id := range ids {
		m.MetadataDefs = append(m.MetadataDefs, &metadata.Tuple{MetadataID: metadata.MetadataID(id)})
	}
	return m
}

func mdIDs(m *ir.Module) []int64 {
	var out []int64
	for _, d := range m.MetadataDefs {
		out = append(out, d.ID())
	}
	return out
}

func joinIDs(ids []int64) string {
	ss := make([]string, len(ids))
	for i, x := range ids {
		ss[i] = fmt.Sprint(x)
	}
	return strings.Join(ss, ",")
}

func parseIDs(s string) []int64 {
	if s == "-" || s == "" {
		return nil
	}
	var out []int64
	for _, p := range strings.Split(s, ",") {
		out = append(out, atoi64(p))
	}
	return out
}

func init() {
	reg("md.assign", func(a []string) string {
		m := mdModule(parseIDs(a[0]))
		if err := m.AssignMetadataIDs(); err != nil {
			return "error"
		}
		return "ok " + joinIDs(mdIDs(m))
	})
	// property oracle on the implementation: uniqueness, explicit kept, smallest unused in order, idempotence, printable
	reg("md.uniq", func(a []string) string {
		in := parseIDs(a[0])
		m := mdModule(in)
		if err := m.AssignMetadataIDs(); err != nil {
			return "FAIL error"
		}
		out := mdIDs(m)
		seen := map[int64]bool{}
		used := map[int64]bool{}
		for _, x := range in {
			if x != -1 {
				used[x] = true
			}
		}
		next := int64(0)
		for i, x := range out {
			if seen[x] {
				return "FAIL duplicate"
			}
			seen[x] = true
			if in[i] != -1 {
				if x != in[i] {
					return "FAIL explicit-changed"
				}
				continue
			}
			for used[next] {
				next++
			}
			if x != next {
				return "FAIL not-smallest-unused"
			}
			next++
		}
		if err := m.AssignMetadataIDs(); err != nil || joinIDs(mdIDs(m)) != joinIDs(out) {
			return "FAIL not-idempotent"
		}
		text := m.String()
		m2, err := asm.ParseString("x.ll", text)
		if err != nil || len(m2.MetadataDefs) != len(out) {
			return "FAIL reparse"
		}
		return "ok"
	})
	// md.graph <def>;<def>;... with def = id[d]:ref,ref  (refs are ids; 'n' = null; 's' = a metadata string)
	// optional named metadata: N<hexname>:ref,ref given several times. Definitions are emitted in the given (textual) order.
	reg("md.graph", func(a []string) string {
		type def struct {
			id       int64
			distinct bool
			refs     []string
		}
		var defs []def
		type nmd struct {
			name string
			refs []string
		}
		var nmds []nmd
		var sb strings.Builder
		for _, s := range a {
			p := strings.SplitN(s, ":", 2)
			var refs []string
			if len(p) > 1 && p[1] != "" {
				refs = strings.Split(p[1], ",")
			}
			if strings.HasPrefix(p[0], "N") {
				name := string(unhexArg(p[0][1:]))
				nmds = append(nmds, nmd{name, refs})
				var rs []string
				for _, r := range refs {
					rs = append(rs, "!"+r)
				}
				fmt.Fprintf(&sb, "!%s = !{%s}\n", name, strings.Join(rs, ", "))
				continue
			}
			d := def{refs: refs}
			idText := p[0]
			if strings.HasSuffix(idText, "d") {
				d.distinct = true
				idText = idText[:len(idText)-1]
			}
			d.id = atoi64(idText)
			defs = append(defs, d)
			var fs []string
			for _, r := range refs {
				switch r {
				case "n":
					fs = append(fs, "null")
				case "s":
					fs = append(fs, `!"str"`)
				case "i":
					fs = append(fs, "!{}") // inline tuple
				default:
					fs = append(fs, "!"+r)
				}
			}
			dist := ""
			if d.distinct {
				dist = "distinct "
			}
			fmt.Fprintf(&sb, "!%d = %s!{%s}\n", d.id, dist, strings.Join(fs, ", "))
		}
		m, err := asm.ParseString("x.ll", sb.String())
		if err != nil {
			return "FAIL error"
		}
		byID := map[int64]metadata.Definition{}
		var ids []int64
		for _, d := range m.MetadataDefs {
			if _, dup := byID[d.ID()]; dup {
				return "FAIL duplicate-id"
			}
			byID[d.ID()] = d
			ids = append(ids, d.ID())
		}
		if !sort.SliceIsSorted(ids, func(i, j int) bool { return ids[i] < ids[j] }) {
			return "FAIL order"
		}
		if len(ids) != len(defs) {
			return "FAIL count"
		}
		for _, d := range defs {
			t, ok := byID[d.id].(*metadata.Tuple)
			if !ok {
				return "FAIL kind"
			}
			if t.Distinct != d.distinct {
				return "FAIL distinct"
			}
			if len(t.Fields) != len(d.refs) {
				return "FAIL fields"
			}
			for i, r := range d.refs {
				switch r {
				case "n":
					if t.Fields[i] != metadata.Null {
						return "FAIL null"
					}
				case "s":
					if _, ok := t.Fields[i].(*metadata.String); !ok {
						return "FAIL string"
					}
				case "i":
					it, ok := t.Fields[i].(*metadata.Tuple)
					if !ok || it.MetadataID != -1 {
						return "FAIL inline"
					}
					for _, dd := range m.MetadataDefs {
						if dd == metadata.Definition(it) {
							return "FAIL inline-listed"
						}
					}
				default:
					want := byID[atoi64(r)]
					got, ok := t.Fields[i].(metadata.Definition)
					if !ok || got != want {
						return "FAIL identity"
					}
				}
			}
		}
		// named metadata: merged by concatenation in textual order
		wantN := map[string][]string{}
		for _, n := range nmds {
			wantN[n.name] = append(wantN[n.name], n.refs...)
		}
		if len(wantN) != len(m.NamedMetadataDefs) {
			return "FAIL named-count"
		}
		for name, refs := range wantN {
			nd := m.NamedMetadataDefs[name]
			if nd == nil || len(nd.Nodes) != len(refs) {
				return "FAIL named"
			}
			for i, r := range refs {
				if d, ok := nd.Nodes[i].(metadata.Definition); !ok || d != byID[atoi64(r)] {
					return "FAIL named-identity"
				}
			}
		}
		// printed IDs: every reference prints the ID of its target; fixpoint
		text := m.String()
		m2, err := asm.ParseString("x.ll", text)
		if err != nil || m2.String() != text {
			return "FAIL print"
		}
		return "ok"
	})
}
