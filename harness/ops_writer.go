//go:build verif

package main

import (
	"errors"
	"fmt"
	"os"
	"path/filepath"
	"sort"
	"strconv"
	"strings"
	"sync"

	"github.com/llir/llvm/asm"
	"github.com/llir/llvm/ir"
)

var (
	corpusOnce  sync.Once
	corpusFiles []string
)

func corpusDir() string {
	if d := os.Getenv("VERIF_CORPUS"); d != "" {
		return d
	}
	return "/verif/corpus/ll"
}

func corpusList() []string {
	corpusOnce.Do(func() {
		fs, _ := filepath.Glob(filepath.Join(corpusDir(), "*.ll"))
		sort.Strings(fs)
		corpusFiles = fs
	})
	return corpusFiles
}

// corpusModule parses corpus file number id afresh (so that every op starts from a never-printed module).
func corpusModule(id int) *ir.Module {
	fs := corpusList()
	m, err := asm.ParseFile(fs[id%len(fs)])
	if err != nil {
		panic(err)
	}
	return m
}

type recWriter struct {
	mode      string // ok | fail | errfull | short
	k         int
	data      []byte
	chunks    []int
	failed    bool
	afterFail int
}

var errInjected = errors.New("injected write failure")

func (w *recWriter) Write(p []byte) (int, error) {
	if w.failed {
		w.afterFail++
	}
	w.chunks = append(w.chunks, len(p))
	switch w.mode {
	case "fail":
		room := w.k - len(w.data)
		if len(p) <= room {
			w.data = append(w.data, p...)
			return len(p), nil
		}
		w.data = append(w.data, p[:room]...)
		w.failed = true
		return room, errInjected
	case "errfull":
		w.data = append(w.data, p...)
		if len(w.data) > w.k {
			w.failed = true
			return len(p), errInjected
		}
		return len(p), nil
	default:
		w.data = append(w.data, p...)
		return len(p), nil
	}
}

func chunkStr(c []int) string {
	if len(c) == 0 {
		return "-"
	}
	ss := make([]string, len(c))
	for i, x := range c {
		ss[i] = strconv.Itoa(x)
	}
	return strings.Join(ss, ",")
}

func init() {
	reg("wt.count", func(a []string) string { return strconv.Itoa(len(corpusList())) })
	reg("wt.trace", func(a []string) string {
		m := corpusModule(int(atoi64(a[0])))
		w := &recWriter{mode: "ok"}
		n, err := m.WriteTo(w)
		if err != nil || int(n) != len(w.data) {
			return "bad"
		}
		return fmt.Sprintf("%d %s", n, chunkStr(w.chunks))
	})
	// wt.run <mod> <mode> <k> <chunks>: the chunk list is what the model consumes; the harness checks it is current.
	reg("wt.run", func(a []string) string {
		m := corpusModule(int(atoi64(a[0])))
		w := &recWriter{mode: a[1], k: int(atoi64(a[2]))}
		n, err := m.WriteTo(w)
		e := 0
		if err != nil {
			e = 1
		}
		return fmt.Sprintf("n=%d err=%d delivered=%d after=%d", n, e, len(w.data), w.afterFail)
	})
	reg("wt.prop", func(a []string) string {
		id := int(atoi64(a[0]))
		want := corpusModule(id).String()
		m := corpusModule(id)
		k := int(atoi64(a[2]))
		w := &recWriter{mode: a[1], k: k}
		n, err := m.WriteTo(w)
		if int(n) != len(w.data) {
			return "FAIL count"
		}
		if !strings.HasPrefix(want, string(w.data)) {
			return "FAIL prefix"
		}
		if w.afterFail != 0 {
			return "FAIL write-after-error"
		}
		switch a[1] {
		case "ok":
			if err != nil || string(w.data) != want {
				return "FAIL total"
			}
		case "fail":
			if k < len(want) {
				if err != errInjected || len(w.data) != k {
					return "FAIL fail-after-k"
				}
			} else if err != nil || string(w.data) != want {
				return "FAIL total"
			}
		case "errfull":
			if (err != nil) != (len(want) > k) {
				return "FAIL first-error"
			}
			if err != nil && err != errInjected {
				return "FAIL first-error"
			}
		}
		return "ok"
	})
}
