//go:build verif

package main

import (
	"encoding/json"
	"fmt"
	"go/ast"
	"go/parser"
	"go/printer"
	"go/token"
	"os"
	"path/filepath"
	"sort"
	"strings"
)

// facts extracts syntactic facts from /repo's current source (go/ast) as JSON.
func init() {
	cmds["facts"] = func(args []string) {
		repo := "/repo"
		if v := os.Getenv("VERIF_REPO"); v != "" {
			repo = v
		}
		out := map[string]interface{}{}
		out["lock"] = lockFacts(repo)
		out["writer"] = writerFacts(repo)
		out["sort"] = sortFacts(repo)
		out["typecache"] = typeCacheFacts(repo)
		out["builders"] = builderFacts(repo)
		out["globalwrites"] = globalWriteFacts(repo)
		out["errdrops"] = errDropFacts(repo)
		out["asmvars"] = asmVarFacts(repo)
		out["lazyctors"] = lazyCtorFacts(repo)
		out["observerwrites"] = observerWriteFacts(repo)
		out["difields"] = diFacts(repo)
		enc := json.NewEncoder(os.Stdout)
		enc.SetIndent("", " ")
		enc.Encode(out)
	}
}

func src(fset *token.FileSet, n ast.Node) string {
	var sb strings.Builder
	printer.Fprint(&sb, fset, n)
	return strings.Join(strings.Fields(sb.String()), " ")
}

func parseDir(repo, dir string) (*token.FileSet, []*ast.File) {
	fset := token.NewFileSet()
	var files []*ast.File
	ps, _ := filepath.Glob(filepath.Join(repo, dir, "*.go"))
	sort.Strings(ps)
	for _, p := range ps {
		if strings.HasSuffix(p, "_test.go") || strings.HasSuffix(p, "_verif.go") {
			continue
		}
		f, err := parser.ParseFile(fset, p, nil, 0)
		if err != nil {
			fmt.Fprintln(os.Stderr, err)
			os.Exit(1)
		}
		files = append(files, f)
	}
	return fset, files
}

func findFunc(files []*ast.File, recv, name string) *ast.FuncDecl {
	for _, f := range files {
		for _, d := range f.Decls {
			fd, ok := d.(*ast.FuncDecl)
			if !ok || fd.Name.Name != name {
				continue
			}
			if recv == "" && fd.Recv == nil {
				return fd
			}
			if fd.Recv != nil && len(fd.Recv.List) == 1 {
				t := fd.Recv.List[0].Type
				if st, ok := t.(*ast.StarExpr); ok {
					t = st.X
				}
				if id, ok := t.(*ast.Ident); ok && id.Name == recv {
					return fd
				}
			}
		}
	}
	return nil
}

// lockFacts: for the three ID-assigning functions: lock taken first, unlock deferred, and every SetID call
// guarded by a comparison of the current ID with the value to be written.
func lockFacts(repo string) map[string]interface{} {
	fset, files := parseDir(repo, "ir")
	res := map[string]interface{}{}
	for _, spec := range [][2]string{{"Func", "AssignIDs"}, {"Module", "AssignGlobalIDs"}, {"Module", "AssignMetadataIDs"}} {
		fd := findFunc(files, spec[0], spec[1])
		m := map[string]interface{}{"found": fd != nil}
		if fd != nil && fd.Body != nil && len(fd.Body.List) >= 2 {
			m["locksFirst"] = strings.HasSuffix(src(fset, fd.Body.List[0]), ".mu.Lock()")
			m["defersUnlock"] = strings.HasPrefix(src(fset, fd.Body.List[1]), "defer ") && strings.HasSuffix(src(fset, fd.Body.List[1]), ".mu.Unlock()")
			total, guarded := 0, 0
			var stack []ast.Node
			ast.Inspect(fd.Body, func(n ast.Node) bool {
				if n == nil {
					stack = stack[:len(stack)-1]
					return true
				}
				stack = append(stack, n)
				if ce, ok := n.(*ast.CallExpr); ok {
					if se, ok := ce.Fun.(*ast.SelectorExpr); ok && se.Sel.Name == "SetID" {
						total++
						arg := src(fset, ce.Args[0])
						recv := src(fset, se.X)
						for i := len(stack) - 1; i >= 0; i-- {
							if is, ok := stack[i].(*ast.IfStmt); ok {
								c := src(fset, is.Cond)
								if c == recv+".ID() != "+arg || c == arg+" != "+recv+".ID()" || c == "id != -1" && false {
									guarded++
									break
								}
							}
						}
					}
				}
				return true
			})
			m["setIDCalls"] = total
			m["setIDGuarded"] = guarded
		}
		res[spec[1]] = m
	}
	// every other SetID / SetName call site in package ir (outside the three functions and the methods themselves)
	var others []string
	for _, f := range files {
		for _, d := range f.Decls {
			fd, ok := d.(*ast.FuncDecl)
			if !ok || fd.Body == nil {
				continue
			}
			switch fd.Name.Name {
			case "AssignIDs", "AssignGlobalIDs", "AssignMetadataIDs", "SetID", "SetName":
				continue
			}
			ast.Inspect(fd.Body, func(n ast.Node) bool {
				if ce, ok := n.(*ast.CallExpr); ok {
					if se, ok := ce.Fun.(*ast.SelectorExpr); ok && se.Sel.Name == "SetID" {
						others = append(others, fd.Name.Name)
					}
				}
				return true
			})
		}
	}
	sort.Strings(others)
	res["otherSetIDCallers"] = others
	return res
}

// writerFacts: discipline of WriteTo / fmtWriter (C19).
func writerFacts(repo string) map[string]interface{} {
	fset, files := parseDir(repo, "ir")
	res := map[string]interface{}{}
	wt := findFunc(files, "Module", "WriteTo")
	if wt == nil {
		res["found"] = false
		return res
	}
	res["found"] = true
	param := wt.Type.Params.List[0].Names[0].Name
	uses, inLit, fwW, rets, retsOK, assignsToFw := 0, 0, 0, 0, 0, 0
	ast.Inspect(wt.Body, func(n ast.Node) bool {
		switch x := n.(type) {
		case *ast.KeyValueExpr:
			if id, ok := x.Value.(*ast.Ident); ok && id.Name == param {
				if k, ok := x.Key.(*ast.Ident); ok && k.Name == "w" {
					inLit++
				}
			}
		case *ast.Ident:
			if x.Name == param && x.Obj != nil && x.Obj.Kind == ast.Var {
				uses++
			}
		case *ast.SelectorExpr:
			if s := src(fset, x); s == "fw.w" {
				fwW++
			}
		case *ast.ReturnStmt:
			rets++
			if src(fset, x) == "return fw.size, fw.err" {
				retsOK++
			}
		case *ast.AssignStmt:
			for _, l := range x.Lhs {
				if s := src(fset, l); s == "fw.size" || s == "fw.err" || s == "fw.w" {
					assignsToFw++
				}
			}
		case *ast.IncDecStmt:
			if s := src(fset, x.X); s == "fw.size" {
				assignsToFw++
			}
		}
		return true
	})
	// identifiers naming the parameter inside the &fmtWriter{...} literal
	insideLit := 0
	ast.Inspect(wt.Body, func(n ast.Node) bool {
		if cl, ok := n.(*ast.CompositeLit); ok {
			if id, ok := cl.Type.(*ast.Ident); ok && id.Name == "fmtWriter" {
				ast.Inspect(cl, func(m ast.Node) bool {
					if id, ok := m.(*ast.Ident); ok && id.Name == param && id.Obj != nil && id.Obj.Kind == ast.Var {
						insideLit++
					}
					return true
				})
			}
		}
		return true
	})
	res["paramUsesOutsideLiteral"] = uses - insideLit
	res["paramUses"] = uses
	res["paramUsesInFmtWriterLiteral"] = inLit
	res["fwDotWUsesInWriteTo"] = fwW
	res["returns"] = rets
	res["returnsSizeErr"] = retsOK
	res["assignsToFwFieldsInWriteTo"] = assignsToFw
	for _, name := range []string{"Fprint", "Fprintf", "Fprintln"} {
		fd := findFunc(files, "fmtWriter", name)
		m := map[string]interface{}{"found": fd != nil}
		if fd != nil {
			b := fd.Body.List
			m["stmts"] = len(b)
			if len(b) == 5 {
				m["guard"] = src(fset, b[0]) == "if fw.err != nil { return 0, nil }"
				m["singleWrite"] = strings.HasPrefix(src(fset, b[1]), "n, err = fmt."+name+"(fw.w, ")
				m["counts"] = src(fset, b[2]) == "fw.size += int64(n)"
				m["latches"] = src(fset, b[3]) == "fw.err = err"
				m["returns"] = src(fset, b[4]) == "return n, err"
			}
		}
		res[name] = m
	}
	return res
}

// sortFacts: which comparison orders each list of definitions (C20).
func sortFacts(repo string) map[string]interface{} {
	fset, files := parseDir(repo, "asm")
	res := map[string]interface{}{}
	for _, name := range []string{"addTypeDefsToModule", "addComdatDefsToModule", "addAttrGroupDefsToModule", "addMetadataDefsToModule", "addGlobalEntitiesToModule"} {
		fd := findFunc(files, "generator", name)
		if fd == nil {
			res[name] = "missing"
			continue
		}
		kind := "none"
		ast.Inspect(fd.Body, func(n ast.Node) bool {
			if ce, ok := n.(*ast.CallExpr); ok {
				switch s := src(fset, ce.Fun); s {
				case "natsort.Strings":
					kind = "natsort"
				case "sort.Slice":
					kind = "sort.Slice"
					// comparison closure: must be `<` on the slice being sorted
					ast.Inspect(fd.Body, func(m ast.Node) bool {
						if fl, ok := m.(*ast.FuncLit); ok {
							body := src(fset, fl.Body)
							arg := src(fset, ce.Args[0])
							if body == "{ return "+arg+"[i] < "+arg+"[j] }" {
								kind = "sort.Slice<"
							}
						}
						return true
					})
				case "sort.Strings":
					kind = "sort.Strings"
				}
			}
			if rs, ok := n.(*ast.RangeStmt); ok && name == "addGlobalEntitiesToModule" {
				if src(fset, rs.X) == "gen.old.globalOrder" {
					kind = "textual-order"
				}
			}
			return true
		})
		res[name] = kind
	}
	// named metadata in WriteTo
	_, irfiles := parseDir(repo, "ir")
	fsetIR, _ := parseDir(repo, "ir")
	_ = fsetIR
	wt := findFunc(irfiles, "Module", "WriteTo")
	nm := "none"
	if wt != nil {
		ast.Inspect(wt.Body, func(n ast.Node) bool {
			if ce, ok := n.(*ast.CallExpr); ok {
				if se, ok := ce.Fun.(*ast.SelectorExpr); ok {
					if id, ok := se.X.(*ast.Ident); ok && id.Name == "natsort" && se.Sel.Name == "Strings" {
						nm = "natsort"
					}
				}
			}
			return true
		})
	}
	res["namedMetadataInWriteTo"] = nm
	return res
}

// typeCacheFacts: Type() methods (packages ir, ir/constant, ir/metadata) that write a field of their receiver: is every such write inside
// `if recv.F == nil { ... }` for the SAME field F (fill-once cache)? A cache test of any other form (`if _, ok := recv.Typ.(*T); ok`) lets Type() store on
// every call: printing then writes shared state (C13) and an observer overwrites what an edit set (C14).
func typeCacheFacts(repo string) map[string]interface{} {
	type row struct {
		Recv    string `json:"recv"`
		Method  string `json:"method"`
		Guarded bool   `json:"guarded"`
	}
	var rows []row
	for _, dir := range []string{"ir", "ir/constant", "ir/metadata"} {
		fset, files := parseDir(repo, dir)
		for _, f := range files {
			for _, d := range f.Decls {
				fd, ok := d.(*ast.FuncDecl)
				if !ok || fd.Recv == nil || fd.Body == nil || fd.Name.Name != "Type" {
					continue
				}
				recvName := ""
				if len(fd.Recv.List[0].Names) > 0 {
					recvName = fd.Recv.List[0].Names[0].Name
				}
				// is `cond` the test `recv.fld == nil`?
				// a selector path rooted at the receiver (`recv.A.B`): reading it has no effect
				var recvPath func(e ast.Expr) bool
				recvPath = func(e ast.Expr) bool {
					switch x := e.(type) {
					case *ast.Ident:
						return x.Name == recvName
					case *ast.SelectorExpr:
						return recvPath(x.X)
					}
					return false
				}
				var nilTest func(cond ast.Expr, fld string) bool
				nilTest = func(cond ast.Expr, fld string) bool {
					be, ok := cond.(*ast.BinaryExpr)
					if ok && be.Op == token.LOR {
						// `recv.F == nil || recv.F.X != recv.Y`: still a fill-once cache as long as the other disjuncts only compare fields (the store
						// makes them false); anything else (a call, a type assertion) is not recognised
						r, ok := be.Y.(*ast.BinaryExpr)
						return ok && (r.Op == token.NEQ || r.Op == token.EQL) && recvPath(r.X) && recvPath(r.Y) && nilTest(be.X, fld)
					}
					if !ok || be.Op != token.EQL {
						return false
					}
					se, ok := be.X.(*ast.SelectorExpr)
					if !ok || se.Sel.Name != fld {
						return false
					}
					id, ok := se.X.(*ast.Ident)
					if !ok || id.Name != recvName {
						return false
					}
					n, ok := be.Y.(*ast.Ident)
					return ok && n.Name == "nil"
				}
				writes := false
				guarded := true
				var stack []ast.Node
				ast.Inspect(fd.Body, func(n ast.Node) bool {
					if n == nil {
						stack = stack[:len(stack)-1]
						return true
					}
					stack = append(stack, n)
					if as, ok := n.(*ast.AssignStmt); ok {
						for _, l := range as.Lhs {
							if se, ok := l.(*ast.SelectorExpr); ok {
								if id, ok := se.X.(*ast.Ident); ok && id.Name == recvName {
									writes = true
									g := false
									for i := len(stack) - 1; i >= 1; i-- {
										// the assignment must be in the THEN branch of the nil test
										if is, ok := stack[i-1].(*ast.IfStmt); ok && stack[i] == ast.Node(is.Body) && is.Init == nil && nilTest(is.Cond, se.Sel.Name) {
											g = true
											break
										}
									}
									if !g {
										guarded = false
									}
								}
							}
						}
					}
					return true
				})
				if writes {
					t := src(fset, fd.Recv.List[0].Type)
					if dir != "ir" {
						t = dir[strings.LastIndex(dir, "/")+1:] + "." + t
					}
					rows = append(rows, row{t, fd.Name.Name, guarded})
				}
			}
		}
	}
	sort.Slice(rows, func(i, j int) bool { return rows[i].Recv+rows[i].Method < rows[j].Recv+rows[j].Method })
	return map[string]interface{}{"cacheWriters": rows}
}

// builderFacts: every method `func (block *Block) NewX(params) *T` of package ir must be a pure delegation to the free
// constructor of the same name: `v := NewX(params...)` with the parameters passed unchanged and in order, then
// `block.Insts = append(block.Insts, v)` or `block.Term = v`, then `return v` - and nothing else.
func builderFacts(repo string) []map[string]interface{} {
	fset, files := parseDir(repo, "ir")
	var out []map[string]interface{}
	for _, f := range files {
		for _, d := range f.Decls {
			fd, ok := d.(*ast.FuncDecl)
			if !ok || fd.Recv == nil || !strings.HasPrefix(fd.Name.Name, "New") || fd.Body == nil {
				continue
			}
			st, ok := fd.Recv.List[0].Type.(*ast.StarExpr)
			if !ok {
				continue
			}
			id, ok := st.X.(*ast.Ident)
			if !ok || (id.Name != "Block" && id.Name != "Func" && id.Name != "Module") {
				continue
			}
			recvType := id.Name
			if recvType == "Module" && fd.Name.Name == "NewTypeDef" {
				continue // no free constructor exists: it names the given type and lists it
			}
			recv := ""
			if len(fd.Recv.List[0].Names) == 1 {
				recv = fd.Recv.List[0].Names[0].Name
			}
			why := ""
			var params []string
			variadic := false
			for _, p := range fd.Type.Params.List {
				if _, ok := p.Type.(*ast.Ellipsis); ok {
					variadic = true
				}
				for _, n := range p.Names {
					params = append(params, n.Name)
				}
			}
			body := fd.Body.List
			want := 3
			if recvType == "Func" || (recvType == "Module" && fd.Name.Name == "NewFunc") {
				want = 4 // sets the Parent field too
			}
			if len(body) != want {
				why = fmt.Sprintf("%d statements instead of %d", len(body), want)
			} else {
				as, ok := body[0].(*ast.AssignStmt)
				var v string
				if !ok || len(as.Lhs) != 1 || len(as.Rhs) != 1 {
					why = "first statement is not `v := NewX(...)`"
				} else {
					v = src(fset, as.Lhs[0])
					call, ok := as.Rhs[0].(*ast.CallExpr)
					if !ok || src(fset, call.Fun) != fd.Name.Name {
						why = "first statement does not call the free constructor " + fd.Name.Name
					} else {
						var args []string
						for _, a := range call.Args {
							args = append(args, src(fset, a))
						}
						if strings.Join(args, ",") != strings.Join(params, ",") || (variadic != (call.Ellipsis != token.NoPos)) {
							why = "arguments are not the parameters, unchanged and in order"
						}
					}
				}
				for _, st := range body[1 : len(body)-1] {
					if why != "" {
						break
					}
					s1 := strings.Join(strings.Fields(src(fset, st)), " ")
					okStmt := false
					if s1 == fmt.Sprintf("%s.Parent = %s", v, recv) && want == 4 {
						okStmt = true
					}
					if recvType == "Block" && s1 == fmt.Sprintf("%s.Term = %s", recv, v) {
						okStmt = true
					}
					if as, ok := st.(*ast.AssignStmt); ok && len(as.Lhs) == 1 && len(as.Rhs) == 1 {
						lhs := src(fset, as.Lhs[0])
						if strings.HasPrefix(lhs, recv+".") && s1 == fmt.Sprintf("%s = append(%s, %s)", lhs, lhs, v) {
							okStmt = true
						}
					}
					if !okStmt {
						why = "statement is neither the insertion into the receiver nor the Parent link: " + s1
					}
				}
				if why == "" && want == 4 {
					s1 := strings.Join(strings.Fields(src(fset, body[1])), " ")
					s2 := strings.Join(strings.Fields(src(fset, body[2])), " ")
					if (s1 == fmt.Sprintf("%s.Parent = %s", v, recv)) == (s2 == fmt.Sprintf("%s.Parent = %s", v, recv)) {
						why = "does not both link the Parent and insert into the receiver"
					}
				}
				if why == "" {
					if strings.Join(strings.Fields(src(fset, body[len(body)-1])), " ") != "return "+v {
						why = "does not return the constructed value"
					}
				}
			}
			name := fd.Name.Name
			if recvType != "Block" {
				name = recvType + "." + name
			}
			out = append(out, map[string]interface{}{"name": name, "delegates": why == "", "why": why})
		}
	}
	sort.Slice(out, func(i, j int) bool { return out[i]["name"].(string) < out[j]["name"].(string) })
	return out
}

// globalWriteFacts: package-level variables of the printing packages that are WRITTEN inside a function body (assignment to
// the variable, to an index or field of it, or append into it). Printing runs unlocked on many goroutines, so there must be none.
func globalWriteFacts(repo string) []map[string]interface{} {
	var out []map[string]interface{}
	for _, dir := range []string{"ir", "ir/types", "ir/constant", "ir/metadata", "ir/enum", "ir/value", "internal/enc", "internal/natsort", "internal/gep"} {
		fset, files := parseDir(repo, dir)
		globals := map[string]bool{}
		for _, f := range files {
			for _, d := range f.Decls {
				gd, ok := d.(*ast.GenDecl)
				if !ok || gd.Tok != token.VAR {
					continue
				}
				for _, sp := range gd.Specs {
					for _, n := range sp.(*ast.ValueSpec).Names {
						if n.Name != "_" {
							globals[n.Name] = true
						}
					}
				}
			}
		}
		root := func(e ast.Expr) string {
			for {
				switch x := e.(type) {
				case *ast.IndexExpr:
					e = x.X
				case *ast.SelectorExpr:
					e = x.X
				case *ast.StarExpr:
					e = x.X
				case *ast.ParenExpr:
					e = x.X
				case *ast.Ident:
					return x.Name
				default:
					return ""
				}
			}
		}
		for _, f := range files {
			for _, d := range f.Decls {
				fd, ok := d.(*ast.FuncDecl)
				if !ok || fd.Body == nil || fd.Name.Name == "init" {
					continue
				}
				// names shadowed by parameters / receivers / local declarations are not the globals
				local := map[string]bool{}
				if fd.Recv != nil {
					for _, p := range fd.Recv.List {
						for _, n := range p.Names {
							local[n.Name] = true
						}
					}
				}
				for _, p := range fd.Type.Params.List {
					for _, n := range p.Names {
						local[n.Name] = true
					}
				}
				ast.Inspect(fd.Body, func(n ast.Node) bool {
					switch x := n.(type) {
					case *ast.AssignStmt:
						if x.Tok == token.DEFINE {
							for _, l := range x.Lhs {
								if id, ok := l.(*ast.Ident); ok {
									local[id.Name] = true
								}
							}
							return true
						}
						for _, l := range x.Lhs {
							r := root(l)
							if r != "" && globals[r] && !local[r] {
								out = append(out, map[string]interface{}{"pkg": dir, "func": fd.Name.Name, "var": r, "stmt": src(fset, x)})
							}
						}
					case *ast.IncDecStmt:
						r := root(x.X)
						if r != "" && globals[r] && !local[r] {
							out = append(out, map[string]interface{}{"pkg": dir, "func": fd.Name.Name, "var": r, "stmt": src(fset, x)})
						}
					case *ast.SliceExpr:
						// a slice of a package-level array / slice shares its backing store: what is appended or stored through it is a write to the variable
						r := root(x.X)
						if r != "" && globals[r] && !local[r] {
							out = append(out, map[string]interface{}{"pkg": dir, "func": fd.Name.Name, "var": r, "stmt": src(fset, x)})
						}
					case *ast.UnaryExpr:
						if x.Op == token.AND {
							r := root(x.X)
							if r != "" && globals[r] && !local[r] {
								out = append(out, map[string]interface{}{"pkg": dir, "func": fd.Name.Name, "var": r, "stmt": src(fset, x)})
							}
						}
					case *ast.CallExpr:
						if id, ok := x.Fun.(*ast.Ident); ok && (id.Name == "append" || id.Name == "copy") && len(x.Args) > 0 {
							r := root(x.Args[0])
							if r != "" && globals[r] && !local[r] {
								out = append(out, map[string]interface{}{"pkg": dir, "func": fd.Name.Name, "var": r, "stmt": src(fset, x)})
							}
						}
					case *ast.DeclStmt:
						if gd, ok := x.Decl.(*ast.GenDecl); ok {
							for _, sp := range gd.Specs {
								if vs, ok := sp.(*ast.ValueSpec); ok {
									for _, n := range vs.Names {
										local[n.Name] = true
									}
								}
							}
						}
					}
					return true
				})
			}
		}
	}
	return out
}

// asmVarFacts: the package-level variables of package asm (the translator keeps all its state in the per-parse generator value; a package-level
// buffer, cache or counter would be shared by parses running on different goroutines and by successive parses).
func asmVarFacts(repo string) []string {
	_, files := parseDir(repo, "asm")
	var out []string
	for _, f := range files {
		for _, d := range f.Decls {
			gd, ok := d.(*ast.GenDecl)
			if !ok || gd.Tok != token.VAR {
				continue
			}
			for _, sp := range gd.Specs {
				for _, n := range sp.(*ast.ValueSpec).Names {
					if n.Name != "_" {
						out = append(out, n.Name)
					}
				}
			}
		}
	}
	sort.Strings(out)
	return out
}

// errDropFacts: in package asm every statement INSIDE A LOOP that assigns the variable `err` (`x, err := f()`, `x, err = f()`) must be followed
// IMMEDIATELY, in the same block, by `if err != nil { ... }` (or be the init statement of such an if): otherwise a later assignment
// may overwrite the error and a faulty input would be accepted. Lists the assignments for which this is not the case.
func errDropFacts(repo string) []map[string]interface{} {
	fset, files := parseDir(repo, "asm")
	var out []map[string]interface{}
	assignsErr := func(st ast.Stmt) bool {
		as, ok := st.(*ast.AssignStmt)
		if !ok {
			return false
		}
		for _, l := range as.Lhs {
			if id, ok := l.(*ast.Ident); ok && id.Name == "err" {
				return true
			}
		}
		return false
	}
	checksErr := func(st ast.Stmt) bool {
		is, ok := st.(*ast.IfStmt)
		if !ok {
			return false
		}
		c := strings.Join(strings.Fields(src(fset, is.Cond)), " ")
		return strings.Contains(c, "err != nil")
	}
	inLoop := 0
	var walkBlock func(fn string, list []ast.Stmt)
	var walkStmt func(fn string, st ast.Stmt)
	walkBlock = func(fn string, list []ast.Stmt) {
		for i, st := range list {
			if inLoop > 0 && assignsErr(st) {
				if i+1 >= len(list) || !checksErr(list[i+1]) {
					out = append(out, map[string]interface{}{"func": fn, "stmt": src(fset, st), "line": fset.Position(st.Pos()).Line, "file": filepath.Base(fset.Position(st.Pos()).Filename)})
				}
			}
			walkStmt(fn, st)
		}
	}
	walkStmt = func(fn string, st ast.Stmt) {
		switch x := st.(type) {
		case *ast.BlockStmt:
			walkBlock(fn, x.List)
		case *ast.IfStmt:
			// `if x, err := f(); err != nil {` is fine by construction
			walkBlock(fn, x.Body.List)
			if x.Else != nil {
				walkStmt(fn, x.Else)
			}
		case *ast.ForStmt:
			inLoop++
			walkBlock(fn, x.Body.List)
			inLoop--
		case *ast.RangeStmt:
			inLoop++
			walkBlock(fn, x.Body.List)
			inLoop--
		case *ast.SwitchStmt:
			walkBlock(fn, x.Body.List)
		case *ast.TypeSwitchStmt:
			walkBlock(fn, x.Body.List)
		case *ast.CaseClause:
			walkBlock(fn, x.Body)
		case *ast.LabeledStmt:
			walkStmt(fn, x.Stmt)
		}
	}
	for _, f := range files {
		for _, d := range f.Decls {
			fd, ok := d.(*ast.FuncDecl)
			if !ok || fd.Body == nil {
				continue
			}
			walkBlock(fd.Name.Name, fd.Body.List)
		}
	}
	return out
}

// lazyCtorFacts: free constructors `func NewX(...) *T` of package ir whose struct T has a cached `Typ` field but whose body
// never calls `.Type()`: the cache would then be filled by the first OBSERVER (Type/String/print), at whatever state the
// object has at that moment.
func lazyCtorFacts(repo string) []map[string]interface{} {
	fset, files := parseDir(repo, "ir")
	hasTyp := map[string]bool{}
	for _, f := range files {
		for _, d := range f.Decls {
			gd, ok := d.(*ast.GenDecl)
			if !ok || gd.Tok != token.TYPE {
				continue
			}
			for _, sp := range gd.Specs {
				ts := sp.(*ast.TypeSpec)
				st, ok := ts.Type.(*ast.StructType)
				if !ok {
					continue
				}
				for _, fl := range st.Fields.List {
					for _, n := range fl.Names {
						if n.Name == "Typ" {
							hasTyp[ts.Name.Name] = true
						}
					}
				}
			}
		}
	}
	var out []map[string]interface{}
	for _, f := range files {
		for _, d := range f.Decls {
			fd, ok := d.(*ast.FuncDecl)
			if !ok || fd.Recv != nil || fd.Body == nil || !strings.HasPrefix(fd.Name.Name, "New") || fd.Type.Results == nil || len(fd.Type.Results.List) != 1 {
				continue
			}
			st, ok := fd.Type.Results.List[0].Type.(*ast.StarExpr)
			if !ok {
				continue
			}
			id, ok := st.X.(*ast.Ident)
			if !ok || !hasTyp[id.Name] {
				continue
			}
			calls := false
			setsTyp := false
			ast.Inspect(fd.Body, func(n ast.Node) bool {
				switch x := n.(type) {
				case *ast.CallExpr:
					if sel, ok := x.Fun.(*ast.SelectorExpr); ok && sel.Sel.Name == "Type" && len(x.Args) == 0 {
						if _, ok := sel.X.(*ast.Ident); ok {
							calls = true
						}
					}
				case *ast.KeyValueExpr:
					if k, ok := x.Key.(*ast.Ident); ok && k.Name == "Typ" {
						setsTyp = true
					}
				}
				return true
			})
			if !calls && !setsTyp {
				out = append(out, map[string]interface{}{"ctor": fd.Name.Name, "type": id.Name, "file": filepath.Base(fset.Position(fd.Pos()).Filename)})
			}
		}
	}
	sort.Slice(out, func(i, j int) bool { return out[i]["ctor"].(string) < out[j]["ctor"].(string) })
	return out
}

// observerWriteFacts: methods of the printing packages that WRITE a field of their receiver (assignment to `recv.F`, to an index / sub-field of it,
// `recv.F++`, or an append stored into it) although they are observers: every method except setters (Set*), constructors / builders (New*),
// the numbering pass (Assign*), and the lazily caching `Type()` methods writing the cache field `Typ` only (what those may cache is checked
// dynamically by hist.fobs). An observer that stores into its receiver makes the printed text depend on the history of queries and races with
// concurrent printers.
func observerWriteFacts(repo string) []map[string]interface{} {
	var out []map[string]interface{}
	for _, dir := range []string{"ir", "ir/types", "ir/constant", "ir/metadata", "ir/enum", "ir/value", "internal/enc"} {
		fset, files := parseDir(repo, dir)
		for _, f := range files {
			for _, d := range f.Decls {
				fd, ok := d.(*ast.FuncDecl)
				if !ok || fd.Body == nil || fd.Recv == nil || len(fd.Recv.List) != 1 || len(fd.Recv.List[0].Names) != 1 {
					continue
				}
				name := fd.Name.Name
				if strings.HasPrefix(name, "Set") || strings.HasPrefix(name, "New") || strings.HasPrefix(name, "Assign") {
					continue
				}
				recv := fd.Recv.List[0].Names[0].Name
				rtype := strings.TrimPrefix(src(fset, fd.Recv.List[0].Type), "*")
				// writes to `recv.<path>`: returns the first field of the path
				field := func(e ast.Expr) (string, bool) {
					first := ""
					for {
						switch x := e.(type) {
						case *ast.IndexExpr:
							e = x.X
						case *ast.StarExpr:
							e = x.X
						case *ast.ParenExpr:
							e = x.X
						case *ast.SelectorExpr:
							first = x.Sel.Name
							e = x.X
						case *ast.Ident:
							return first, x.Name == recv && first != ""
						default:
							return "", false
						}
					}
				}
				seen := map[string]bool{}
				add := func(fld string, pos token.Pos) {
					if name == "Type" && fld == "Typ" {
						return
					}
					key := fld
					if seen[key] {
						return
					}
					seen[key] = true
					out = append(out, map[string]interface{}{"pkg": dir, "type": rtype, "method": name, "field": fld, "line": fset.Position(pos).Line})
				}
				ast.Inspect(fd.Body, func(n ast.Node) bool {
					switch x := n.(type) {
					case *ast.AssignStmt:
						if x.Tok == token.DEFINE {
							return true
						}
						for _, l := range x.Lhs {
							if fld, ok := field(l); ok {
								add(fld, l.Pos())
							}
						}
					case *ast.IncDecStmt:
						if fld, ok := field(x.X); ok {
							add(fld, x.Pos())
						}
					}
					return true
				})
			}
		}
	}
	sort.Slice(out, func(i, j int) bool {
		a, b := out[i], out[j]
		ka := a["pkg"].(string) + "." + a["type"].(string) + "." + a["method"].(string) + "." + a["field"].(string)
		kb := b["pkg"].(string) + "." + b["type"].(string) + "." + b["method"].(string) + "." + b["field"].(string)
		return ka < kb
	})
	return out
}
