//go:build verif

package main

import (
	"fmt"
	"strings"

	"github.com/llir/llvm/asm"
	"github.com/llir/llvm/ir"
	"github.com/llir/llvm/ir/enum"
	"github.com/llir/llvm/ir/metadata"
	"github.com/llir/llvm/ir/types"
)

func fieldOf(s, key string) string {
	i := strings.Index(s, key)
	if i < 0 {
		return "<absent>"
	}
	rest := s[i+len(key):]
	if j := strings.Index(rest, ", "); j >= 0 {
		return rest[:j]
	}
	return strings.TrimSuffix(rest, ")")
}

func init() {
	reg("flags.disp", func(a []string) string {
		n := &metadata.DISubprogram{MetadataID: -1, SPFlags: enum.DISPFlag(uintArg(a[0]))}
		return hexOut([]byte(fieldOf(n.LLString(), "spFlags: ")))
	})
	reg("flags.di", func(a []string) string {
		n := &metadata.DIBasicType{MetadataID: -1, Flags: enum.DIFlag(uintArg(a[0]))}
		return hexOut([]byte(fieldOf(n.LLString(), "flags: ")))
	})
	reg("flags.alloc", func(a []string) string {
		k := ir.AllocKind{Kind: enum.AllocKind(uintArg(a[0]))}
		s := k.String()
		s = strings.TrimSuffix(strings.TrimPrefix(s, `allockind("`), `")`)
		return hexOut([]byte(s))
	})
	// C18 in situ: the keyword printed for a FloatType follows its CURRENT Kind (print as <from>, set Kind = <to>, print inside a module, parse back)
	reg("kw.floathist", func(a []string) string {
		from, to := types.FloatKind(uintArg(a[0])), types.FloatKind(uintArg(a[1]))
		t := &types.FloatType{Kind: from}
		_ = t.String()
		_ = t.LLString()
		t.Kind = to
		m := ir.NewModule()
		m.NewFunc("f", t)
		cp := *t
		cp.Kind = from
		m.NewFunc("g", &cp)
		m2, err := asm.ParseString("x.ll", m.String())
		if err != nil {
			return "FAIL error"
		}
		for i, want := range []types.FloatKind{to, from} {
			ft, ok := m2.Funcs[i].Sig.RetType.(*types.FloatType)
			if !ok || ft.Kind != want {
				return fmt.Sprintf("FAIL kind %s printed as %s", want, m2.Funcs[i].Sig.RetType)
			}
		}
		return "ok"
	})
	reg("flags.rt", func(a []string) string {
		v := uintArg(a[1])
		switch a[0] {
		case "disp":
			m := ir.NewModule()
			m.MetadataDefs = append(m.MetadataDefs, &metadata.DISubprogram{MetadataID: -1, SPFlags: enum.DISPFlag(v)})
			m2, err := asm.ParseString("x.ll", m.String())
			if err != nil {
				return "FAIL error"
			}
			if len(m2.MetadataDefs) != 1 || m2.MetadataDefs[0].(*metadata.DISubprogram).SPFlags != enum.DISPFlag(v) {
				return "FAIL"
			}
		case "di":
			m := ir.NewModule()
			m.MetadataDefs = append(m.MetadataDefs, &metadata.DIBasicType{MetadataID: -1, Flags: enum.DIFlag(v)})
			m2, err := asm.ParseString("x.ll", m.String())
			if err != nil {
				return "FAIL error"
			}
			if len(m2.MetadataDefs) != 1 || m2.MetadataDefs[0].(*metadata.DIBasicType).Flags != enum.DIFlag(v) {
				return "FAIL"
			}
		case "alloc":
			m := ir.NewModule()
			f := m.NewFunc("f", types.Void)
			f.FuncAttrs = append(f.FuncAttrs, ir.AllocKind{Kind: enum.AllocKind(v)})
			m2, err := asm.ParseString("x.ll", m.String())
			if err != nil {
				return "FAIL error"
			}
			if len(m2.Funcs) != 1 || len(m2.Funcs[0].FuncAttrs) != 1 {
				return "FAIL"
			}
			switch k := m2.Funcs[0].FuncAttrs[0].(type) {
			case ir.AllocKind:
				if k.Kind != enum.AllocKind(v) {
					return "FAIL"
				}
			case *ir.AllocKind:
				if k.Kind != enum.AllocKind(v) {
					return "FAIL"
				}
			default:
				return fmt.Sprintf("FAIL %T", k)
			}
		}
		return "ok"
	})
}
