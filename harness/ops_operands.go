//go:build verif

package main

import (
	"fmt"
	"regexp"
	"sort"
	"strings"

	"github.com/llir/llvm/ir"
	"github.com/llir/llvm/ir/types"
	"github.com/llir/llvm/ir/value"
)

type llstringer interface{ LLString() string }

var paramRe = regexp.MustCompile(`%p\d+\b|%zz\d+\b`)

func usedNames(s string) []string {
	m := paramRe.FindAllString(s, -1)
	sort.Strings(m)
	return m
}

func init() {
	// ops.subst <kind> <types...>: for every slot of Operands(): write a fresh value of the same type through it;
	// the printed instruction must change exactly there (one old operand name gone, the new one present, all others kept).
	reg("ops.subst", func(a []string) string {
		nm := map[string]*types.StructType{}
		ts := parseTys(nm, a[1:])
		nslots := -1
		for k := 0; ; k++ {
			v := buildIR(a[0], ts)
			inst, ok := v.(interface {
				llstringer
				Operands() []*value.Value
			})
			if !ok {
				return "FAIL no-operands-method"
			}
			ops := inst.Operands()
			if nslots == -1 {
				nslots = len(ops)
			}
			if k >= len(ops) {
				break
			}
			before := usedNames(inst.LLString())
			old := *ops[k]
			fresh := ir.NewParam(fmt.Sprintf("zz%d", k), old.Type())
			*ops[k] = fresh
			after := usedNames(inst.LLString())
			// expected: `before` with one occurrence of old's name replaced by %zzk
			oldName := old.Ident()
			if _, isParam := old.(*ir.Param); !isParam {
				continue // blocks and constants placed by the builder: not tracked by name
			}
			exp := append([]string(nil), before...)
			replaced := false
			for i, n := range exp {
				if n == oldName {
					exp[i] = fresh.Ident()
					replaced = true
					break
				}
			}
			sort.Strings(exp)
			if !replaced || strings.Join(exp, ",") != strings.Join(after, ",") {
				return fmt.Sprintf("FAIL slot %d: before %v after %v", k, before, after)
			}
		}
		// every parameter operand given to the constructor must be reachable through some slot
		v := buildIR(a[0], ts)
		inst := v.(interface {
			llstringer
			Operands() []*value.Value
		})
		text := inst.LLString()
		seen := map[string]bool{}
		for _, p := range inst.Operands() {
			if pr, ok := (*p).(*ir.Param); ok {
				seen[pr.Ident()] = true
			}
		}
		for _, n := range usedNames(text) {
			if !seen[n] {
				return "FAIL printed operand " + n + " has no slot"
			}
		}
		return "ok"
	})
}
