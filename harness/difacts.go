//go:build verif

package main

import (
	"go/ast"
	"go/token"
	"regexp"
	"strings"
)

// diFacts: for every specialised metadata node of ir/metadata (a struct with an LLString method that collects `keyword: value` fields), the
// fields in PRINTED order — keyword, format verb, wrapper function, struct field, Go type of the struct field and the shape of the condition
// under which the field is printed — and, from asm/specialized_metadata.go, the struct fields the translation assigns (with the values it
// assigns before looking at the fields: the parser's defaults).
func diFacts(repo string) []map[string]interface{} {
	fset, files := parseDir(repo, "ir/metadata")
	// struct field types
	ftypes := map[string]map[string]string{}
	for _, f := range files {
		for _, d := range f.Decls {
			gd, ok := d.(*ast.GenDecl)
			if !ok || gd.Tok != token.TYPE {
				continue
			}
			for _, sp := range gd.Specs {
				ts := sp.(*ast.TypeSpec)
				st, ok := ts.Type.(*ast.StructType)
				if !ok {
					continue
				}
				m := map[string]string{}
				for _, fl := range st.Fields.List {
					for _, n := range fl.Names {
						m[n.Name] = src(fset, fl.Type)
					}
				}
				ftypes[ts.Name.Name] = m
			}
		}
	}
	afset, afiles := parseDir(repo, "asm")
	sprintfRe := regexp.MustCompile(`^([A-Za-z]+): (%[a-z])$`)
	var out []map[string]interface{}
	for _, f := range files {
		for _, d := range f.Decls {
			fd, ok := d.(*ast.FuncDecl)
			if !ok || fd.Name.Name != "LLString" || fd.Recv == nil || fd.Body == nil {
				continue
			}
			st, ok := fd.Recv.List[0].Type.(*ast.StarExpr)
			if !ok {
				continue
			}
			kind := st.X.(*ast.Ident).Name
			if _, ok := ftypes[kind]; !ok || !strings.HasPrefix(kind, "DI") {
				continue
			}
			var fields []map[string]interface{}
			regular := true
			// one field from a `fmt.Sprintf("kw: %v", arg)` call
			field := func(call *ast.CallExpr, cond string) {
				if len(call.Args) != 2 {
					regular = false
					return
				}
				lit, ok := call.Args[0].(*ast.BasicLit)
				if !ok {
					regular = false
					return
				}
				m := sprintfRe.FindStringSubmatch(strings.Trim(lit.Value, `"`))
				if m == nil {
					regular = false
					return
				}
				arg := src(fset, call.Args[1])
				wrap, gof := "", arg
				if i := strings.Index(arg, "("); i >= 0 && strings.HasSuffix(arg, ")") {
					wrap, gof = arg[:i], arg[i+1:len(arg)-1]
				}
				gof = strings.TrimPrefix(gof, "md.")
				fields = append(fields, map[string]interface{}{"kw": m[1], "verb": m[2], "wrap": wrap, "gofield": gof, "gotype": ftypes[kind][gof], "cond": cond})
			}
			// fields are printed in the order of the `fields = append(fields, …)` statements; a `field := fmt.Sprintf(…)` only prepares one
			isSprintf := func(e ast.Expr) (*ast.CallExpr, bool) {
				c, ok := e.(*ast.CallExpr)
				if !ok {
					return nil, false
				}
				se, ok := c.Fun.(*ast.SelectorExpr)
				return c, ok && se.Sel.Name == "Sprintf"
			}
			type pend struct {
				call *ast.CallExpr
			}
			var walk func(list []ast.Stmt, cond string, scopes []map[string]*pend)
			walk = func(list []ast.Stmt, cond string, scopes []map[string]*pend) {
				scope := map[string]*pend{}
				scopes = append(scopes, scope)
				lookup := func(name string) *pend {
					for i := len(scopes) - 1; i >= 0; i-- {
						if p, ok := scopes[i][name]; ok {
							return p
						}
					}
					return nil
				}
				for _, st := range list {
					switch s := st.(type) {
					case *ast.AssignStmt:
						if len(s.Lhs) == 1 && len(s.Rhs) == 1 {
							lhs, _ := s.Lhs[0].(*ast.Ident)
							if c, ok := isSprintf(s.Rhs[0]); ok && lhs != nil {
								if s.Tok == token.DEFINE {
									scope[lhs.Name] = &pend{c}
								} else if p := lookup(lhs.Name); p != nil {
									p.call = c
								} else {
									scope[lhs.Name] = &pend{c}
								}
								continue
							}
							// fields = append(fields, X)
							if c, ok := s.Rhs[0].(*ast.CallExpr); ok && lhs != nil && lhs.Name == "fields" {
								if id, ok := c.Fun.(*ast.Ident); ok && id.Name == "append" && len(c.Args) == 2 {
									if x, ok := c.Args[1].(*ast.Ident); ok {
										if p := lookup(x.Name); p != nil && p.call != nil {
											field(p.call, cond)
										} else {
											regular = false
										}
									} else if sc, ok := isSprintf(c.Args[1]); ok {
										field(sc, cond)
									} else {
										regular = false
									}
								}
							}
						}
					case *ast.DeclStmt:
						// `var fields []string`
					case *ast.IfStmt:
						c := src(fset, s.Cond)
						if c == "md.Distinct" {
							continue
						}
						shape := "other:" + c
						switch {
						case regexp.MustCompile(`^md\.[A-Za-z]+ != nil$`).MatchString(c):
							shape = "nonnil"
						case regexp.MustCompile(`^md\.[A-Za-z]+ != 0$`).MatchString(c):
							shape = "nonzero"
						case regexp.MustCompile(`^md\.[A-Za-z]+$`).MatchString(c):
							shape = "true"
						case regexp.MustCompile(`^!md\.[A-Za-z]+$`).MatchString(c):
							shape = "false"
						case regexp.MustCompile(`^len\(md\.[A-Za-z]+\) > 0$`).MatchString(c):
							shape = "nonempty"
						}
						if cond != "always" {
							regular = false // (nested conditions are not modelled)
						}
						if s.Else != nil {
							// (DIEnumerator prints `value:` in both branches, as unsigned or signed: one field, always printed)
							n0 := len(fields)
							walk(s.Body.List, "always", scopes)
							if len(fields) > n0+1 {
								fields = fields[:n0+1]
							}
							continue
						}
						walk(s.Body.List, shape, scopes)
					}
				}
			}
			walk(fd.Body.List, "always", nil)
			// the translation
			var assigned []string
			defaults := map[string]string{}
			for _, af := range afiles {
				for _, ad := range af.Decls {
					afd, ok := ad.(*ast.FuncDecl)
					if !ok || afd.Name.Name != "ir"+kind || afd.Body == nil {
						continue
					}
					seen := map[string]bool{}
					ast.Inspect(afd.Body, func(x ast.Node) bool {
						as, ok := x.(*ast.AssignStmt)
						if !ok {
							return true
						}
						for _, l := range as.Lhs {
							t := src(afset, l)
							if strings.HasPrefix(t, "md.") && !strings.Contains(t[3:], ".") && !strings.Contains(t, "[") {
								if !seen[t[3:]] {
									seen[t[3:]] = true
									assigned = append(assigned, t[3:])
								}
							}
						}
						return true
					})
					// assignments at the top level of the body (before the loop over the fields): the parser's defaults
					for _, s := range afd.Body.List {
						if as, ok := s.(*ast.AssignStmt); ok && len(as.Lhs) == 1 && len(as.Rhs) == 1 {
							t := src(afset, as.Lhs[0])
							if strings.HasPrefix(t, "md.") {
								defaults[t[3:]] = src(afset, as.Rhs[0])
							}
						}
					}
				}
			}
			out = append(out, map[string]interface{}{"kind": kind, "regular": regular, "fields": fields, "assigned": assigned, "defaults": defaults})
		}
	}
	return out
}
