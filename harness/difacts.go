//go:build verif

package main

import (
	"go/ast"
	"go/token"
	"regexp"
	"strings"
)

// diFacts: for every specialised metadata node of ir/metadata (a struct with an LLString method that collects `keyword: value` fields), the
// fields in PRINTED order — keyword, format verb, wrapper function, struct field, Go type of the struct field and the shape of the condition
// under which the field is printed — and, from asm/specialized_metadata.go, the struct fields the translation assigns (with the values it
// assigns before looking at the fields: the parser's defaults).
func diFacts(repo string) []map[string]interface{} {
	fset, files := parseDir(repo, "ir/metadata")
	// struct field types
	ftypes := map[string]map[string]string{}
	for _, f := range files {
		for _, d := range f.Decls {
			gd, ok := d.(*ast.GenDecl)
			if !ok || gd.Tok != token.TYPE {
				continue
			}
			for _, sp := range gd.Specs {
				ts := sp.(*ast.TypeSpec)
				st, ok := ts.Type.(*ast.StructType)
				if !ok {
					continue
				}
				m := map[string]string{}
				for _, fl := range st.Fields.List {
					for _, n := range fl.Names {
						m[n.Name] = src(fset, fl.Type)
					}
				}
				ftypes[ts.Name.Name] = m
			}
		}
	}
	afset, afiles := parseDir(repo, "asm")
	sprintfRe := regexp.MustCompile(`^([A-Za-z]+): (%[a-z])$`)
	var out []map[string]interface{}
	for _, f := range files {
		for _, d := range f.Decls {
			fd, ok := d.(*ast.FuncDecl)
			if !ok || fd.Name.Name != "LLString" || fd.Recv == nil || fd.Body == nil {
				continue
			}
			st, ok := fd.Recv.List[0].Type.(*ast.StarExpr)
			if !ok {
				continue
			}
			kind := st.X.(*ast.Ident).Name
			if _, ok := ftypes[kind]; !ok || !strings.HasPrefix(kind, "DI") {
				continue
			}
			var fields []map[string]interface{}
			regular := true
			// one field from a `fmt.Sprintf("kw: %v", arg)` call
			field := func(call *ast.CallExpr, cond string) {
				if len(call.Args) != 2 {
					regular = false
					return
				}
				lit, ok := call.Args[0].(*ast.BasicLit)
				if !ok {
					regular = false
					return
				}
				m := sprintfRe.FindStringSubmatch(strings.Trim(lit.Value, `"`))
				if m == nil {
					regular = false
					return
				}
				arg := src(fset, call.Args[1])
				wrap, gof := "", arg
				if i := strings.Index(arg, "("); i >= 0 && strings.HasSuffix(arg, ")") {
					wrap, gof = arg[:i], arg[i+1:len(arg)-1]
				}
				gof = strings.TrimPrefix(gof, "md.")
				fields = append(fields, map[string]interface{}{"kw": m[1], "verb": m[2], "wrap": wrap, "gofield": gof, "gotype": ftypes[kind][gof], "cond": cond})
			}
			var sprintfIn func(n ast.Node, cond string)
			sprintfIn = func(n ast.Node, cond string) {
				ast.Inspect(n, func(x ast.Node) bool {
					if c, ok := x.(*ast.CallExpr); ok {
						if se, ok := c.Fun.(*ast.SelectorExpr); ok && se.Sel.Name == "Sprintf" {
							field(c, cond)
							return false
						}
					}
					return true
				})
			}
			for _, s := range fd.Body.List {
				switch s := s.(type) {
				case *ast.IfStmt:
					c := src(fset, s.Cond)
					if c == "md.Distinct" {
						continue
					}
					shape := "other:" + c
					switch {
					case regexp.MustCompile(`^md\.[A-Za-z]+ != nil$`).MatchString(c):
						shape = "nonnil"
					case regexp.MustCompile(`^md\.[A-Za-z]+ != 0$`).MatchString(c):
						shape = "nonzero"
					case regexp.MustCompile(`^md\.[A-Za-z]+$`).MatchString(c):
						shape = "true"
					case regexp.MustCompile(`^!md\.[A-Za-z]+$`).MatchString(c):
						shape = "false"
					case regexp.MustCompile(`^len\(md\.[A-Za-z]+\) > 0$`).MatchString(c):
						shape = "nonempty"
					}
					if s.Else != nil {
						// (DIEnumerator prints `value:` in both branches, as unsigned or signed)
						shape = "always"
						n0 := len(fields)
						sprintfIn(s.Body, shape)
						if len(fields) > n0+1 {
							fields = fields[:n0+1]
						}
						continue
					}
					sprintfIn(s.Body, shape)
				case *ast.AssignStmt, *ast.ExprStmt, *ast.DeclStmt:
					sprintfIn(s, "always")
				}
			}
			// the translation
			var assigned []string
			defaults := map[string]string{}
			for _, af := range afiles {
				for _, ad := range af.Decls {
					afd, ok := ad.(*ast.FuncDecl)
					if !ok || afd.Name.Name != "ir"+kind || afd.Body == nil {
						continue
					}
					seen := map[string]bool{}
					ast.Inspect(afd.Body, func(x ast.Node) bool {
						as, ok := x.(*ast.AssignStmt)
						if !ok {
							return true
						}
						for _, l := range as.Lhs {
							t := src(afset, l)
							if strings.HasPrefix(t, "md.") && !strings.Contains(t[3:], ".") && !strings.Contains(t, "[") {
								if !seen[t[3:]] {
									seen[t[3:]] = true
									assigned = append(assigned, t[3:])
								}
							}
						}
						return true
					})
					// assignments at the top level of the body (before the loop over the fields): the parser's defaults
					for _, s := range afd.Body.List {
						if as, ok := s.(*ast.AssignStmt); ok && len(as.Lhs) == 1 && len(as.Rhs) == 1 {
							t := src(afset, as.Lhs[0])
							if strings.HasPrefix(t, "md.") {
								defaults[t[3:]] = src(afset, as.Rhs[0])
							}
						}
					}
				}
			}
			out = append(out, map[string]interface{}{"kind": kind, "regular": regular, "fields": fields, "assigned": assigned, "defaults": defaults})
		}
	}
	return out
}
