//go:build verif

package main

import (
	"regexp"
	"bytes"
	"crypto/sha256"
	"fmt"
	"os"
	"reflect"
	"strconv"
	"strings"

	"github.com/llir/llvm/asm"
	"github.com/llir/llvm/ir"
	"github.com/llir/llvm/ir/constant"
	"github.com/llir/llvm/ir/metadata"
	"github.com/llir/llvm/ir/types"
	"github.com/llir/llvm/ir/value"
)

func parseOutcome(text string) (m *ir.Module, outcome string) {
	defer func() {
		if e := recover(); e != nil {
			if verbosePanic {
				fmt.Fprintf(os.Stderr, "panic: %v\n", e)
			}
			m, outcome = nil, "panic"
		}
	}()
	m, err := asm.ParseString("x.ll", text)
	if err != nil {
		return nil, "error"
	}
	return m, "ok"
}

func sum(s string) string {
	h := sha256.Sum256([]byte(s))
	return fmt.Sprintf("%x", h[:6])
}

// ---- generic closure check over the whole object graph ----

type closure struct {
	m       *ir.Module
	globals map[interface{}]bool
	types_  map[interface{}]bool
	comdats map[interface{}]bool
	attrs   map[interface{}]bool
	mds     map[interface{}]bool
	seen    map[uintptr]bool
	bad     []string
}

func (c *closure) fail(f string, a ...interface{}) {
	if len(c.bad) < 5 {
		c.bad = append(c.bad, fmt.Sprintf(f, a...))
	}
}

func newClosure(m *ir.Module) *closure {
	c := &closure{m: m, globals: map[interface{}]bool{}, types_: map[interface{}]bool{}, comdats: map[interface{}]bool{},
		attrs: map[interface{}]bool{}, mds: map[interface{}]bool{}, seen: map[uintptr]bool{}}
	for _, g := range m.Globals {
		c.globals[g] = true
	}
	for _, g := range m.Aliases {
		c.globals[g] = true
	}
	for _, g := range m.IFuncs {
		c.globals[g] = true
	}
	for _, g := range m.Funcs {
		c.globals[g] = true
	}
	for _, t := range m.TypeDefs {
		c.types_[t] = true
	}
	for _, d := range m.ComdatDefs {
		c.comdats[d] = true
	}
	for _, d := range m.AttrGroupDefs {
		c.attrs[d] = true
	}
	for _, d := range m.MetadataDefs {
		c.mds[d] = true
	}
	return c
}

// localsOf lists the value-defining objects of a function.
func localsOf(f *ir.Func) map[interface{}]bool {
	l := map[interface{}]bool{}
	for _, p := range f.Params {
		l[p] = true
	}
	for _, b := range f.Blocks {
		l[b] = true
		for _, i := range b.Insts {
			l[i] = true
		}
		l[b.Term] = true
	}
	return l
}

// walk visits every pointer reachable from v; `locals` is the set of local objects of the function being walked (nil at module level).
func (c *closure) walk(v reflect.Value, path string, locals map[interface{}]bool, depth int) {
	if depth > 200 {
		return
	}
	switch v.Kind() {
	case reflect.Interface:
		if !v.IsNil() {
			c.walk(v.Elem(), path, locals, depth+1)
		}
	case reflect.Ptr:
		if v.IsNil() {
			return
		}
		obj := v.Interface()
		switch x := obj.(type) {
		case *ir.Global, *ir.Alias, *ir.IFunc, *ir.Func:
			if !c.globals[obj] {
				c.fail("orphan %T at %s", obj, path)
			}
			return // do not descend into other top-level definitions
		case *ir.Block:
			if locals == nil || !locals[obj] {
				// a block of another function (blockaddress): must be listed in its parent, which must be a listed function
				if x.Parent == nil || !c.globals[x.Parent] {
					c.fail("block %s with unlisted parent at %s", x.Ident(), path)
				} else {
					found := false
					for _, b := range x.Parent.Blocks {
						if b == x {
							found = true
						}
					}
					if !found {
						c.fail("placeholder block %s at %s", x.Ident(), path)
					}
				}
			}
			return
		case *ir.Param:
			if locals == nil || !locals[obj] {
				c.fail("foreign param at %s", path)
			}
			return
		case *ir.ComdatDef:
			if !c.comdats[obj] {
				c.fail("orphan comdat %q at %s", x.Name, path)
			}
			return
		case *ir.AttrGroupDef:
			if !c.attrs[obj] {
				c.fail("orphan attrgroup #%d at %s", x.ID, path)
			}
			return
		case *types.StructType:
			if x.TypeName != "" {
				if !c.types_[obj] {
					c.fail("orphan type %%%s at %s", x.TypeName, path)
				}
				return
			}
		case *ir.Module:
			return
		case *constant.BlockAddress:
			// `blockaddress(@f, %b)`: the block is a block of THAT function (a block with the same label in another function is a wrong binding)
			if bb, ok := x.Block.(*ir.Block); ok {
				if fn, ok := x.Func.(*ir.Func); ok && bb.Parent != fn {
					pn := "<nil>"
					if bb.Parent != nil {
						pn = bb.Parent.Ident()
					}
					c.fail("blockaddress(%s, %s) holds a block of %s at %s", fn.Ident(), bb.Ident(), pn, path)
				}
			}
		}
		if ins, ok := obj.(ir.Instruction); ok {
			if locals == nil || !locals[ins] {
				c.fail("foreign instruction %T at %s", obj, path)
			}
			return
		}
		if t, ok := obj.(ir.Terminator); ok {
			if locals == nil || !locals[t] {
				c.fail("foreign terminator %T at %s", obj, path)
			}
			return
		}
		if d, ok := obj.(metadata.Definition); ok && d.ID() != -1 {
			if !c.mds[obj] {
				c.fail("orphan metadata !%d at %s", d.ID(), path)
			}
			return
		}
		if c.seen[v.Pointer()] {
			return
		}
		c.seen[v.Pointer()] = true
		c.walk(v.Elem(), path, locals, depth+1)
	case reflect.Struct:
		t := v.Type()
		if t.PkgPath() == "sync" || t.PkgPath() == "math/big" {
			return
		}
		for i := 0; i < v.NumField(); i++ {
			if t.Field(i).Name == "Parent" || !t.Field(i).IsExported() {
				continue
			}
			c.walk(v.Field(i), path+"."+t.Field(i).Name, locals, depth+1)
		}
	case reflect.Slice, reflect.Array:
		for i := 0; i < v.Len(); i++ {
			c.walk(v.Index(i), fmt.Sprintf("%s[%d]", path, i), locals, depth+1)
		}
	case reflect.Map:
		for _, k := range v.MapKeys() {
			c.walk(v.MapIndex(k), fmt.Sprintf("%s[%v]", path, k), locals, depth+1)
		}
	}
}

// descend walks the BODY of a definition object (its fields), not stopping at the object itself.
func (c *closure) descend(obj interface{}, path string, locals map[interface{}]bool) {
	v := reflect.ValueOf(obj)
	if v.Kind() == reflect.Ptr {
		v = v.Elem()
	}
	c.walk(v, path, locals, 0)
}

// blockRefCheck: every `blockaddress(@f, %l)` the skeleton lists for a named global (its initialiser) or for a module-level
// uselistorder must be the very *ir.Block that function @f lists under the label %l (pointer identity), and its Func the listed function.
func blockRefCheck(m *ir.Module, sk string) string {
	find := func(fn, label string) (*ir.Func, *ir.Block) {
		for _, f := range m.Funcs {
			if f.Name() == fn {
				for _, b := range f.Blocks {
					if b.Ident() == "%"+label {
						return f, b
					}
				}
				return f, nil
			}
		}
		return nil, nil
	}
	check := func(where string, c constant.Constant, ref string) string {
		ba, ok := c.(*constant.BlockAddress)
		if !ok {
			return fmt.Sprintf("FAIL %s: not a blockaddress constant (%T)", where, c)
		}
		p := strings.SplitN(ref, ":", 2)
		f, b := find(p[0], p[1])
		if f == nil || b == nil {
			return fmt.Sprintf("FAIL %s: no block %%%s in @%s", where, p[1], p[0])
		}
		if ba.Func != constant.Constant(f) {
			return fmt.Sprintf("FAIL %s: blockaddress function is not the listed @%s", where, p[0])
		}
		if ba.Block != value.Named(b) {
			got := "?"
			if bb, ok := ba.Block.(*ir.Block); ok {
				got = bb.Ident()
			}
			return fmt.Sprintf("FAIL %s: blockaddress(@%s, %%%s) denotes block %s", where, p[0], p[1], got)
		}
		return ""
	}
	nUse := 0
	for _, e := range strings.Split(sk, ";") {
		f := strings.Split(e, "|")
		if len(f) < 6 || strings.TrimSpace(f[5]) == "" {
			continue
		}
		refs := strings.Fields(f[5])
		switch f[0] {
		case "G":
			if f[1] == "#" {
				continue
			}
			for _, g := range m.Globals {
				if g.Name() == f[1] && g.Init != nil {
					if r := check("@"+f[1], g.Init, refs[0]); r != "" {
						return r
					}
				}
			}
		case "U":
			if nUse < len(m.UseListOrders) {
				if c, ok := m.UseListOrders[nUse].Value.(constant.Constant); ok {
					if r := check(fmt.Sprintf("uselistorder[%d]", nUse), c, refs[0]); r != "" {
						return r
					}
				}
			}
			nUse++
		}
	}
	return "ok"
}

func closureCheck(m *ir.Module) string {
	c := newClosure(m)
	for _, t := range m.TypeDefs {
		c.descend(t, "type:"+t.Name(), nil)
	}
	for _, g := range m.Globals {
		c.descend(g, "global:"+g.Ident(), nil)
	}
	for _, a := range m.Aliases {
		c.descend(a, "alias:"+a.Ident(), nil)
	}
	for _, a := range m.IFuncs {
		c.descend(a, "ifunc:"+a.Ident(), nil)
	}
	for _, d := range m.AttrGroupDefs {
		c.descend(d, fmt.Sprintf("attrgroup:%d", d.ID), nil)
	}
	for _, d := range m.MetadataDefs {
		c.descend(d, fmt.Sprintf("md:%d", d.ID()), nil)
	}
	for _, d := range m.NamedMetadataDefs {
		c.descend(d, "namedmd:"+d.Name, nil)
	}
	for _, f := range m.Funcs {
		// (every module handed to this walk comes from the parser, which sets the parent of every function: a nil parent is a broken link too)
		if f.Parent != m {
			c.fail("func %s: wrong parent module", f.Ident())
		}
		locals := localsOf(f)
		// what was visited while walking another function is visited again: an object SHARED by two functions (a memoised `!DIArgList(i32 %x)`) holds
		// locals of at most one of them
		c.seen = map[uintptr]bool{}
		for _, b := range f.Blocks {
			if b.Parent != f {
				c.fail("block %s of %s: wrong parent", b.Ident(), f.Ident())
			}
		}
		// header
		fv := reflect.ValueOf(f).Elem()
		ft := fv.Type()
		for i := 0; i < fv.NumField(); i++ {
			n := ft.Field(i).Name
			if n == "Parent" || n == "Blocks" || !ft.Field(i).IsExported() {
				continue
			}
			if n == "Params" {
				for j, p := range f.Params {
					c.descend(p, fmt.Sprintf("func:%s.Params[%d]", f.Ident(), j), locals)
				}
				continue
			}
			c.walk(fv.Field(i), "func:"+f.Ident()+"."+n, locals, 0)
		}
		for _, b := range f.Blocks {
			for k, ins := range b.Insts {
				c.descend(ins, fmt.Sprintf("func:%s/%s/inst[%d]", f.Ident(), b.Ident(), k), locals)
			}
			c.descend(b.Term, fmt.Sprintf("func:%s/%s/term", f.Ident(), b.Ident()), locals)
		}
	}
	for i, u := range m.UseListOrders {
		c.descend(u, fmt.Sprintf("uselistorder[%d]", i), nil)
	}
	for i, u := range m.UseListOrderBBs {
		c.descend(u, fmt.Sprintf("uselistorder_bb[%d]", i), nil)
	}
	if len(c.bad) > 0 {
		return "FAIL " + strings.Join(c.bad, "; ")
	}
	return "ok"
}

func listsOf(m *ir.Module) string {
	var sb strings.Builder
	sb.WriteString("T=")
	for _, t := range m.TypeDefs {
		sb.WriteString(hexOut([]byte(t.Name())) + ",")
	}
	sb.WriteString(" C=")
	for _, d := range m.ComdatDefs {
		sb.WriteString(hexOut([]byte(d.Name)) + ",")
	}
	gl := func(tag string, named bool, name string, id int64) {
		if named {
			sb.WriteString(hexOut([]byte(name)) + ",")
		} else {
			fmt.Fprintf(&sb, "#%d,", id)
		}
	}
	sb.WriteString(" G=")
	for _, g := range m.Globals {
		gl("G", !g.IsUnnamed(), g.GlobalName, g.GlobalID)
	}
	sb.WriteString(" A=")
	for _, g := range m.Aliases {
		gl("A", !g.IsUnnamed(), g.GlobalName, g.GlobalID)
	}
	sb.WriteString(" I=")
	for _, g := range m.IFuncs {
		gl("I", !g.IsUnnamed(), g.GlobalName, g.GlobalID)
	}
	sb.WriteString(" F=")
	for _, g := range m.Funcs {
		gl("F", !g.IsUnnamed(), g.GlobalName, g.GlobalID)
	}
	sb.WriteString(" AG=")
	for _, d := range m.AttrGroupDefs {
		fmt.Fprintf(&sb, "%d,", d.ID)
	}
	sb.WriteString(" MD=")
	for _, d := range m.MetadataDefs {
		fmt.Fprintf(&sb, "%d,", d.ID())
	}
	return sb.String()
}

func init() {
	// all module ops take: <skeleton-token> <hex of the module text>; the harness uses the text.
	// the printed form of the parsed module (hex), for comparison by external reference tools
	reg("mod.print", func(a []string) string {
		m, o := parseOutcome(string(unhexArg(a[0])))
		if m == nil {
			return o
		}
		out := safe(func([]string) string { return m.String() }, nil)
		if out == "panic" {
			return "print-panic"
		}
		return "ok " + hexOut([]byte(out))
	})
	reg("mod.outcome", func(a []string) string {
		_, o := parseOutcome(string(unhexArg(a[1])))
		return o
	})
	reg("mod.lists", func(a []string) string {
		m, o := parseOutcome(string(unhexArg(a[1])))
		if m == nil {
			return o
		}
		return "ok " + listsOf(m)
	})
	// C04 at name level: which comdat and which attribute groups each global variable / function is bound to (by the NAME / ID of the bound object)
	reg("mod.refs", func(a []string) string {
		m, o := parseOutcome(string(unhexArg(a[1])))
		if m == nil {
			return o
		}
		var parts []string
		one := func(tag string, i int, cd *ir.ComdatDef, attrs []ir.FuncAttribute) {
			c := ""
			if cd != nil {
				c = hexOut([]byte(cd.Name))
			}
			var ags []string
			for _, at := range attrs {
				if ag, ok := at.(*ir.AttrGroupDef); ok {
					ags = append(ags, strconv.FormatInt(ag.ID, 10))
				}
			}
			parts = append(parts, fmt.Sprintf("%s%d:C=%s;A=%s", tag, i, c, strings.Join(ags, ",")))
		}
		for i, g := range m.Globals {
			one("G", i, g.Comdat, g.FuncAttrs)
		}
		for i, f := range m.Funcs {
			one("F", i, f.Comdat, f.FuncAttrs)
		}
		return "ok " + strings.Join(parts, " ")
	})
	// C04: every reference is the listed definition; parents agree with containment; no placeholder
	reg("mod.closure", func(a []string) string {
		m, o := parseOutcome(string(unhexArg(a[1])))
		if m == nil {
			return "FAIL " + o
		}
		if r := closureCheck(m); r != "ok" {
			return r
		}
		if a[0] != "-" {
			return blockRefCheck(m, string(unhexArg(a[0])))
		}
		return "ok"
	})
	// C04 against state that outlives one translation (package-level caches keyed by source text): the SAME text parsed twice in this process; every
	// reference of the second module must be a definition of the second module (and the first module must still be closed afterwards)
	reg("mod.closure2", func(a []string) string {
		text := string(unhexArg(a[1]))
		m1, o := parseOutcome(text)
		if m1 == nil {
			return "FAIL " + o
		}
		m2, o2 := parseOutcome(text)
		if m2 == nil {
			return "FAIL second parse: " + o2
		}
		if r := closureCheck(m2); r != "ok" {
			return "FAIL second parse of the same text: " + strings.TrimPrefix(r, "FAIL ")
		}
		if r := closureCheck(m1); r != "ok" {
			return "FAIL first module after the second parse: " + strings.TrimPrefix(r, "FAIL ")
		}
		return "ok"
	})
	// C05: the documented exception must be accepted
	reg("mod.accept", func(a []string) string {
		_, o := parseOutcome(string(unhexArg(a[1])))
		if o == "ok" {
			return "ok"
		}
		return "FAIL " + o
	})
	// C05: a faulted module must be an error (never ok, never panic)
	reg("mod.mustfail", func(a []string) string {
		_, o := parseOutcome(string(unhexArg(a[1])))
		if o == "error" {
			return "ok"
		}
		return "FAIL " + o
	})
	// C01/C02: canonical text is a fixpoint; printed text re-parses to the same text
	reg("mod.fix", func(a []string) string {
		text := string(unhexArg(a[1]))
		m, o := parseOutcome(text)
		if m == nil {
			return "FAIL " + o
		}
		out := safe(func([]string) string { return m.String() }, nil)
		if out == "panic" {
			return "FAIL print-panic"
		}
		if out != text {
			return "FAIL not-fixpoint " + firstDiff(text, out)
		}
		return "ok"
	})
	// C20: a shuffled rendering of the same module prints to the canonical text
	reg("mod.canon", func(a []string) string {
		m, o := parseOutcome(string(unhexArg(a[1])))
		if m == nil {
			return "FAIL " + o
		}
		want := string(unhexArg(a[2]))
		out := safe(func([]string) string { return m.String() }, nil)
		if out != want {
			return "FAIL not-canonical " + firstDiff(want, out)
		}
		return "ok"
	})
	// C01: nothing the input said is dropped or altered: after parse+print the given fragments are still there
	// (a[0] = fragments joined by \x1f, hex; a[1] = text), and the output is stable
	// mod.deforder T:<hex>,.. C:<hex>,.. N:<hex>,.. A:<id>,.. M:<id>,..  ("-" = none): a module with these type definitions, comdats, named metadata, attribute
	// groups and metadata definitions WRITTEN IN THIS ORDER is parsed and printed; the answer is the order of the definitions in the printed text
	reg("mod.deforder", func(a []string) string {
		raw := regexp.MustCompile(`^[-a-zA-Z$._][-a-zA-Z$._0-9]*$`)
		num := regexp.MustCompile(`^[0-9]+$`)
		spell := func(n string, numOK bool) string {
			if raw.MatchString(n) || (numOK && num.MatchString(n)) {
				return n
			}
			return `"` + n + `"`
		}
		groups := map[string][]string{}
		for _, g := range a {
			k, v, _ := strings.Cut(g, ":")
			if v == "-" || v == "" {
				continue
			}
			for _, x := range strings.Split(v, ",") {
				if k == "A" || k == "M" {
					groups[k] = append(groups[k], x)
				} else {
					groups[k] = append(groups[k], string(unhexArg(x)))
				}
			}
		}
		var sb strings.Builder
		for _, n := range groups["T"] {
			fmt.Fprintf(&sb, "%%%s = type { i8 }\n", spell(n, true))
		}
		for _, n := range groups["C"] {
			fmt.Fprintf(&sb, "$%s = comdat any\n", spell(n, false))
		}
		for i, n := range groups["T"] {
			fmt.Fprintf(&sb, "@g%d = global %%%s zeroinitializer\n", i, spell(n, true))
		}
		for i, n := range groups["C"] {
			fmt.Fprintf(&sb, "@c%d = global i8 0, comdat($%s)\n", i, spell(n, false))
		}
		for i, n := range groups["A"] {
			fmt.Fprintf(&sb, "declare void @f%d() #%s\n", i, n)
		}
		for _, n := range groups["A"] {
			fmt.Fprintf(&sb, "attributes #%s = { \"k%s\" }\n", n, n)
		}
		for _, n := range groups["N"] {
			fmt.Fprintf(&sb, "!%s = !{}\n", n)
		}
		for _, n := range groups["M"] {
			fmt.Fprintf(&sb, "!%s = !{i32 %s}\n", n, n)
		}
		m, err := asm.ParseString("x.ll", sb.String())
		if err != nil {
			return "error"
		}
		unq := func(n string) string { return strings.TrimSuffix(strings.TrimPrefix(n, `"`), `"`) }
		got := map[string][]string{}
		for _, l := range strings.Split(m.String(), "\n") {
			switch {
			case strings.HasPrefix(l, "%") && strings.Contains(l, " = type "):
				got["T"] = append(got["T"], hexOut([]byte(unq(l[1:strings.Index(l, " = type ")]))))
			case strings.HasPrefix(l, "$") && strings.Contains(l, " = comdat "):
				got["C"] = append(got["C"], hexOut([]byte(unq(l[1:strings.Index(l, " = comdat ")]))))
			case strings.HasPrefix(l, "attributes #"):
				got["A"] = append(got["A"], l[len("attributes #"):strings.Index(l, " = ")])
			case strings.HasPrefix(l, "!") && strings.Contains(l, " = "):
				n := l[1:strings.Index(l, " = ")]
				if num.MatchString(n) {
					got["M"] = append(got["M"], n)
				} else {
					got["N"] = append(got["N"], hexOut([]byte(n)))
				}
			}
		}
		var out []string
		for _, k := range []string{"T", "C", "N", "A", "M"} {
			v := "-"
			if len(got[k]) > 0 {
				v = strings.Join(got[k], ",")
			}
			out = append(out, k+":"+v)
		}
		return strings.Join(out, " ")
	})
	reg("mod.keeps", func(a []string) string {
		text := string(unhexArg(a[1]))
		m, o := parseOutcome(text)
		if m == nil {
			return "FAIL " + o
		}
		y := safe(func([]string) string { return m.String() }, nil)
		if y == "panic" {
			return "FAIL print-panic"
		}
		for _, frag := range strings.Split(string(unhexArg(a[0])), "\x1f") {
			if frag != "" && !strings.Contains(y, frag) {
				return "FAIL dropped-or-altered " + frag
			}
		}
		m2, o2 := parseOutcome(y)
		if m2 == nil {
			return "FAIL reparse-" + o2
		}
		if z := safe(func([]string) string { return m2.String() }, nil); z != y {
			return "FAIL unstable " + firstDiff(y, z)
		}
		return "ok"
	})
	// C02 for arbitrary accepted input: y = print(parse(x)) is accepted and print(parse(y)) == y
	reg("mod.stable", func(a []string) string {
		text := string(unhexArg(a[1]))
		m, o := parseOutcome(text)
		if m == nil {
			if o == "error" {
				return "ok rejected"
			}
			return "FAIL " + o
		}
		y := safe(func([]string) string { return m.String() }, nil)
		if y == "panic" {
			return "FAIL print-panic"
		}
		m2, o2 := parseOutcome(y)
		if m2 == nil {
			return "FAIL reparse-" + o2
		}
		z := safe(func([]string) string { return m2.String() }, nil)
		if z != y {
			return "FAIL unstable " + firstDiff(y, z)
		}
		if c := closureCheck(m2); c != "ok" {
			return "FAIL closure2"
		}
		return "ok"
	})
	// C12: what was parsed or printed earlier in the process must not matter: parse A, print; parse+print B; print A again and
	// print a fresh parse of A: all equal; and the package-level shared singletons are untouched.
	reg("mod.pollute", func(a []string) string {
		ta, tb := string(unhexArg(a[0])), string(unhexArg(a[1]))
		m1, o := parseOutcome(ta)
		if m1 == nil {
			return "ok rejected-" + o
		}
		s1 := m1.String()
		if m2, _ := parseOutcome(tb); m2 != nil {
			_ = safe(func([]string) string { return m2.String() }, nil)
		}
		s2 := m1.String()
		m3, _ := parseOutcome(ta)
		if m3 == nil {
			return "FAIL acceptance-changed"
		}
		s3 := m3.String()
		if s1 != s2 {
			return "FAIL reprint-differs " + firstDiff(s1, s2)
		}
		if s1 != s3 {
			return "FAIL reparse-differs " + firstDiff(s1, s3)
		}
		if fp := singletonFingerprint(); fp != singletons0 {
			return "FAIL shared-singleton-mutated " + firstDiff(singletons0, fp)
		}
		return "ok"
	})
	// C12: same text, repeated parses through every entry point, give the same output
	reg("mod.det", func(a []string) string {
		text := string(unhexArg(a[1]))
		defer func() {
			if fp := singletonFingerprint(); fp != singletons0 {
				panic("shared singleton mutated: " + firstDiff(singletons0, fp))
			}
		}()
		ref, o := parseOutcome(text)
		want := o
		if ref != nil {
			want = "ok " + sum(ref.String()) + " " + listsOf(ref)
		}
		for i := 0; i < 12; i++ {
			var m *ir.Module
			var err error
			got := ""
			func() {
				defer func() {
					if e := recover(); e != nil {
						got = "panic"
					}
				}()
				switch i % 4 {
				case 0:
					m, err = asm.ParseString("x.ll", text)
				case 1:
					m, err = asm.ParseBytes("x.ll", []byte(text))
				case 2:
					m, err = asm.Parse("x.ll", bytes.NewReader([]byte(text)))
				case 3:
					fn := fmt.Sprintf("%s/verif_det_%d.ll", os.TempDir(), os.Getpid())
					os.WriteFile(fn, []byte(text), 0o600)
					m, err = asm.ParseFile(fn)
					os.Remove(fn)
				}
				if err != nil {
					got = "error"
				} else {
					got = "ok " + sum(m.String()) + " " + listsOf(m)
				}
			}()
			if got != want {
				return fmt.Sprintf("FAIL nondeterministic (entry %d): %s vs %s", i%4, got, want)
			}
		}
		return "ok"
	})
}

// singletonFingerprint renders the package-level shared objects that parsed and constructed modules point to.
func singletonFingerprint() string {
	var sb strings.Builder
	for _, t := range []types.Type{types.Void, types.MMX, types.Label, types.Token, types.Metadata, types.I1, types.I2, types.I3, types.I4, types.I5, types.I6, types.I7,
		types.I8, types.I16, types.I32, types.I64, types.I128, types.I256, types.I512, types.I1024, types.Half, types.Float, types.Double, types.X86_FP80, types.FP128,
		types.PPC_FP128, types.I1Ptr, types.I8Ptr, types.I16Ptr, types.I32Ptr, types.I64Ptr, types.I128Ptr} {
		fmt.Fprintf(&sb, "%T{%q %s};", t, t.Name(), t.LLString())
	}
	fmt.Fprintf(&sb, "True{%p %v %q};False{%p %v %q};None{%v};Null{%v}", constant.True.Typ, constant.True.X, constant.True.Typ.Name(), constant.False.Typ, constant.False.X,
		constant.False.Typ.Name(), constant.None.Type(), metadata.Null)
	return sb.String()
}

var singletons0 = singletonFingerprint()

func firstDiff(a, b string) string {
	i := 0
	for i < len(a) && i < len(b) && a[i] == b[i] {
		i++
	}
	lo := i - 30
	if lo < 0 {
		lo = 0
	}
	ha, hb := i+40, i+40
	if ha > len(a) {
		ha = len(a)
	}
	if hb > len(b) {
		hb = len(b)
	}
	return fmt.Sprintf("at %d: want %q got %q", i, a[lo:ha], b[lo:hb])
}
