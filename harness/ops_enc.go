//go:build verif

package main

import (
	"fmt"
	"strconv"
	"strings"

	"github.com/llir/ll"
	"github.com/llir/llvm/asm"
	"github.com/llir/llvm/ir"
	"github.com/llir/llvm/ir/constant"
	"github.com/llir/llvm/ir/enum"
	"github.com/llir/llvm/ir/metadata"
	"github.com/llir/llvm/ir/types"
	"github.com/llir/llvm/ir/value"
	"github.com/llir/llvm/verifhook"
)

func atoi64(s string) int64 {
	x, err := strconv.ParseInt(s, 10, 64)
	if err != nil {
		panic("harness: bad int " + s)
	}
	return x
}

func init() {
	s2s := func(f func(string) string) opFunc {
		return func(a []string) string { return hexOut([]byte(f(string(unhexArg(a[0]))))) }
	}
	reg("enc.gname", s2s(verifhook.GlobalName))
	reg("enc.lname", s2s(verifhook.LocalName))
	reg("enc.label", s2s(verifhook.LabelName))
	reg("enc.tname", s2s(verifhook.TypeName))
	reg("enc.cname", s2s(verifhook.ComdatName))
	reg("enc.mdname", s2s(verifhook.MetadataName))
	reg("enc.escident", s2s(verifhook.EscapeIdent))
	reg("enc.escstr", func(a []string) string { return hexOut([]byte(verifhook.EscapeString(unhexArg(a[0])))) })
	reg("enc.quote", func(a []string) string { return hexOut([]byte(verifhook.Quote(unhexArg(a[0])))) })
	reg("enc.unescape", func(a []string) string { return hexOut(verifhook.Unescape(string(unhexArg(a[0])))) })
	reg("enc.unquote", func(a []string) string { return hexOut(verifhook.Unquote(string(unhexArg(a[0])))) })
	i2s := func(f func(int64) string) opFunc {
		return func(a []string) string { return hexOut([]byte(f(atoi64(a[0])))) }
	}
	reg("enc.gid", i2s(verifhook.GlobalID))
	reg("enc.lid", i2s(verifhook.LocalID))
	reg("enc.labid", i2s(verifhook.LabelID))
	reg("enc.agid", i2s(verifhook.AttrGroupID))
	reg("enc.mdid", i2s(verifhook.MetadataID))

	// lexer class of a text: the class name if the whole text is exactly one token of an identifier class.
	reg("lex.class", func(a []string) string { return lexClass(string(unhexArg(a[0]))) })

	// decoders through asm.ParseString on one-line modules.
	reg("dec.global", func(a []string) string {
		tok := string(unhexArg(a[0]))
		m, err := asm.ParseString("x.ll", tok+" = global i32 0\n")
		if err != nil {
			return "error"
		}
		if len(m.Globals) != 1 {
			return "other"
		}
		return identOut(m.Globals[0].GlobalName, m.Globals[0].GlobalID)
	})
	reg("dec.local", func(a []string) string {
		tok := string(unhexArg(a[0]))
		m, err := asm.ParseString("x.ll", "define void @f(i32 "+tok+") {\n\tret void\n}\n")
		if err != nil {
			return "error"
		}
		if len(m.Funcs) != 1 || len(m.Funcs[0].Params) != 1 {
			return "other"
		}
		p := m.Funcs[0].Params[0]
		return identOut(p.LocalName, p.LocalID)
	})
	reg("dec.label", func(a []string) string {
		tok := string(unhexArg(a[0]))
		m, err := asm.ParseString("x.ll", "define void @f() {\n"+tok+"\n\tret void\n}\n")
		if err != nil {
			return "error"
		}
		if len(m.Funcs) != 1 || len(m.Funcs[0].Blocks) != 1 {
			return "other"
		}
		b := m.Funcs[0].Blocks[0]
		return identOut(b.LocalName, b.LocalID)
	})
	reg("dec.comdat", func(a []string) string {
		tok := string(unhexArg(a[0]))
		m, err := asm.ParseString("x.ll", tok+" = comdat any\n")
		if err != nil {
			return "error"
		}
		if len(m.ComdatDefs) != 1 {
			return "other"
		}
		return "name " + hexOut([]byte(m.ComdatDefs[0].Name))
	})
	reg("dec.mdname", func(a []string) string {
		tok := string(unhexArg(a[0]))
		m, err := asm.ParseString("x.ll", tok+" = !{}\n")
		if err != nil {
			return "error"
		}
		if len(m.NamedMetadataDefs) != 1 {
			return "other"
		}
		for k, v := range m.NamedMetadataDefs {
			if k != v.Name {
				return "other"
			}
			return "name " + hexOut([]byte(k))
		}
		return "other"
	})
	reg("dec.type", func(a []string) string {
		tok := string(unhexArg(a[0]))
		m, err := asm.ParseString("x.ll", tok+" = type { i32 }\n")
		if err != nil {
			return "error"
		}
		if len(m.TypeDefs) != 1 {
			return "other"
		}
		return "name " + hexOut([]byte(m.TypeDefs[0].Name()))
	})
	reg("dec.string", func(a []string) string {
		tok := string(unhexArg(a[0]))
		m, err := asm.ParseString("x.ll", "source_filename = "+tok+"\n")
		if err != nil {
			return "error"
		}
		return "name " + hexOut([]byte(m.SourceFilename))
	})

	// Property oracles (round trips through print and parse on the implementation).
	reg("rt.global", func(a []string) string {
		name := string(unhexArg(a[0]))
		m := ir.NewModule()
		m.NewGlobalDef(name, constant.NewInt(types.I32, 0))
		m2, err := asm.ParseString("x.ll", m.String())
		if err != nil {
			return "FAIL error"
		}
		if len(m2.Globals) != 1 || m2.Globals[0].GlobalName != name {
			return "FAIL"
		}
		return "ok"
	})
	reg("rt.local", func(a []string) string {
		name := string(unhexArg(a[0]))
		m := ir.NewModule()
		f := m.NewFunc("f", types.Void, ir.NewParam(name, types.I32))
		f.NewBlock("").NewRet(nil)
		m2, err := asm.ParseString("x.ll", m.String())
		if err != nil {
			return "FAIL error"
		}
		if len(m2.Funcs) != 1 || len(m2.Funcs[0].Params) != 1 || m2.Funcs[0].Params[0].LocalName != name {
			return "FAIL"
		}
		return "ok"
	})
	reg("rt.label", func(a []string) string {
		name := string(unhexArg(a[0]))
		m := ir.NewModule()
		f := m.NewFunc("f", types.Void)
		f.NewBlock(name).NewRet(nil)
		m2, err := asm.ParseString("x.ll", m.String())
		if err != nil {
			return "FAIL error"
		}
		if len(m2.Funcs) != 1 || len(m2.Funcs[0].Blocks) != 1 || m2.Funcs[0].Blocks[0].LocalName != name {
			return "FAIL"
		}
		if name == "" {
			return "ok"
		}
		// the label among CONFUSABLE TWINS (byte strings a decoder that normalises digits, signs or quotes would identify with it), each block
		// referred to by a branch and by a blockaddress constant: every reference must come back as the block of exactly that name
		names := []string{name}
		for _, tw := range []string{"0" + name, "+" + name, name + "0", "\"" + name + "\""} {
			dup := false
			for _, n := range names {
				dup = dup || n == tw
			}
			if !dup {
				names = append(names, tw)
			}
		}
		m = ir.NewModule()
		f = m.NewFunc("f", types.Void)
		var blocks []*ir.Block
		for _, n := range names {
			blocks = append(blocks, f.NewBlock(n))
		}
		for i, b := range blocks {
			if i+1 < len(blocks) {
				b.NewBr(blocks[i+1])
			} else {
				b.NewRet(nil)
			}
			m.NewGlobalDef(fmt.Sprintf("a%d", i), constant.NewBlockAddress(f, b))
		}
		m2, err = asm.ParseString("x.ll", m.String())
		if err != nil {
			return "FAIL twins-error"
		}
		if len(m2.Funcs) != 1 || len(m2.Funcs[0].Blocks) != len(names) || len(m2.Globals) != len(names) {
			return "FAIL twins-shape"
		}
		for i, b := range m2.Funcs[0].Blocks {
			if b.LocalName != names[i] {
				return "FAIL twins-label"
			}
			if i+1 < len(names) {
				br, ok := b.Term.(*ir.TermBr)
				if !ok || br.Target != value.Value(m2.Funcs[0].Blocks[i+1]) {
					return "FAIL twins-branch-target"
				}
			}
			ba, ok := m2.Globals[i].Init.(*constant.BlockAddress)
			if !ok || ba.Block != value.Value(b) {
				return "FAIL twins-blockaddress"
			}
		}
		return "ok"
	})
	reg("rt.type", func(a []string) string {
		name := string(unhexArg(a[0]))
		// the name carried by EVERY kind of type that can be named, at its definition and at a use
		kinds := []struct {
			kind string
			mk   func() types.Type
			use  bool
		}{
			{"struct", func() types.Type { return types.NewStruct(types.I32) }, true},
			{"packed", func() types.Type { t := types.NewStruct(types.I32); t.Packed = true; return t }, true},
			{"opaque", func() types.Type { return &types.StructType{Opaque: true} }, false},
			{"array", func() types.Type { return types.NewArray(4, types.I8) }, true},
			{"vector", func() types.Type { return types.NewVector(2, types.I32) }, true},
			{"scalable", func() types.Type { t := types.NewVector(2, types.I32); t.Scalable = true; return t }, true},
			{"pointer", func() types.Type { return types.NewPointer(types.I8) }, true},
			{"int", func() types.Type { return types.NewInt(17) }, true},
			{"float", func() types.Type { return &types.FloatType{Kind: types.FloatKindDouble} }, true},
			{"func", func() types.Type { return types.NewFunc(types.Void, types.I32) }, false},
			{"mmx", func() types.Type { return &types.MMXType{} }, true},
			{"label", func() types.Type { return &types.LabelType{} }, false},
			{"token", func() types.Type { return &types.TokenType{} }, false},
			{"metadata", func() types.Type { return &types.MetadataType{} }, false},
		}
		want := ""
		for _, k := range kinds {
			m := ir.NewModule()
			t := k.mk()
			m.NewTypeDef(name, t)
			if k.use {
				m.NewGlobal("g", t).Linkage = enum.LinkageExternal
			}
			if want == "" {
				want = t.String()
			} else if t.String() != want {
				return "FAIL " + k.kind + " spells the name " + t.String() + ", struct spells it " + want
			}
			text := m.String()
			m2, err := asm.ParseString("x.ll", text)
			if err != nil {
				return "FAIL error " + k.kind
			}
			if len(m2.TypeDefs) != 1 || m2.TypeDefs[0].Name() != name {
				return "FAIL " + k.kind
			}
			if k.use && (len(m2.Globals) != 1 || m2.Globals[0].ContentType != m2.TypeDefs[0]) {
				return "FAIL use " + k.kind
			}
			if m2.String() != text {
				return "FAIL not-fixpoint " + k.kind
			}
		}
		return "ok"
	})
	reg("rt.comdat", func(a []string) string {
		name := string(unhexArg(a[0]))
		m := ir.NewModule()
		m.ComdatDefs = append(m.ComdatDefs, &ir.ComdatDef{Name: name, Kind: enum.SelectionKindAny})
		m2, err := asm.ParseString("x.ll", m.String())
		if err != nil {
			return "FAIL error"
		}
		if len(m2.ComdatDefs) != 1 || m2.ComdatDefs[0].Name != name {
			return "FAIL"
		}
		return "ok"
	})
	reg("rt.mdname", func(a []string) string {
		name := string(unhexArg(a[0]))
		m := ir.NewModule()
		m.NamedMetadataDefs[name] = &metadata.NamedDef{Name: name}
		m2, err := asm.ParseString("x.ll", m.String())
		if err != nil {
			return "FAIL error"
		}
		if len(m2.NamedMetadataDefs) != 1 || m2.NamedMetadataDefs[name] == nil {
			return "FAIL"
		}
		return "ok"
	})
	// metadata ATTACHMENT names (global, function, instruction): printed token and print->parse round trip
	reg("enc.mdattach", func(a []string) string {
		at := &metadata.Attachment{Name: string(unhexArg(a[0])), Node: &metadata.Tuple{MetadataID: 0}}
		return hexOut([]byte(at.String()))
	})
	reg("rt.mdattach", func(a []string) string {
		name := string(unhexArg(a[0]))
		m := ir.NewModule()
		t := &metadata.Tuple{MetadataID: -1}
		m.MetadataDefs = append(m.MetadataDefs, t)
		g := m.NewGlobalDef("g", constant.NewInt(types.I32, 0))
		g.Metadata = append(g.Metadata, &metadata.Attachment{Name: name, Node: t})
		f := m.NewFunc("f", types.Void)
		f.Metadata = append(f.Metadata, &metadata.Attachment{Name: name, Node: t})
		r := f.NewBlock("").NewRet(nil)
		r.Metadata = append(r.Metadata, &metadata.Attachment{Name: name, Node: t})
		m2, err := asm.ParseString("x.ll", m.String())
		if err != nil {
			return "FAIL error"
		}
		if len(m2.Globals) != 1 || len(m2.Globals[0].Metadata) != 1 || m2.Globals[0].Metadata[0].Name != name {
			return "FAIL global"
		}
		if len(m2.Funcs) != 1 || len(m2.Funcs[0].Metadata) != 1 || m2.Funcs[0].Metadata[0].Name != name {
			return "FAIL func"
		}
		tr := m2.Funcs[0].Blocks[0].Term.(*ir.TermRet)
		if len(tr.Metadata) != 1 || tr.Metadata[0].Name != name {
			return "FAIL inst"
		}
		return "ok"
	})
	reg("rt.string", func(a []string) string {
		s := string(unhexArg(a[0]))
		m := ir.NewModule()
		m.SourceFilename = s
		g := m.NewGlobalDef("g", constant.NewInt(types.I32, 0))
		g.Section = s
		m2, err := asm.ParseString("x.ll", m.String())
		if err != nil {
			return "FAIL error"
		}
		if m2.SourceFilename != s || len(m2.Globals) != 1 || m2.Globals[0].Section != s {
			return "FAIL"
		}
		return "ok"
	})
	reg("rt.chararray", func(a []string) string {
		s := unhexArg(a[0])
		m := ir.NewModule()
		m.NewGlobalDef("g", constant.NewCharArray(s))
		m2, err := asm.ParseString("x.ll", m.String())
		if err != nil {
			return "FAIL error"
		}
		if len(m2.Globals) != 1 {
			return "FAIL"
		}
		c, ok := m2.Globals[0].Init.(*constant.CharArray)
		if !ok || string(c.X) != string(s) {
			return "FAIL"
		}
		return "ok"
	})
}

func identOut(name string, id int64) string {
	if name == "" {
		return fmt.Sprintf("id %d", id)
	}
	return "name " + hexOut([]byte(name))
}

func lexClass(src string) string {
	var l ll.Lexer
	l.Init(src)
	tok := l.Next()
	if tok == ll.EOI {
		return "other"
	}
	s, e := l.Pos()
	if s != 0 || e != len(src) {
		return "other"
	}
	if nxt := l.Next(); nxt != ll.EOI {
		return "other"
	}
	switch tok {
	case ll.GLOBAL_IDENT_TOK, ll.LOCAL_IDENT_TOK, ll.LABEL_IDENT_TOK, ll.ATTR_GROUP_ID_TOK,
		ll.COMDAT_NAME_TOK, ll.METADATA_NAME_TOK, ll.METADATA_ID_TOK, ll.STRING_LIT_TOK:
		return strings.TrimSuffix(tok.String(), "_TOK")
	}
	return "other"
}
