//go:build verif

package main

import (
	"fmt"
	"reflect"
	"strconv"
	"strings"

	"github.com/llir/llvm/asm"
	asmenum "github.com/llir/llvm/asm/enum"
	"github.com/llir/llvm/ir"
	"github.com/llir/llvm/ir/constant"
	"github.com/llir/llvm/ir/enum"
	"github.com/llir/llvm/ir/metadata"
	"github.com/llir/llvm/ir/types"
	"github.com/llir/llvm/ir/value"
)

// the header keywords in the order of the model's list `Core3.kLead`
var c3Lead = []string{"appending", "available_externally", "common", "internal", "linkonce", "linkonce_odr", "private", "weak", "weak_odr", "external", "extern_weak",
	"dso_local", "dso_preemptable", "default", "hidden", "protected", "dllexport", "dllimport",
	"ccc", "fastcc", "coldcc", "ghccc", "webkit_jscc", "anyregcc", "preserve_mostcc", "preserve_allcc", "swiftcc", "cxx_fast_tlscc", "tailcc", "cfguard_checkcc",
	"swifttailcc", "x86_stdcallcc", "x86_fastcallcc", "arm_apcscc", "arm_aapcscc", "arm_aapcs_vfpcc", "msp430_intrcc", "x86_thiscallcc", "ptx_kernel", "ptx_device",
	"spir_func", "spir_kernel", "intel_ocl_bicc", "x86_64_sysvcc", "win64cc", "x86_vectorcallcc", "hhvmcc", "hhvm_ccc", "x86_intrcc", "avr_intrcc", "avr_signalcc",
	"amdgpu_vs", "amdgpu_gs", "amdgpu_ps", "amdgpu_cs", "amdgpu_kernel", "x86_regcallcc", "amdgpu_hs", "amdgpu_ls", "amdgpu_es", "aarch64_vector_pcs",
	"aarch64_sve_vector_pcs", "amdgpu_gfx",
	// 63–68: the return attributes that are bare keywords (model: `kRetAttr`)
	"inreg", "noalias", "nonnull", "noundef", "signext", "zeroext"}

// the parameter attributes that are bare keywords, in the order of the model's list `Core3.kParamAttr` (allocalign / allocptr are outside the fragment)
var c3ParamAttr = []string{"immarg", "inreg", "nest", "noalias", "nocapture", "nofree", "nonnull", "noundef", "readnone", "readonly", "returned", "signext", "swiftasync",
	"swifterror", "swiftself", "writeonly", "zeroext"}

// the function attributes that are bare keywords, in the order of the model's list `Core3.kFuncAttr`
var c3FuncAttr = []string{"alwaysinline", "argmemonly", "builtin", "cold", "convergent", "disable_sanitizer_instrumentation", "fn_ret_thunk_extern", "hot",
	"inaccessiblememonly", "inaccessiblemem_or_argmemonly", "inlinehint", "jumptable", "minsize", "mustprogress", "naked", "nobuiltin", "nocf_check", "nocallback",
	"noduplicate", "nofree", "noimplicitfloat", "noinline", "nomerge", "noprofile", "norecurse", "noredzone", "noreturn", "nosanitize_bounds", "nosanitize_coverage",
	"nosync", "nounwind", "nonlazybind", "null_pointer_is_valid", "optforfuzzing", "optnone", "optsize", "presplitcoroutine", "readnone", "readonly", "returns_twice",
	"ssp", "sspreq", "sspstrong", "safestack", "sanitize_address", "sanitize_hwaddress", "sanitize_memtag", "sanitize_memory", "sanitize_thread", "shadowcallstack",
	"speculatable", "speculative_load_hardening", "strictfp", "uwtable", "willreturn", "writeonly"}

// M-Core-3 descriptors (see lean/LlirModel/Drv/Core3Ops.lean): a function definition built through the ir API.
//   core3.print <ret ty> <hexname> <params> <blocks>
// Unnamed values (ident `I<k>`) are left WITHOUT an ID: the printer numbers them; the generator makes the model's IDs LLVM's numbering.

type c3ident struct {
	name  string
	id    int64
	named bool
}

func c3Ident(s string) c3ident {
	if strings.HasPrefix(s, "N") {
		return c3ident{name: string(unhexArg(s[1:])), named: true}
	}
	k, err := strconv.ParseInt(s[1:], 10, 64)
	if err != nil {
		panic("harness: bad ident " + s)
	}
	return c3ident{id: k}
}

type c3operand struct {
	local  *c3ident
	global *string // name of a global variable or function of the module (M-Whole)
	konst  string  // constant descriptor
}

type c3inc struct {
	op  c3operand
	lab c3ident
}

type c3arg struct {
	kind  byte // T P V L R H
	ty    types.Type
	op    c3operand
	lab   c3ident
	void  bool
	incs  []c3inc
	nums  []uint64
	align int64 // -1: none
	ixs   []c3arg
	has   bool      // Y<ident> / U<ident>: an identifier is present
	labs  []c3ident // B<ident>,<ident>…
	kw    int // W<i>: position in the keyword list of the slot; O / O<i>: -1 or the position (optional keyword)
}

func c3Operand(s string) c3operand {
	if strings.HasPrefix(s, "%") {
		i := c3Ident(s[1:])
		return c3operand{local: &i}
	}
	if strings.HasPrefix(s, "@") {
		n := string(unhexArg(s[1:]))
		return c3operand{global: &n}
	}
	return c3operand{konst: s[1:]}
}

func c3TyOperand(named map[string]*types.StructType, s string) (types.Type, c3operand) {
	p := &tyParser{s: s, named: named}
	t := p.ty()
	p.expect('=')
	return t, c3Operand(p.s[p.pos:])
}

type c3inst struct {
	res  *c3ident
	row  int
	args []c3arg
	// positions in the row's flag-keyword list (`F<i>,<i>…`: nuw nsw / exact / volatile / the fast-math flags), in the order written
	flags []int
	// continuation lines (fourth field of the descriptor): `S…` the cases of a switch, `D<n>~<u>` the destinations of an invoke,
	// `C<0|1>&c<ty>=<op>&f<ty>=<op>…` cleanup flag and clauses of a landingpad
	cases   []c3case
	dests   []c3ident
	cleanup bool
	clauses []c3case
	// `M<hexname>=<id>&…`: the metadata attachments `, !name !id` at the end of the line
	mds []c3md
}

type c3md struct {
	name string
	id   int64
}

// the metadata definitions of the module under construction by ID (whole.*): an attachment refers to the definition itself; a function built on its own
// (core3.*) gets a stand-in node that prints as `!id`
var c3MdDefs map[int64]metadata.Definition

type c3case struct {
	ty     types.Type
	op     c3operand
	lab    c3ident
	filter bool
}

func c3Inst(named map[string]*types.StructType, s string) c3inst {
	f := strings.SplitN(s, ":", 4)
	var in c3inst
	if len(f) == 4 {
		x := f[3]
		// a continuation descriptor may be followed by the attachments (`…:M…`: printed at the end of the LAST line of the instruction)
		if i := strings.Index(x, ":M"); i >= 0 && x[0] != 'M' {
			for _, ms := range strings.Split(x[i+2:], "&") {
				g := strings.SplitN(ms, "=", 2)
				id, err := strconv.ParseInt(g[1], 10, 64)
				if err != nil {
					panic("harness: bad attachment descriptor " + x)
				}
				in.mds = append(in.mds, c3md{string(unhexArg(g[0])), id})
			}
			x = x[:i]
		}
		switch x[0] {
		case 'S':
			if x != "S-" {
				for _, cs := range strings.Split(x[1:], "&") {
					g := strings.SplitN(cs, "~", 2)
					var c c3case
					c.ty, c.op = c3TyOperand(named, g[0])
					c.lab = c3Ident(g[1])
					in.cases = append(in.cases, c)
				}
			}
		case 'D':
			g := strings.SplitN(x[1:], "~", 2)
			in.dests = []c3ident{c3Ident(g[0]), c3Ident(g[1])}
		case 'M':
			for _, ms := range strings.Split(x[1:], "&") {
				g := strings.SplitN(ms, "=", 2)
				id, err := strconv.ParseInt(g[1], 10, 64)
				if err != nil {
					panic("harness: bad attachment descriptor " + x)
				}
				in.mds = append(in.mds, c3md{string(unhexArg(g[0])), id})
			}
		case 'C':
			in.cleanup = x[1] == '1'
			if len(x) > 2 {
				for _, cs := range strings.Split(x[3:], "&") {
					var c c3case
					c.filter = cs[0] == 'f'
					c.ty, c.op = c3TyOperand(named, cs[1:])
					in.clauses = append(in.clauses, c)
				}
			}
		default:
			panic("harness: bad continuation descriptor " + x)
		}
	}
	if f[0] != "_" {
		i := c3Ident(f[0])
		in.res = &i
	}
	in.row, _ = strconv.Atoi(f[1])
	if f[2] != "-" {
		for _, a := range strings.Split(f[2], "!") {
			if a[0] == 'F' {
				if len(a) > 1 {
					for _, t := range strings.Split(a[1:], ",") {
						k, err := strconv.Atoi(t)
						if err != nil {
							panic("harness: bad flag " + a)
						}
						in.flags = append(in.flags, k)
					}
				}
				continue
			}
			var arg c3arg
			arg.kind = a[0]
			switch a[0] {
			case 'T':
				arg.ty = (&tyParser{s: a[1:], named: named}).ty()
			case 'P':
				arg.ty, arg.op = c3TyOperand(named, a[1:])
			case 'V':
				arg.op = c3Operand(a[1:])
			case 'L':
				arg.lab = c3Ident(a[1:])
			case 'H':
				for _, it := range strings.Split(a[1:], "&") {
					f := strings.SplitN(it, "~", 2)
					arg.incs = append(arg.incs, c3inc{c3Operand(f[0]), c3Ident(f[1])})
				}
			case 'G':
				if len(a) > 1 {
					for _, it := range strings.Split(a[1:], "&") {
						var ix c3arg
						ix.ty, ix.op = c3TyOperand(named, it)
						arg.ixs = append(arg.ixs, ix)
					}
				}
			case 'K':
				if len(a) > 1 {
					for _, t := range strings.Split(a[1:], ",") {
						k, err := strconv.ParseUint(t, 10, 64)
						if err != nil {
							panic("harness: bad index " + a)
						}
						arg.nums = append(arg.nums, k)
					}
				}
			case 'A':
				arg.align = -1
				if len(a) > 1 {
					k, err := strconv.ParseInt(a[1:], 10, 64)
					if err != nil {
						panic("harness: bad align " + a)
					}
					arg.align = k
				}
			case 'X':
				arg.lab = c3Ident(a[1:])
			case 'Y', 'U':
				// `Y` / `U`: no parent pad (`none`) / unwind to caller; `Y<ident>` / `U<ident>`: a local / a label
				if len(a) > 1 {
					arg.lab = c3Ident(a[1:])
					arg.has = true
				}
			case 'B':
				if len(a) > 1 {
					for _, t := range strings.Split(a[1:], ",") {
						arg.labs = append(arg.labs, c3Ident(t))
					}
				}
			case 'W':
				k, err := strconv.Atoi(a[1:])
				if err != nil {
					panic("harness: bad keyword position " + a)
				}
				arg.kw = k
			case 'O':
				arg.kw = -1
				if len(a) > 1 {
					k, err := strconv.Atoi(a[1:])
					if err != nil {
						panic("harness: bad keyword position " + a)
					}
					arg.kw = k
				}
			case 'R':
				if len(a) == 1 {
					arg.void = true
				} else {
					arg.ty, arg.op = c3TyOperand(named, a[1:])
				}
			}
			in.args = append(in.args, arg)
		}
	}
	return in
}

var c3BinOps = []string{"add", "sub", "mul", "udiv", "sdiv", "urem", "srem", "shl", "lshr", "ashr", "and", "or", "xor"}
var c3Casts = []string{"trunc", "zext", "sext", "fptrunc", "fpext", "fptoui", "fptosi", "uitofp", "sitofp", "ptrtoint", "inttoptr", "bitcast", "addrspacecast"}
var c3Preds = []enum.IPred{enum.IPredEQ, enum.IPredNE, enum.IPredUGT, enum.IPredUGE, enum.IPredULT, enum.IPredULE, enum.IPredSGT, enum.IPredSGE, enum.IPredSLT, enum.IPredSLE}

var c3FPreds = []enum.FPred{enum.FPredFalse, enum.FPredOEQ, enum.FPredOGT, enum.FPredOGE, enum.FPredOLT, enum.FPredOLE, enum.FPredONE, enum.FPredORD,
	enum.FPredUEQ, enum.FPredUGT, enum.FPredUGE, enum.FPredULT, enum.FPredULE, enum.FPredUNE, enum.FPredUNO, enum.FPredTrue}

// the atomic orderings in the order of kOrdSp (lean/LlirModel/Core3.lean)
var c3Orderings = []enum.AtomicOrdering{enum.AtomicOrderingUnordered, enum.AtomicOrderingMonotonic, enum.AtomicOrderingAcquire, enum.AtomicOrderingRelease,
	enum.AtomicOrderingAcquireRelease, enum.AtomicOrderingSequentiallyConsistent}

var c3FMF = []enum.FastMathFlag{enum.FastMathFlagNNaN, enum.FastMathFlagNInf, enum.FastMathFlagNSZ, enum.FastMathFlagARcp, enum.FastMathFlagContract,
	enum.FastMathFlagAFn, enum.FastMathFlagReassoc, enum.FastMathFlagFast}

// c3ApplyFlags sets the flags of an instruction from positions in the keyword list of its row (lean/LlirModel/Core3.lean: kOverflow, kExact, kVolatile, kFMF)
func c3ApplyFlags(inst interface{}, flags []int) {
	if len(flags) == 0 {
		return
	}
	var ovf []enum.OverflowFlag
	var fmf []enum.FastMathFlag
	for _, k := range flags {
		ovf = append(ovf, []enum.OverflowFlag{enum.OverflowFlagNUW, enum.OverflowFlagNSW}[k%2])
		fmf = append(fmf, c3FMF[k%len(c3FMF)])
	}
	switch x := inst.(type) {
	case *ir.InstAdd:
		x.OverflowFlags = ovf
	case *ir.InstSub:
		x.OverflowFlags = ovf
	case *ir.InstMul:
		x.OverflowFlags = ovf
	case *ir.InstShl:
		x.OverflowFlags = ovf
	case *ir.InstUDiv:
		x.Exact = true
	case *ir.InstSDiv:
		x.Exact = true
	case *ir.InstLShr:
		x.Exact = true
	case *ir.InstAShr:
		x.Exact = true
	case *ir.InstStore:
		// kAtomicVolatile: 0 atomic, 1 volatile
		for _, k := range flags {
			if k == 0 {
				x.Atomic = true
			} else {
				x.Volatile = true
			}
		}
	case *ir.InstLoad:
		for _, k := range flags {
			if k == 0 {
				x.Atomic = true
			} else {
				x.Volatile = true
			}
		}
	case *ir.InstCmpXchg:
		// kWeakVolatile: 0 weak, 1 volatile
		for _, k := range flags {
			if k == 0 {
				x.Weak = true
			} else {
				x.Volatile = true
			}
		}
	case *ir.InstAtomicRMW:
		x.Volatile = true
	case *ir.InstGetElementPtr:
		x.InBounds = true
	case *ir.InstFNeg:
		x.FastMathFlags = fmf
	case *ir.InstFAdd:
		x.FastMathFlags = fmf
	case *ir.InstFSub:
		x.FastMathFlags = fmf
	case *ir.InstFMul:
		x.FastMathFlags = fmf
	case *ir.InstFDiv:
		x.FastMathFlags = fmf
	case *ir.InstFRem:
		x.FastMathFlags = fmf
	default:
		panic(fmt.Sprintf("harness: flags on %T", inst))
	}
}

func c3AggElem(t types.Type, ks []uint64) types.Type {
	for _, k := range ks {
		switch a := t.(type) {
		case *types.ArrayType:
			t = a.ElemType
		case *types.StructType:
			t = a.Fields[k]
		default:
			panic("harness: not an aggregate")
		}
	}
	return t
}

func c3CmpTy(t types.Type) types.Type {
	if v, ok := t.(*types.VectorType); ok {
		return &types.VectorType{Scalable: v.Scalable, Len: v.Len, ElemType: types.I1}
	}
	return types.I1
}

func core3Build(a []string) *ir.Func {
	return core3BuildIn(map[string]*types.StructType{}, a)
}

func core3BuildIn(named map[string]*types.StructType, a []string) *ir.Func {
	fn, finish := core3Prepare(named, a)
	finish(map[string]value.Value{fn.GlobalName: fn})
	return fn
}

// core3Prepare creates the function with its blocks and instructions; the returned closure fills in the operands (globals: the global variables and
// functions of the module a `@name` operand may refer to)
func core3Prepare(named map[string]*types.StructType, a []string) (*ir.Func, func(globals map[string]value.Value)) {
	ret := (&tyParser{s: a[0], named: named}).ty()
	var params []*ir.Param
	locals := map[c3ident]value.Value{}
	key := func(i c3ident) c3ident { return i }
	// a trailing `|...` (or `...` alone) in the parameter field marks a variadic function
	variadic := a[2] == "..." || strings.HasSuffix(a[2], "|...")
	if variadic {
		a = append([]string{}, a...)
		a[2] = strings.TrimSuffix(strings.TrimSuffix(a[2], "..."), "|")
		if a[2] == "" {
			a[2] = "-"
		}
	}
	if a[2] != "-" {
		for _, ps := range strings.Split(a[2], "|") {
			// `<ty>~<ident>[~<i>,<i>…]`: the third field lists the parameter attributes as positions in the model's list `kParamAttr`
			f := strings.SplitN(ps, "~", 3)
			t := (&tyParser{s: f[0], named: named}).ty()
			id := c3Ident(f[1])
			p := ir.NewParam(id.name, t)
			if len(f) == 3 && f[2] != "" {
				for _, as := range strings.Split(f[2], ",") {
					i, err := strconv.Atoi(as)
					if err != nil || i < 0 || i >= len(c3ParamAttr) {
						panic("harness: bad parameter attribute position " + as)
					}
					p.Attrs = append(p.Attrs, asmenum.ParamAttrFromString(c3ParamAttr[i]))
				}
			}
			params = append(params, p)
			locals[key(id)] = p
		}
	}
	// the name field may carry the header keywords: `<hexname>~<i>,<i>…` (positions in the model's list `kLead`: linkage, preemption, visibility, DLL storage
	// class, calling convention)
	nameHex, lead, _ := strings.Cut(a[1], "~")
	lead, tail, _ := strings.Cut(lead, "~")
	fn := ir.NewFunc(string(unhexArg(nameHex)), ret, params...)
	fn.Sig.Variadic = variadic
	// the clauses behind the parameter list: `u<i>` unnamed_addr / local_unnamed_addr, `a<n>` addrspace, `k<i>,…` attributes (positions in the model's list
	// `kFuncAttr`), `s<hex>` section, `p<hex>` partition, `l<n>` align, `g<hex>` gc
	if tail != "" {
		for _, c := range strings.Split(tail, ";") {
			if c == "" {
				continue
			}
			v := c[1:]
			num := func() uint64 {
				n, err := strconv.ParseUint(v, 10, 64)
				if err != nil {
					panic("harness: bad clause descriptor " + c)
				}
				return n
			}
			switch c[0] {
			case 'u':
				fn.UnnamedAddr = asmenum.UnnamedAddrFromString([]string{"unnamed_addr", "local_unnamed_addr"}[num()])
			case 'a':
				fn.AddrSpace = types.AddrSpace(num())
			case 'k':
				for _, ps := range strings.Split(v, ",") {
					i, err := strconv.Atoi(ps)
					if err != nil || i < 0 || i >= len(c3FuncAttr) {
						panic("harness: bad attribute position " + ps)
					}
					fn.FuncAttrs = append(fn.FuncAttrs, asmenum.FuncAttrFromString(c3FuncAttr[i]))
				}
			case 's':
				fn.Section = string(unhexArg(v))
			case 'p':
				fn.Partition = string(unhexArg(v))
			case 'l':
				fn.Align = ir.Align(num())
			case 'g':
				fn.GC = string(unhexArg(v))
			default:
				panic("harness: bad clause descriptor " + c)
			}
		}
	}
	if lead != "" {
		for _, ps := range strings.Split(lead, ",") {
			i, err := strconv.Atoi(ps)
			if err != nil || i < 0 || i >= len(c3Lead) {
				panic("harness: bad header keyword position " + ps)
			}
			kw := c3Lead[i]
			switch {
			case i < 11:
				fn.Linkage = asmenum.LinkageFromString(kw)
			case i < 13:
				fn.Preemption = asmenum.PreemptionFromString(kw)
			case i < 16:
				fn.Visibility = asmenum.VisibilityFromString(kw)
			case i < 18:
				fn.DLLStorageClass = asmenum.DLLStorageClassFromString(kw)
			case i < 63:
				fn.CallingConv = asmenum.CallingConvFromString(kw)
			default:
				fn.ReturnAttrs = append(fn.ReturnAttrs, asmenum.ReturnAttrFromString(kw))
			}
		}
	}
	type pend struct {
		in   c3inst
		inst interface{}
	}
	var pends []pend
	blocks := map[c3ident]*ir.Block{}
	var blockDescs []string
	if a[3] != "-" { // `-`: no blocks (a function declaration)
		blockDescs = strings.Split(a[3], "/")
	}
	for _, bs := range blockDescs {
		f := strings.Split(bs, "^")
		lab := c3Ident(f[0])
		b := fn.NewBlock(lab.name)
		blocks[key(lab)] = b
		locals[key(lab)] = b
		for k, is := range f[1:] {
			in := c3Inst(named, is)
			last := k == len(f)-2
			var obj interface{}
			// the result type is fixed when the instruction is created (as the parser's scaffold does, from the types written in the instruction):
			// operands may refer to the instruction itself or to later ones
			firstTy := func() types.Type {
				for _, a := range in.args {
					if a.kind == 'P' {
						return a.ty
					}
				}
				return nil
			}
			switch {
			case in.row < 13:
				var v value.Named
				switch c3BinOps[in.row] {
				case "add":
					x := &ir.InstAdd{Typ: firstTy()}
					v, obj = x, x
				case "sub":
					x := &ir.InstSub{Typ: firstTy()}
					v, obj = x, x
				case "mul":
					x := &ir.InstMul{Typ: firstTy()}
					v, obj = x, x
				case "udiv":
					x := &ir.InstUDiv{Typ: firstTy()}
					v, obj = x, x
				case "sdiv":
					x := &ir.InstSDiv{Typ: firstTy()}
					v, obj = x, x
				case "urem":
					x := &ir.InstURem{Typ: firstTy()}
					v, obj = x, x
				case "srem":
					x := &ir.InstSRem{Typ: firstTy()}
					v, obj = x, x
				case "shl":
					x := &ir.InstShl{Typ: firstTy()}
					v, obj = x, x
				case "lshr":
					x := &ir.InstLShr{Typ: firstTy()}
					v, obj = x, x
				case "ashr":
					x := &ir.InstAShr{Typ: firstTy()}
					v, obj = x, x
				case "and":
					x := &ir.InstAnd{Typ: firstTy()}
					v, obj = x, x
				case "or":
					x := &ir.InstOr{Typ: firstTy()}
					v, obj = x, x
				case "xor":
					x := &ir.InstXor{Typ: firstTy()}
					v, obj = x, x
				}
				_ = v
			case in.row < 23:
				var ct types.Type = types.I1
				if vt, ok := firstTy().(*types.VectorType); ok {
					ct = &types.VectorType{Scalable: vt.Scalable, Len: vt.Len, ElemType: types.I1}
				}
				obj = &ir.InstICmp{Pred: c3Preds[in.row-13], Typ: ct}
			case in.row == 23:
				obj = &ir.InstLoad{ElemType: in.args[0].ty}
			case in.row == 24:
				obj = &ir.InstStore{}
			case in.row == 25:
				obj = &ir.InstSelect{Typ: in.args[1].ty}
			case in.row == 26:
				obj = &ir.TermRet{}
			case in.row == 27:
				obj = &ir.TermBr{}
			case in.row == 28:
				obj = &ir.TermCondBr{}
			case in.row == 29:
				obj = &ir.TermUnreachable{}
			case in.row >= 30 && in.row <= 42:
				to := in.args[1].ty
				switch c3Casts[in.row-30] {
				case "trunc":
					obj = &ir.InstTrunc{To: to}
				case "zext":
					obj = &ir.InstZExt{To: to}
				case "sext":
					obj = &ir.InstSExt{To: to}
				case "fptrunc":
					obj = &ir.InstFPTrunc{To: to}
				case "fpext":
					obj = &ir.InstFPExt{To: to}
				case "fptoui":
					obj = &ir.InstFPToUI{To: to}
				case "fptosi":
					obj = &ir.InstFPToSI{To: to}
				case "uitofp":
					obj = &ir.InstUIToFP{To: to}
				case "sitofp":
					obj = &ir.InstSIToFP{To: to}
				case "ptrtoint":
					obj = &ir.InstPtrToInt{To: to}
				case "inttoptr":
					obj = &ir.InstIntToPtr{To: to}
				case "bitcast":
					obj = &ir.InstBitCast{To: to}
				case "addrspacecast":
					obj = &ir.InstAddrSpaceCast{To: to}
				}
			case in.row == 43:
				obj = &ir.InstPhi{Typ: in.args[0].ty}
			case in.row == 44:
				obj = &ir.InstFreeze{Typ: in.args[0].ty}
			case in.row == 45:
				obj = &ir.InstFNeg{Typ: in.args[0].ty}
			case in.row >= 46 && in.row <= 50:
				t := in.args[0].ty
				switch in.row {
				case 46:
					obj = &ir.InstFAdd{Typ: t}
				case 47:
					obj = &ir.InstFSub{Typ: t}
				case 48:
					obj = &ir.InstFMul{Typ: t}
				case 49:
					obj = &ir.InstFDiv{Typ: t}
				case 50:
					obj = &ir.InstFRem{Typ: t}
				}
			case in.row >= 51 && in.row <= 66:
				obj = &ir.InstFCmp{Pred: c3FPreds[in.row-51], Typ: c3CmpTy(in.args[0].ty)}
			case in.row == 67:
				obj = &ir.InstExtractElement{Typ: in.args[0].ty.(*types.VectorType).ElemType}
			case in.row == 68:
				obj = &ir.InstInsertElement{Typ: in.args[0].ty.(*types.VectorType)}
			case in.row == 69:
				xt, mt := in.args[0].ty.(*types.VectorType), in.args[2].ty.(*types.VectorType)
				obj = &ir.InstShuffleVector{Typ: &types.VectorType{Scalable: mt.Scalable, Len: mt.Len, ElemType: xt.ElemType}}
			case in.row == 70:
				a := &ir.InstAlloca{ElemType: in.args[0].ty}
				a.Type()
				obj = a
			case in.row == 71:
				obj = &ir.InstExtractValue{Indices: in.args[1].nums, Typ: c3AggElem(in.args[0].ty, in.args[1].nums)}
			case in.row == 72:
				obj = &ir.InstInsertValue{Indices: in.args[2].nums, Typ: in.args[0].ty}
			case in.row == 73:
				// (the result type is computed from the operands once they are filled in; the generator gives a getelementptr no getelementptr operands)
				obj = &ir.InstGetElementPtr{ElemType: in.args[0].ty}
			case in.row >= 74 && in.row <= 81:
				// call void / call T, plain (74, 75) and with a tail-call marker: tail (76, 77), musttail (78, 79), notail (80, 81)
				c := &ir.InstCall{Typ: types.Void, Tail: []enum.Tail{enum.TailNone, enum.TailTail, enum.TailMustTail, enum.TailNoTail}[(in.row-74)/2]}
				if in.row%2 == 1 {
					c.Typ = in.args[0].ty
				}
				obj = c
			case in.row == 82:
				obj = &ir.TermSwitch{}
			case in.row == 83:
				obj = &ir.TermInvoke{Typ: types.Void}
			case in.row == 84:
				obj = &ir.TermInvoke{Typ: in.args[0].ty}
			case in.row == 85:
				obj = &ir.InstLandingPad{ResultType: in.args[0].ty, Cleanup: in.cleanup}
			case in.row == 86:
				obj = &ir.TermResume{}
			case in.row == 87:
				obj = &ir.InstVAArg{ArgType: in.args[1].ty}
			case in.row == 91:
				obj = &ir.TermIndirectBr{}
			case in.row == 92:
				obj = &ir.TermCatchSwitch{}
			case in.row == 93:
				obj = &ir.TermCatchRet{}
			case in.row == 94:
				obj = &ir.TermCleanupRet{}
			case in.row == 95:
				obj = &ir.InstCatchPad{}
			case in.row == 96:
				obj = &ir.InstCleanupPad{}
			case in.row == 88:
				obj = &ir.InstFence{Ordering: c3Orderings[in.args[0].kw]}
			case in.row == 89:
				// (the scaffold type of the parser: { T, i1 } with T the type written in front of the new value)
				obj = &ir.InstCmpXchg{Typ: types.NewStruct(in.args[2].ty, types.I1), SuccessOrdering: c3Orderings[in.args[3].kw], FailureOrdering: c3Orderings[in.args[4].kw]}
			case in.row == 90:
				obj = &ir.InstAtomicRMW{Op: enum.AtomicOp(in.args[0].kw + 1), Typ: in.args[1].ty.(*types.PointerType).ElemType, Ordering: c3Orderings[in.args[3].kw]}
			default:
				panic("harness: bad row")
			}
			if in.res != nil {
				n := obj.(interface{ SetName(string) })
				n.SetName(in.res.name)
				locals[key(*in.res)] = obj.(value.Value)
			}
			if last {
				b.Term = obj.(ir.Terminator)
			} else {
				b.Insts = append(b.Insts, obj.(ir.Instruction))
			}
			pends = append(pends, pend{in, obj})
		}
	}
	return fn, func(globals map[string]value.Value) {
		operand := func(t types.Type, o c3operand) value.Value {
			if o.global != nil {
				v, ok := globals[*o.global]
				if !ok {
					panic(fmt.Sprintf("harness: undefined global %q in descriptor (have %d)", *o.global, len(globals)))
				}
				return v
			}
			if o.local != nil {
				v, ok := locals[key(*o.local)]
				if !ok {
					panic("harness: undefined local in descriptor")
				}
				return v
			}
			p := &tyParser{s: o.konst, named: named}
			return p.constant(t)
		}
		local := func(i c3ident) value.Value {
			v, ok := locals[key(i)]
			if !ok {
				panic("harness: undefined local in descriptor")
			}
			return v
		}
		block := func(i c3ident) *ir.Block {
			b, ok := blocks[key(i)]
			if !ok {
				panic("harness: undefined block in descriptor")
			}
			return b
		}
		for _, p := range pends {
			as := p.in.args
			switch x := p.inst.(type) {
			case *ir.InstICmp:
				x.X, x.Y = operand(as[0].ty, as[0].op), operand(as[0].ty, as[1].op)
			case *ir.InstCall:
				k := 0
				if p.in.row%2 == 1 {
					k = 1
				}
				x.Callee = operand(nil, as[k].op)
				for _, ix := range as[k+1].ixs {
					x.Args = append(x.Args, operand(ix.ty, ix.op))
				}
			case *ir.InstLoad:
				x.ElemType = as[0].ty
				x.Src = operand(as[1].ty, as[1].op)
				if as[2].kw >= 0 {
					x.Ordering = c3Orderings[as[2].kw]
				}
				if as[3].align >= 0 {
					x.Align = ir.Align(as[3].align)
				}
			case *ir.InstStore:
				x.Src, x.Dst = operand(as[0].ty, as[0].op), operand(as[1].ty, as[1].op)
				if as[2].kw >= 0 {
					x.Ordering = c3Orderings[as[2].kw]
				}
				if as[3].align >= 0 {
					x.Align = ir.Align(as[3].align)
				}
			case *ir.TermIndirectBr:
				x.Addr = operand(as[0].ty, as[0].op)
				for _, l := range as[1].labs {
					x.ValidTargets = append(x.ValidTargets, block(l))
				}
			case *ir.TermCatchSwitch:
				x.ParentPad = constant.None
				if as[0].has {
					x.ParentPad = local(as[0].lab)
				}
				for _, l := range as[1].labs {
					x.Handlers = append(x.Handlers, block(l))
				}
				if as[2].has {
					x.DefaultUnwindTarget = block(as[2].lab)
				}
			case *ir.TermCatchRet:
				x.CatchPad, x.Target = local(as[0].lab), block(as[1].lab)
			case *ir.TermCleanupRet:
				x.CleanupPad = local(as[0].lab)
				if as[1].has {
					x.UnwindTarget = block(as[1].lab)
				}
			case *ir.InstCatchPad:
				x.CatchSwitch = local(as[0].lab)
				for _, ix := range as[1].ixs {
					x.Args = append(x.Args, operand(ix.ty, ix.op))
				}
			case *ir.InstCleanupPad:
				x.ParentPad = constant.None
				if as[0].has {
					x.ParentPad = local(as[0].lab)
				}
				for _, ix := range as[1].ixs {
					x.Args = append(x.Args, operand(ix.ty, ix.op))
				}
			case *ir.InstFence:
			case *ir.InstCmpXchg:
				x.Ptr, x.Cmp, x.New = operand(as[0].ty, as[0].op), operand(as[1].ty, as[1].op), operand(as[2].ty, as[2].op)
				if as[5].align >= 0 {
					x.Align = ir.Align(as[5].align)
				}
			case *ir.InstAtomicRMW:
				x.Dst, x.X = operand(as[1].ty, as[1].op), operand(as[2].ty, as[2].op)
				if as[4].align >= 0 {
					x.Align = ir.Align(as[4].align)
				}
			case *ir.InstGetElementPtr:
				x.Src = operand(as[1].ty, as[1].op)
				for _, ix := range as[2].ixs {
					x.Indices = append(x.Indices, operand(ix.ty, ix.op))
				}
			case *ir.InstExtractValue:
				x.X = operand(as[0].ty, as[0].op)
			case *ir.InstInsertValue:
				x.X, x.Elem = operand(as[0].ty, as[0].op), operand(as[1].ty, as[1].op)
			case *ir.InstSelect:
				x.Cond, x.ValueTrue, x.ValueFalse = operand(as[0].ty, as[0].op), operand(as[1].ty, as[1].op), operand(as[2].ty, as[2].op)
			case *ir.TermRet:
				if !as[0].void {
					x.X = operand(as[0].ty, as[0].op)
				}
			case *ir.TermBr:
				x.Target = block(as[0].lab)
			case *ir.TermCondBr:
				x.Cond, x.TargetTrue, x.TargetFalse = operand(types.I1, as[0].op), block(as[1].lab), block(as[2].lab)
			case *ir.TermUnreachable:
			case *ir.TermSwitch:
				x.X, x.TargetDefault = operand(as[0].ty, as[0].op), block(as[1].lab)
				for _, c := range p.in.cases {
					x.Cases = append(x.Cases, ir.NewCase(operand(c.ty, c.op).(constant.Constant), block(c.lab)))
				}
			case *ir.TermInvoke:
				k := 0
				if p.in.row == 84 {
					k = 1
				}
				x.Invokee = operand(nil, as[k].op)
				for _, ix := range as[k+1].ixs {
					x.Args = append(x.Args, operand(ix.ty, ix.op))
				}
				x.NormalRetTarget, x.ExceptionRetTarget = block(p.in.dests[0]), block(p.in.dests[1])
			case *ir.InstLandingPad:
				for _, c := range p.in.clauses {
					ct := enum.ClauseTypeCatch
					if c.filter {
						ct = enum.ClauseTypeFilter
					}
					x.Clauses = append(x.Clauses, ir.NewClause(ct, operand(c.ty, c.op)))
				}
			case *ir.TermResume:
				x.X = operand(as[0].ty, as[0].op)
			case *ir.InstVAArg:
				x.ArgList = operand(as[0].ty, as[0].op)
			case *ir.InstPhi:
				for _, inc := range as[1].incs {
					x.Incs = append(x.Incs, &ir.Incoming{X: operand(as[0].ty, inc.op), Pred: block(inc.lab)})
				}
			case *ir.InstFreeze:
				x.X = operand(as[0].ty, as[0].op)
			case *ir.InstFNeg:
				x.X = operand(as[0].ty, as[0].op)
			case *ir.InstFAdd:
				x.X, x.Y = operand(as[0].ty, as[0].op), operand(as[0].ty, as[1].op)
			case *ir.InstFSub:
				x.X, x.Y = operand(as[0].ty, as[0].op), operand(as[0].ty, as[1].op)
			case *ir.InstFMul:
				x.X, x.Y = operand(as[0].ty, as[0].op), operand(as[0].ty, as[1].op)
			case *ir.InstFDiv:
				x.X, x.Y = operand(as[0].ty, as[0].op), operand(as[0].ty, as[1].op)
			case *ir.InstFRem:
				x.X, x.Y = operand(as[0].ty, as[0].op), operand(as[0].ty, as[1].op)
			case *ir.InstFCmp:
				x.X, x.Y = operand(as[0].ty, as[0].op), operand(as[0].ty, as[1].op)
			case *ir.InstExtractElement:
				x.X, x.Index = operand(as[0].ty, as[0].op), operand(as[1].ty, as[1].op)
			case *ir.InstInsertElement:
				x.X, x.Elem, x.Index = operand(as[0].ty, as[0].op), operand(as[1].ty, as[1].op), operand(as[2].ty, as[2].op)
			case *ir.InstShuffleVector:
				x.X, x.Y, x.Mask = operand(as[0].ty, as[0].op), operand(as[1].ty, as[1].op), operand(as[2].ty, as[2].op)
			case *ir.InstAlloca:
				if as[1].align >= 0 {
					x.Align = ir.Align(as[1].align)
				}
			case *ir.InstTrunc:
				x.From = operand(as[0].ty, as[0].op)
			case *ir.InstZExt:
				x.From = operand(as[0].ty, as[0].op)
			case *ir.InstSExt:
				x.From = operand(as[0].ty, as[0].op)
			case *ir.InstFPTrunc:
				x.From = operand(as[0].ty, as[0].op)
			case *ir.InstFPExt:
				x.From = operand(as[0].ty, as[0].op)
			case *ir.InstFPToUI:
				x.From = operand(as[0].ty, as[0].op)
			case *ir.InstFPToSI:
				x.From = operand(as[0].ty, as[0].op)
			case *ir.InstUIToFP:
				x.From = operand(as[0].ty, as[0].op)
			case *ir.InstSIToFP:
				x.From = operand(as[0].ty, as[0].op)
			case *ir.InstPtrToInt:
				x.From = operand(as[0].ty, as[0].op)
			case *ir.InstIntToPtr:
				x.From = operand(as[0].ty, as[0].op)
			case *ir.InstBitCast:
				x.From = operand(as[0].ty, as[0].op)
			case *ir.InstAddrSpaceCast:
				x.From = operand(as[0].ty, as[0].op)
			default:
				// binary instructions: X and Y through reflection-free setters
				xv, yv := operand(as[0].ty, as[0].op), operand(as[0].ty, as[1].op)
				switch b := p.inst.(type) {
				case *ir.InstAdd:
					b.X, b.Y = xv, yv
				case *ir.InstSub:
					b.X, b.Y = xv, yv
				case *ir.InstMul:
					b.X, b.Y = xv, yv
				case *ir.InstUDiv:
					b.X, b.Y = xv, yv
				case *ir.InstSDiv:
					b.X, b.Y = xv, yv
				case *ir.InstURem:
					b.X, b.Y = xv, yv
				case *ir.InstSRem:
					b.X, b.Y = xv, yv
				case *ir.InstShl:
					b.X, b.Y = xv, yv
				case *ir.InstLShr:
					b.X, b.Y = xv, yv
				case *ir.InstAShr:
					b.X, b.Y = xv, yv
				case *ir.InstAnd:
					b.X, b.Y = xv, yv
				case *ir.InstOr:
					b.X, b.Y = xv, yv
				case *ir.InstXor:
					b.X, b.Y = xv, yv
				default:
					panic(fmt.Sprintf("harness: unhandled instruction %T", p.inst))
				}
			}
		}
		for _, p := range pends {
			if g, ok := p.inst.(*ir.InstGetElementPtr); ok {
				g.Type()
			}
			c3ApplyFlags(p.inst, p.in.flags)
			if len(p.in.mds) > 0 {
				var atts []*metadata.Attachment
				for _, md := range p.in.mds {
					var node metadata.MDNode = &metadata.Tuple{MetadataID: metadata.MetadataID(md.id)}
					if d, ok := c3MdDefs[md.id]; ok {
						node = d.(metadata.MDNode)
					}
					atts = append(atts, &metadata.Attachment{Name: md.name, Node: node})
				}
				reflect.ValueOf(p.inst).Elem().FieldByName("Metadata").Set(reflect.ValueOf(atts))
			}
		}
	}
}

func init() {
	reg("core3.print", func(a []string) string { return hexOut([]byte(core3Build(a).LLString())) })
	reg("core3.reparse", func(a []string) string {
		m, err := asm.ParseString("x.ll", core3Build(a).LLString()+"\n")
		if err != nil {
			return "error"
		}
		return hexOut([]byte(m.Funcs[0].LLString()))
	})
	// the real parser on the text of one function definition
	reg("core3.parse", func(a []string) string {
		// (a panic of the parser - e.g. a getelementptr index beyond the fields of a struct - counts as a rejection here)
		m, _ := parseOutcome(string(unhexArg(a[0])) + "\n")
		if m == nil || len(m.Funcs) != 1 {
			return "error"
		}
		out := safe(func([]string) string { return hexOut([]byte(m.Funcs[0].LLString())) }, nil)
		if out == "panic" {
			return "error"
		}
		return "ok " + out
	})
	// constructed -> printed -> parsed -> printed: byte-identical, and the parsed function has the same shape
	reg("core3.rt", func(a []string) string {
		f := core3Build(a)
		text := f.LLString()
		m, err := asm.ParseString("x.ll", text+"\n")
		if err != nil {
			return "FAIL printed text rejected: " + firstLineOf(err.Error())
		}
		if len(m.Funcs) != 1 {
			return "FAIL function count"
		}
		g := m.Funcs[0]
		if t2 := g.LLString(); t2 != text {
			return "FAIL not-fixpoint " + firstDiff(text, t2)
		}
		if len(g.Blocks) != len(f.Blocks) || len(g.Params) != len(f.Params) {
			return "FAIL shape"
		}
		for i := range f.Blocks {
			if len(g.Blocks[i].Insts) != len(f.Blocks[i].Insts) || fmt.Sprintf("%T", g.Blocks[i].Term) != fmt.Sprintf("%T", f.Blocks[i].Term) {
				return "FAIL block shape"
			}
		}
		return "ok"
	})
}

var _ = constant.True
