//go:build verif

package main

import (
	"fmt"
	"math"
	"math/big"
	"strconv"
	"strings"

	"github.com/llir/llvm/asm"
	"github.com/llir/llvm/ir/constant"
	"github.com/llir/llvm/ir/types"
)

func floatKind(k string) *types.FloatType {
	switch k {
	case "half":
		return types.Half
	case "float":
		return types.Float
	case "double":
		return types.Double
	case "fp128":
		return types.FP128
	case "x86_fp80":
		return types.X86_FP80
	case "ppc_fp128":
		return types.PPC_FP128
	}
	panic("harness: bad float kind " + k)
}

func hexPrefix(k string) string {
	switch k {
	case "half":
		return "0xH"
	case "fp128":
		return "0xL"
	case "x86_fp80":
		return "0xK"
	case "ppc_fp128":
		return "0xM"
	}
	return "0x"
}

// decimalRat returns the exact rational value of a decimal literal (LLVM's reading: the literal must be exact).
func decimalRat(s string) (*big.Rat, bool) {
	r, ok := new(big.Rat).SetString(s)
	return r, ok
}

// valueRat returns the exact value of a finite big.Float.
func valueRat(x *big.Float) *big.Rat {
	r, _ := x.Rat(nil)
	return r
}

func parseViaAsm(k, lit string) (*constant.Float, bool) {
	m, err := asm.ParseString("x.ll", "@g = global "+k+" "+lit+"\n")
	if err != nil || len(m.Globals) != 1 {
		return nil, false
	}
	c, ok := m.Globals[0].Init.(*constant.Float)
	return c, ok
}

func init() {
	// flt.print <kind> <hexdigits>: the literal the printer emits for the value parsed from the hex spelling
	reg("flt.print", func(a []string) string {
		c, err := constant.NewFloatFromString(floatKind(a[0]), hexPrefix(a[0])+a[1])
		if err != nil {
			return "error"
		}
		return c.Ident()
	})
	// flt.canon <kind> <hexdigits>: the hexadecimal spelling of the printed literal (decimal output is re-parsed and forced to hex
	// by a second route: the value is exact, so parsing the decimal text gives the same value)
	reg("flt.canon", func(a []string) string {
		typ := floatKind(a[0])
		c, err := constant.NewFloatFromString(typ, hexPrefix(a[0])+a[1])
		if err != nil {
			return "error"
		}
		s := c.Ident()
		if strings.HasPrefix(s, "0x") {
			return strings.TrimPrefix(s, hexPrefix(a[0]))
		}
		// decimal: compute the bits of the value independently
		c2, err := constant.NewFloatFromString(typ, s)
		if err != nil {
			return "error"
		}
		switch a[0] {
		case "double", "float":
			f, _ := c2.X.Float64()
			return fmt.Sprintf("%X", math.Float64bits(f))
		case "half":
			f, _ := c2.X.Float32()
			// half value from float32: exponent re-bias; exact for values that came from a half
			bits := math.Float32bits(f)
			sign := uint16(bits>>16) & 0x8000
			exp := int((bits>>23)&0xFF) - 127 + 15
			mant := bits & 0x7FFFFF
			var h uint16
			switch {
			case bits&0x7FFFFFFF == 0:
				h = sign
			case exp <= 0:
				// subnormal half
				m := (mant | 0x800000) >> uint(1-exp)
				h = sign | uint16(m>>13)
			default:
				h = sign | uint16(exp)<<10 | uint16(mant>>13)
			}
			return fmt.Sprintf("%04X", h)
		}
		return "decimal:" + s
	})
	// flt.rt <kind> <hexdigits>: property oracle on the implementation
	reg("flt.rt", func(a []string) string {
		typ := floatKind(a[0])
		lit := hexPrefix(a[0]) + a[1]
		c, err := constant.NewFloatFromString(typ, lit)
		if err != nil {
			return "FAIL parse-error"
		}
		s := c.Ident()
		// NaN-ness as LLVM reads the pattern (x86_fp80: also every encoding with a non-zero exponent field and a clear integer bit)
		if a[0] == "x86_fp80" && len(a[1]) == 20 {
			se, _ := strconv.ParseUint(a[1][:4], 16, 16)
			m, _ := strconv.ParseUint(a[1][4:], 16, 64)
			e := se & 0x7FFF
			isNaN := (e == 0x7FFF && m != 1<<63) || (e != 0 && e != 0x7FFF && m>>63 == 0)
			if isNaN != c.NaN {
				return fmt.Sprintf("FAIL nan-ness-changed %s (a NaN to LLVM: %v)", s, isNaN)
			}
		}
		c2, err := constant.NewFloatFromString(typ, s)
		if err != nil {
			return "FAIL reparse-error " + s
		}
		// same value, bit for bit (value carrier: big.Float + NaN flag)
		if c.NaN != c2.NaN || c.X.Signbit() != c2.X.Signbit() || (!c.NaN && c.X.Cmp(c2.X) != 0) {
			return "FAIL value-changed " + s
		}
		if s2 := c2.Ident(); s2 != s {
			return "FAIL unstable " + s + " " + s2
		}
		// through the parser
		if c3, ok := parseViaAsm(a[0], s); !ok || c3.NaN != c.NaN || (!c.NaN && c3.X.Cmp(c.X) != 0) || c3.X.Signbit() != c.X.Signbit() {
			return "FAIL asm " + s
		}
		if a[0] == "ppc_fp128" && len(a[1]) == 32 {
			// the CLASS of a ppc_fp128 value is the class of its HIGH double (LLVM): an infinite high double is that infinity whatever the low double
			// holds, a NaN high double is a NaN
			hb, _ := strconv.ParseUint(a[1][:16], 16, 64)
			hi := math.Float64frombits(hb)
			if math.IsInf(hi, 0) && (c.NaN || !c.X.IsInf() || c.X.Signbit() != math.Signbit(hi)) {
				return "FAIL class " + s + " (an infinite high double is an infinity)"
			}
			if math.IsNaN(hi) && !c.NaN {
				return "FAIL class " + s + " (a NaN high double is a NaN)"
			}
		}
		if a[0] == "ppc_fp128" && len(a[1]) == 32 && !c.NaN {
			// what is printed is at least the CANONICAL pair of the exact sum of the two doubles (high = the double nearest to the sum, with the sign of the
			// sum also when it is zero; low = the rest), computed here by an independent route
			hb, _ := strconv.ParseUint(a[1][:16], 16, 64)
			lb, _ := strconv.ParseUint(a[1][16:], 16, 64)
			hi, lo := math.Float64frombits(hb), math.Float64frombits(lb)
			if !math.IsInf(hi, 0) && !math.IsInf(lo, 0) {
				sum := new(big.Float).SetPrec(2400).SetFloat64(hi)
				sum.Add(sum, new(big.Float).SetPrec(2400).SetFloat64(lo))
				ch, _ := sum.Float64()
				if math.IsInf(ch, 0) {
					ch = math.Copysign(math.MaxFloat64, ch)
				}
				rest := new(big.Float).SetPrec(2400).Sub(sum, new(big.Float).SetPrec(2400).SetFloat64(ch))
				cl, _ := rest.Float64()
				if sum.Sign() == 0 {
					ch, cl = math.Copysign(0, hi), 0 // (a zero sum has the sign of the high double)
				}
				canon := fmt.Sprintf("0xM%016X%016X", math.Float64bits(ch), math.Float64bits(cl))
				if s != canon {
					return "FAIL canon " + s + " (the canonical pair of the sum is " + canon + ")"
				}
			}
		}
		if strings.HasPrefix(s, "0x") {
			// hexadecimal output must be the input's bit pattern (canonical spelling: same digits, upper case, no leading zeros for the 0x form)
			got := strings.TrimLeft(strings.TrimPrefix(s, hexPrefix(a[0])), "0")
			want := strings.TrimLeft(strings.ToUpper(a[1]), "0")
			if a[0] == "x86_fp80" && len(a[1]) == 20 {
				// a pseudo-denormal (exponent field 0, integer bit set) has the value of the encoding with exponent field 1: LLVM itself prints that one
				se, _ := strconv.ParseUint(a[1][:4], 16, 16)
				m, _ := strconv.ParseUint(a[1][4:], 16, 64)
				if se&0x7FFF == 0 && m>>63 == 1 {
					want = strings.TrimLeft(fmt.Sprintf("%04X%016X", se|1, m), "0")
				}
			}
			if got != want {
				return "FAIL bits " + s
			}
		} else {
			// decimal notation only when it denotes the value exactly
			r, ok := decimalRat(s)
			if !ok || c.X.IsInf() || r.Cmp(valueRat(c.X)) != 0 {
				return "FAIL inexact-decimal " + s
			}
		}
		return "ok"
	})
	// flt.spell16 half <0xH digits> <16 hex digits of the same value as a double>: the legacy 16-digit spelling of a half
	// must denote the same value and print the same literal as the 0xH spelling
	reg("flt.spell16", func(a []string) string {
		typ := floatKind(a[0])
		c1, err := constant.NewFloatFromString(typ, hexPrefix(a[0])+a[1])
		if err != nil {
			return "FAIL parse-error"
		}
		c2, err := constant.NewFloatFromString(typ, "0x"+a[2])
		if err != nil {
			return "FAIL parse-error-16"
		}
		if c1.NaN != c2.NaN || c1.X.Signbit() != c2.X.Signbit() || (!c1.NaN && c1.X.Cmp(c2.X) != 0) {
			return "FAIL value " + c1.Ident() + " vs " + c2.Ident()
		}
		if c1.Ident() != c2.Ident() {
			return "FAIL literal " + c1.Ident() + " vs " + c2.Ident()
		}
		if c3, ok := parseViaAsm(a[0], "0x"+a[2]); !ok || c3.Ident() != c1.Ident() {
			return "FAIL asm"
		}
		return "ok"
	})
	// flt.short <kind> <hex digits, fewer than the full count>: a prefixed hexadecimal literal with fewer digits than LLVM prints is read the way LLVM's
	// lexer splits it (HexToIntPair / FP80HexToIntPair: `0xK` = up to 4 digits of sign+exponent, then the mantissa; `0xL` / `0xM` = with 16 digits or more
	// the first 16 digits and the rest, otherwise the second word alone; `0xH` / `0x` = the number): it must denote the same value, and print the same
	// literal, as that full spelling
	reg("flt.short", func(a []string) string {
		typ := floatKind(a[0])
		d := a[1]
		pad := func(x string, n int) string { return strings.Repeat("0", n-len(x)) + x }
		var full string
		switch a[0] {
		case "half":
			full = pad(d, 4)
		case "float", "double":
			full = pad(d, 16)
		case "x86_fp80":
			n := 4
			if len(d) < n {
				n = len(d)
			}
			full = pad(d[:n], 4) + pad(d[n:], 16)
		case "fp128", "ppc_fp128":
			if len(d) < 16 {
				full = pad("", 16) + pad(d, 16)
			} else {
				full = d[:16] + pad(d[16:], 16)
			}
		default:
			return "ok"
		}
		if len(d) >= len(full) {
			return "ok"
		}
		c1 := safe(func([]string) string {
			c, err := constant.NewFloatFromString(typ, hexPrefix(a[0])+d)
			if err != nil {
				return "parse-error"
			}
			return c.Ident()
		}, nil)
		c2, err := constant.NewFloatFromString(typ, hexPrefix(a[0])+full)
		if err != nil {
			return "FAIL parse-error-full"
		}
		if c1 != c2.Ident() {
			return "FAIL " + c1 + " vs " + c2.Ident()
		}
		if c3, ok := parseViaAsm(a[0], hexPrefix(a[0])+d); !ok || c3.Ident() != c2.Ident() {
			return "FAIL asm"
		}
		return "ok"
	})
	// flt.dec <kind> <decimal text>: a decimal literal that LLVM accepts (exactly representable) must be read as exactly that value
	reg("flt.dec", func(a []string) string {
		typ := floatKind(a[0])
		c, err := constant.NewFloatFromString(typ, a[1])
		if err != nil {
			return "FAIL parse-error"
		}
		r, ok := decimalRat(a[1])
		if !ok {
			return "FAIL bad-literal"
		}
		if c.NaN || c.X.IsInf() || r.Cmp(valueRat(c.X)) != 0 {
			return "FAIL value " + c.Ident()
		}
		s := c.Ident()
		c2, err := constant.NewFloatFromString(typ, s)
		if err != nil || c2.X.Cmp(c.X) != 0 {
			return "FAIL reprint " + s
		}
		return "ok"
	})
	// flt.decround double <decimal text>: a decimal literal that is NOT exactly representable is read by LLVM as the nearest double (ties to even);
	// independent route: strconv.ParseFloat (correctly rounded)
	reg("flt.decround", func(a []string) string {
		typ := floatKind(a[0])
		c, err := constant.NewFloatFromString(typ, a[1])
		if err != nil {
			return "FAIL parse-error"
		}
		want, err := strconv.ParseFloat(a[1], 64)
		if err != nil {
			if ne, ok := err.(*strconv.NumError); ok && ne.Err == strconv.ErrRange {
				return "ok out-of-range"
			}
			return "FAIL bad-literal"
		}
		got, acc := c.X.Float64()
		if c.NaN || acc != big.Exact || math.Float64bits(got) != math.Float64bits(want) {
			return fmt.Sprintf("FAIL value %s (%016X), correctly rounded %016X", c.Ident(), math.Float64bits(got), math.Float64bits(want))
		}
		return "ok"
	})
}
