//go:build verif

package main

import (
	"sort"
	"strings"

	"github.com/llir/llvm/ir"
	"github.com/llir/llvm/ir/constant"
	"github.com/llir/llvm/ir/enum"
	"github.com/llir/llvm/ir/types"
	"github.com/llir/llvm/ir/value"
)

// C03 / C14 — a constructed module is printed, one of its global variables (or functions) is RENAMED, and the module is printed again: the
// second text must be the text of the same construction carried out with the new name from the start. Every kind of constant expression and
// aggregate constant refers to the renamed entity, so a constant that keeps the text of its first print (or of an `Ident()` / `String()` call)
// shows up as a stale name.
type renameCase struct {
	name string
	expr func(g *ir.Global, f *ir.Func) constant.Constant
}

func renameCases() []renameCase {
	i8p := types.NewPointer(types.I8)
	as1 := &types.PointerType{ElemType: types.I32, AddrSpace: 1}
	p2i := func(g *ir.Global) constant.Constant { return constant.NewPtrToInt(g, types.I64) }
	one := constant.NewInt(types.I64, 1)
	vec := func(g *ir.Global) constant.Constant { return constant.NewVector(types.NewVector(2, g.Type()), g, g) }
	cs := []renameCase{
		{"bitcast", func(g *ir.Global, f *ir.Func) constant.Constant { return constant.NewBitCast(g, i8p) }},
		{"bitcast-func", func(g *ir.Global, f *ir.Func) constant.Constant { return constant.NewBitCast(f, i8p) }},
		{"addrspacecast", func(g *ir.Global, f *ir.Func) constant.Constant { return constant.NewAddrSpaceCast(g, as1) }},
		{"ptrtoint", func(g *ir.Global, f *ir.Func) constant.Constant { return p2i(g) }},
		{"inttoptr", func(g *ir.Global, f *ir.Func) constant.Constant { return constant.NewIntToPtr(p2i(g), i8p) }},
		{"gep", func(g *ir.Global, f *ir.Func) constant.Constant { return constant.NewGetElementPtr(types.I32, g, constant.NewInt(types.I64, 1)) }},
		{"icmp", func(g *ir.Global, f *ir.Func) constant.Constant {
			return constant.NewICmp(enum.IPredEQ, g, constant.NewNull(g.Type().(*types.PointerType)))
		}},
		{"select", func(g *ir.Global, f *ir.Func) constant.Constant {
			return constant.NewSelect(constant.True, g, constant.NewNull(g.Type().(*types.PointerType)))
		}},
		{"trunc", func(g *ir.Global, f *ir.Func) constant.Constant { return constant.NewTrunc(p2i(g), types.I8) }},
		{"zext", func(g *ir.Global, f *ir.Func) constant.Constant { return constant.NewZExt(constant.NewTrunc(p2i(g), types.I8), types.I32) }},
		{"sext", func(g *ir.Global, f *ir.Func) constant.Constant { return constant.NewSExt(constant.NewTrunc(p2i(g), types.I8), types.I32) }},
		{"uitofp", func(g *ir.Global, f *ir.Func) constant.Constant { return constant.NewUIToFP(p2i(g), types.Double) }},
		{"sitofp", func(g *ir.Global, f *ir.Func) constant.Constant { return constant.NewSIToFP(p2i(g), types.Double) }},
		{"fptoui", func(g *ir.Global, f *ir.Func) constant.Constant { return constant.NewFPToUI(constant.NewUIToFP(p2i(g), types.Double), types.I32) }},
		{"fptosi", func(g *ir.Global, f *ir.Func) constant.Constant { return constant.NewFPToSI(constant.NewUIToFP(p2i(g), types.Double), types.I32) }},
		{"fptrunc", func(g *ir.Global, f *ir.Func) constant.Constant { return constant.NewFPTrunc(constant.NewUIToFP(p2i(g), types.Double), types.Float) }},
		{"fpext", func(g *ir.Global, f *ir.Func) constant.Constant { return constant.NewFPExt(constant.NewUIToFP(p2i(g), types.Float), types.Double) }},
		{"fneg", func(g *ir.Global, f *ir.Func) constant.Constant { return constant.NewFNeg(constant.NewUIToFP(p2i(g), types.Double)) }},
		{"fcmp", func(g *ir.Global, f *ir.Func) constant.Constant {
			x := constant.NewUIToFP(p2i(g), types.Double)
			return constant.NewFCmp(enum.FPredOEQ, x, x)
		}},
		{"extractelement", func(g *ir.Global, f *ir.Func) constant.Constant { return constant.NewExtractElement(vec(g), constant.NewInt(types.I32, 0)) }},
		{"insertelement", func(g *ir.Global, f *ir.Func) constant.Constant { return constant.NewInsertElement(vec(g), g, constant.NewInt(types.I32, 1)) }},
		{"shufflevector", func(g *ir.Global, f *ir.Func) constant.Constant {
			return constant.NewShuffleVector(vec(g), vec(g), constant.NewZeroInitializer(types.NewVector(2, types.I32)))
		}},
		{"struct", func(g *ir.Global, f *ir.Func) constant.Constant { return constant.NewStruct(types.NewStruct(g.Type(), f.Type()), g, f) }},
		{"array", func(g *ir.Global, f *ir.Func) constant.Constant { return constant.NewArray(types.NewArray(2, g.Type()), g, g) }},
		{"vector", func(g *ir.Global, f *ir.Func) constant.Constant { return vec(g) }},
		{"blockaddress", func(g *ir.Global, f *ir.Func) constant.Constant { return constant.NewBlockAddress(f, f.Blocks[0]) }},
		{"dso_local_equivalent", func(g *ir.Global, f *ir.Func) constant.Constant { return constant.NewDSOLocalEquivalent(f) }},
		{"no_cfi", func(g *ir.Global, f *ir.Func) constant.Constant { return constant.NewNoCFI(f) }},
		{"gep-inrange", func(g *ir.Global, f *ir.Func) constant.Constant {
			idx := constant.NewIndex(constant.NewInt(types.I64, 1))
			idx.InRange = true
			return constant.NewGetElementPtr(types.I32, g, idx)
		}},
		{"nested", func(g *ir.Global, f *ir.Func) constant.Constant {
			return constant.NewStruct(types.NewStruct(i8p, types.I64), constant.NewBitCast(constant.NewGetElementPtr(types.I32, g, one), i8p), constant.NewAdd(p2i(g), one))
		}},
	}
	for _, b := range []struct {
		n string
		f func(x, y constant.Constant) constant.Constant
	}{
		{"add", func(x, y constant.Constant) constant.Constant { return constant.NewAdd(x, y) }},
		{"sub", func(x, y constant.Constant) constant.Constant { return constant.NewSub(x, y) }},
		{"mul", func(x, y constant.Constant) constant.Constant { return constant.NewMul(x, y) }},
		{"shl", func(x, y constant.Constant) constant.Constant { return constant.NewShl(x, y) }},
		{"lshr", func(x, y constant.Constant) constant.Constant { return constant.NewLShr(x, y) }},
		{"ashr", func(x, y constant.Constant) constant.Constant { return constant.NewAShr(x, y) }},
		{"and", func(x, y constant.Constant) constant.Constant { return constant.NewAnd(x, y) }},
		{"or", func(x, y constant.Constant) constant.Constant { return constant.NewOr(x, y) }},
		{"xor", func(x, y constant.Constant) constant.Constant { return constant.NewXor(x, y) }},
	} {
		bf := b.f
		cs = append(cs, renameCase{b.n, func(g *ir.Global, f *ir.Func) constant.Constant { return bf(p2i(g), one) }})
	}
	return cs
}

func renameBuild(c renameCase, gname, fname string) (*ir.Module, *ir.Global, *ir.Func, constant.Constant) {
	m := ir.NewModule()
	g := m.NewGlobalDef(gname, constant.NewInt(types.I32, 7))
	f := m.NewFunc(fname, types.Void)
	f.NewBlock("entry").NewRet(nil)
	e := c.expr(g, f)
	m.NewGlobalDef("user", e)
	// the expression also as an instruction operand
	u := m.NewFunc("reader", e.Type())
	u.NewBlock("entry").NewRet(e)
	return m, g, f, e
}

func init() {
	reg("rename.list", func(a []string) string {
		var ns []string
		for _, c := range renameCases() {
			ns = append(ns, c.name)
		}
		sort.Strings(ns)
		return strings.Join(ns, ",")
	})
	// observers: 0 = the module is printed; 1 = only Ident() / String() / Type() of the expression are called; 2 = nothing is observed before the renaming
	reg("rename.ok", func(a []string) string {
		for _, c := range renameCases() {
			if c.name != a[0] {
				continue
			}
			m, g, f, e := renameBuild(c, "buf", "fn")
			switch a[1] {
			case "0":
				_ = m.String()
			case "1":
				_ = e.Ident()
				_ = e.String()
				_ = e.Type()
				if o, ok := e.(interface{ Operands() []*value.Value }); ok {
					_ = o.Operands()
				}
			}
			g.SetName("storage")
			f.SetName("callee")
			got := m.String()
			m2, _, _, _ := renameBuild(c, "storage", "callee")
			want := m2.String()
			if got != want {
				return "FAIL " + c.name + ": after renaming, the module prints " + firstDiff(want, got)
			}
			return "ok"
		}
		return "FAIL unknown case"
	})
	// the same observers, then an edit of another kind — the ADDRESS SPACE of the global variable and of the function (the exported field, the only way the
	// API offers) —, then a print: the text must be the one the same edits give when nothing was observed before them
	reg("edit.as", func(a []string) string {
		for _, c := range renameCases() {
			if c.name != a[0] {
				continue
			}
			run := func(obs string) string {
				// (the expression is used as an instruction operand only, in a function whose return type is taken from a TWIN of the expression: nothing
				// queries the expression itself before the observers do)
				_, _, _, twin := renameBuild(c, "buf", "fn")
				m := ir.NewModule()
				g := m.NewGlobalDef("buf", constant.NewInt(types.I32, 7))
				f := m.NewFunc("fn", types.Void)
				f.NewBlock("entry").NewRet(nil)
				e := c.expr(g, f)
				u := m.NewFunc("reader", twin.Type())
				u.NewBlock("entry").NewRet(e)
				switch obs {
				case "0":
					_ = m.String()
				case "1":
					_ = e.Ident()
					_ = e.String()
					_ = e.Type()
					if o, ok := e.(interface{ Operands() []*value.Value }); ok {
						_ = o.Operands()
					}
				}
				g.AddrSpace = 3
				f.AddrSpace = 1
				return m.String()
			}
			got, want := run(a[1]), run("2")
			if got != want {
				return "FAIL " + c.name + ": after the edit, the observed module prints " + firstDiff(want, got)
			}
			return "ok"
		}
		return "FAIL unknown case"
	})
}
