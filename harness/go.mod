module verifharness

go 1.13

require (
	github.com/llir/ll v0.0.0-20220802205332-9207a04d0275
	github.com/llir/llvm v0.0.0
)

replace github.com/llir/llvm => /repo
