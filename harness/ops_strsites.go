//go:build verif

package main

import (
	"fmt"
	"reflect"
	"sort"
	"strings"

	"github.com/llir/llvm/asm"
	"github.com/llir/llvm/ir"
	"github.com/llir/llvm/ir/constant"
	"github.com/llir/llvm/ir/enum"
	"github.com/llir/llvm/ir/metadata"
	"github.com/llir/llvm/ir/types"
)

// C11 / C01: one string, EVERY site of the IR that carries a string literal (each has its own decode line in package asm). For each site: build
// a module holding the string there, print, parse, read the string back from the same site, and demand that the text is a print fixpoint.

type strSite struct {
	name  string
	build func(m *ir.Module, s string)
	get   func(m *ir.Module) (string, bool)
	// emptyAbsent: the empty string means "not present" at this site
	emptyAbsent bool
}

func firstFunc(m *ir.Module) *ir.Func {
	for _, f := range m.Funcs {
		if f.Name() == "f" {
			return f
		}
	}
	return nil
}

func firstInst(m *ir.Module) ir.Instruction {
	f := firstFunc(m)
	if f == nil || len(f.Blocks) == 0 || len(f.Blocks[0].Insts) == 0 {
		return nil
	}
	return f.Blocks[0].Insts[0]
}

func defFunc(m *ir.Module) (*ir.Func, *ir.Block) {
	f := m.NewFunc("f", types.Void)
	b := f.NewBlock("entry")
	return f, b
}

func diNodes() []func() metadata.Definition {
	return []func() metadata.Definition{
		func() metadata.Definition { return &metadata.DIBasicType{MetadataID: -1} },
		func() metadata.Definition { return &metadata.DICommonBlock{MetadataID: -1} },
		func() metadata.Definition {
			return &metadata.DICompileUnit{MetadataID: -1, Language: enum.DwarfLangC99}
		},
		func() metadata.Definition {
			return &metadata.DICompositeType{MetadataID: -1, Tag: enum.DwarfTagStructureType}
		},
		func() metadata.Definition { return &metadata.DIDerivedType{MetadataID: -1, Tag: enum.DwarfTagMember} },
		func() metadata.Definition { return &metadata.DIEnumerator{MetadataID: -1} },
		func() metadata.Definition { return &metadata.DIFile{MetadataID: -1} },
		func() metadata.Definition { return &metadata.DIGlobalVariable{MetadataID: -1} },
		func() metadata.Definition {
			return &metadata.DIImportedEntity{MetadataID: -1, Tag: enum.DwarfTagImportedModule}
		},
		func() metadata.Definition { return &metadata.DILabel{MetadataID: -1} },
		func() metadata.Definition { return &metadata.DILocalVariable{MetadataID: -1} },
		func() metadata.Definition { return &metadata.DIMacro{MetadataID: -1, Type: enum.DwarfMacinfoDefine} },
		func() metadata.Definition { return &metadata.DIModule{MetadataID: -1} },
		func() metadata.Definition { return &metadata.DINamespace{MetadataID: -1} },
		func() metadata.Definition { return &metadata.DIObjCProperty{MetadataID: -1} },
		func() metadata.Definition { return &metadata.DIStringType{MetadataID: -1} },
		func() metadata.Definition { return &metadata.DISubprogram{MetadataID: -1} },
		func() metadata.Definition { return &metadata.DITemplateTypeParameter{MetadataID: -1} },
		func() metadata.Definition { return &metadata.DITemplateValueParameter{MetadataID: -1} },
		func() metadata.Definition { return &metadata.GenericDINode{MetadataID: -1, Tag: enum.DwarfTagMember} },
	}
}

// diStringFields: (node constructor index, field name) for every field of Go type `string` of the specialised nodes
func diStringFields() []strSite {
	var out []strSite
	for _, mk := range diNodes() {
		mk := mk
		rt := reflect.TypeOf(mk()).Elem()
		for i := 0; i < rt.NumField(); i++ {
			fld := rt.Field(i)
			if fld.Type.Kind() != reflect.String || fld.Type.PkgPath() != "" {
				continue
			}
			fname := fld.Name
			out = append(out, strSite{
				name: rt.Name() + "." + fname,
				build: func(m *ir.Module, s string) {
					n := mk()
					ev := reflect.ValueOf(n).Elem()
					ev.FieldByName(fname).SetString(s)
					// required metadata fields (those the printer prints unconditionally): `null`
					for j := 0; j < ev.NumField(); j++ {
						fv := ev.Field(j)
						if fv.Kind() == reflect.Interface && fv.IsNil() && reflect.TypeOf(metadata.Null).AssignableTo(fv.Type()) {
							before := strings.Count(n.LLString(), "%!s(<nil>)")
							fv.Set(reflect.ValueOf(metadata.Null))
							if strings.Count(n.LLString(), "%!s(<nil>)") >= before {
								fv.Set(reflect.Zero(fv.Type()))
							}
						}
					}
					if f, ok := n.(*metadata.DIFile); ok && fname == "Checksum" {
						f.Checksumkind = enum.ChecksumKindMD5
					}
					n.SetID(0)
					m.MetadataDefs = append(m.MetadataDefs, n)
				},
				get: func(m *ir.Module) (string, bool) {
					if len(m.MetadataDefs) != 1 {
						return "", false
					}
					v := reflect.ValueOf(m.MetadataDefs[0])
					if v.Kind() != reflect.Ptr || v.Elem().Type() != rt {
						return "", false
					}
					return v.Elem().FieldByName(fname).String(), true
				},
				emptyAbsent: true,
			})
		}
	}
	return out
}

func strSites() []strSite {
	sites := []strSite{
		{"source_filename", func(m *ir.Module, s string) { m.SourceFilename = s }, func(m *ir.Module) (string, bool) { return m.SourceFilename, true }, true},
		{"datalayout", func(m *ir.Module, s string) { m.DataLayout = s }, func(m *ir.Module) (string, bool) { return m.DataLayout, true }, true},
		{"triple", func(m *ir.Module, s string) { m.TargetTriple = s }, func(m *ir.Module) (string, bool) { return m.TargetTriple, true }, true},
		{"module-asm", func(m *ir.Module, s string) { m.ModuleAsms = append(m.ModuleAsms, s) }, func(m *ir.Module) (string, bool) {
			if len(m.ModuleAsms) != 1 {
				return "", false
			}
			return m.ModuleAsms[0], true
		}, false},
		{"global-section", func(m *ir.Module, s string) { m.NewGlobalDef("g", constant.NewInt(types.I32, 0)).Section = s }, func(m *ir.Module) (string, bool) {
			return m.Globals[0].Section, len(m.Globals) == 1
		}, true},
		{"global-partition", func(m *ir.Module, s string) { m.NewGlobalDef("g", constant.NewInt(types.I32, 0)).Partition = s }, func(m *ir.Module) (string, bool) {
			return m.Globals[0].Partition, len(m.Globals) == 1
		}, true},
		{"func-section", func(m *ir.Module, s string) { m.NewFunc("f", types.Void).Section = s }, func(m *ir.Module) (string, bool) { return firstFunc(m).Section, true }, true},
		{"func-partition", func(m *ir.Module, s string) { m.NewFunc("f", types.Void).Partition = s }, func(m *ir.Module) (string, bool) { return firstFunc(m).Partition, true }, true},
		{"func-gc", func(m *ir.Module, s string) { m.NewFunc("f", types.Void).GC = s }, func(m *ir.Module) (string, bool) { return firstFunc(m).GC, true }, true},
		{"mdstring-in-tuple", func(m *ir.Module, s string) {
			t := &metadata.Tuple{MetadataID: -1, Fields: []metadata.Field{&metadata.String{Value: s}}}
			t.SetID(0)
			m.MetadataDefs = append(m.MetadataDefs, t)
		}, func(m *ir.Module) (string, bool) {
			t, ok := m.MetadataDefs[0].(*metadata.Tuple)
			if !ok || len(t.Fields) != 1 {
				return "", false
			}
			x, ok := t.Fields[0].(*metadata.String)
			if !ok {
				return "", false
			}
			return x.Value, true
		}, false},
		{"mdstring-nested", func(m *ir.Module, s string) {
			in := &metadata.Tuple{MetadataID: -1, Fields: []metadata.Field{metadata.Null, &metadata.String{Value: s}}}
			t := &metadata.Tuple{MetadataID: -1, Fields: []metadata.Field{in}}
			t.SetID(0)
			m.MetadataDefs = append(m.MetadataDefs, t)
		}, func(m *ir.Module) (string, bool) {
			t, ok := m.MetadataDefs[0].(*metadata.Tuple)
			if !ok || len(t.Fields) != 1 {
				return "", false
			}
			in, ok := t.Fields[0].(*metadata.Tuple)
			if !ok || len(in.Fields) != 2 {
				return "", false
			}
			x, ok := in.Fields[1].(*metadata.String)
			if !ok {
				return "", false
			}
			return x.Value, true
		}, false},
		{"mdstring-call-arg", func(m *ir.Module, s string) {
			callee := m.NewFunc("llvm.x", types.Void, ir.NewParam("", types.Metadata))
			_, b := defFunc(m)
			b.NewCall(callee, &metadata.Value{Value: &metadata.String{Value: s}})
			b.NewRet(nil)
		}, func(m *ir.Module) (string, bool) {
			c, ok := firstInst(m).(*ir.InstCall)
			if !ok || len(c.Args) != 1 {
				return "", false
			}
			mv, ok := c.Args[0].(*metadata.Value)
			if !ok {
				return "", false
			}
			x, ok := mv.Value.(*metadata.String)
			if !ok {
				return "", false
			}
			return x.Value, true
		}, false},
		{"func-attr-string", func(m *ir.Module, s string) {
			f := m.NewFunc("f", types.Void)
			f.FuncAttrs = append(f.FuncAttrs, ir.AttrString(s))
		},
			func(m *ir.Module) (string, bool) {
				f := firstFunc(m)
				if len(f.FuncAttrs) != 1 {
					return "", false
				}
				a, ok := f.FuncAttrs[0].(ir.AttrString)
				return string(a), ok
			}, false},
		{"func-attr-pair-key", func(m *ir.Module, s string) {
			f := m.NewFunc("f", types.Void)
			f.FuncAttrs = append(f.FuncAttrs, ir.AttrPair{Key: s, Value: "v"})
		},
			func(m *ir.Module) (string, bool) {
				f := firstFunc(m)
				if len(f.FuncAttrs) != 1 {
					return "", false
				}
				a, ok := f.FuncAttrs[0].(ir.AttrPair)
				return a.Key, ok && a.Value == "v"
			}, false},
		{"func-attr-pair-value", func(m *ir.Module, s string) {
			f := m.NewFunc("f", types.Void)
			f.FuncAttrs = append(f.FuncAttrs, ir.AttrPair{Key: "k", Value: s})
		},
			func(m *ir.Module) (string, bool) {
				f := firstFunc(m)
				if len(f.FuncAttrs) != 1 {
					return "", false
				}
				a, ok := f.FuncAttrs[0].(ir.AttrPair)
				return a.Value, ok && a.Key == "k"
			}, false},
		{"attrgroup-pair-value", func(m *ir.Module, s string) {
			g := &ir.AttrGroupDef{ID: 0, FuncAttrs: []ir.FuncAttribute{ir.AttrPair{Key: "k", Value: s}}}
			m.AttrGroupDefs = append(m.AttrGroupDefs, g)
			f := m.NewFunc("f", types.Void)
			f.FuncAttrs = append(f.FuncAttrs, g)
		}, func(m *ir.Module) (string, bool) {
			if len(m.AttrGroupDefs) != 1 || len(m.AttrGroupDefs[0].FuncAttrs) != 1 {
				return "", false
			}
			a, ok := m.AttrGroupDefs[0].FuncAttrs[0].(ir.AttrPair)
			return a.Value, ok && a.Key == "k"
		}, false},
		{"attrgroup-string", func(m *ir.Module, s string) {
			g := &ir.AttrGroupDef{ID: 0, FuncAttrs: []ir.FuncAttribute{ir.AttrString(s)}}
			m.AttrGroupDefs = append(m.AttrGroupDefs, g)
			f := m.NewFunc("f", types.Void)
			f.FuncAttrs = append(f.FuncAttrs, g)
		}, func(m *ir.Module) (string, bool) {
			if len(m.AttrGroupDefs) != 1 || len(m.AttrGroupDefs[0].FuncAttrs) != 1 {
				return "", false
			}
			a, ok := m.AttrGroupDefs[0].FuncAttrs[0].(ir.AttrString)
			return string(a), ok
		}, false},
		{"param-attr-pair-value", func(m *ir.Module, s string) {
			p := ir.NewParam("p", types.I32)
			p.Attrs = append(p.Attrs, ir.AttrPair{Key: "k", Value: s})
			m.NewFunc("f", types.Void, p)
		}, func(m *ir.Module) (string, bool) {
			f := firstFunc(m)
			if len(f.Params) != 1 || len(f.Params[0].Attrs) != 1 {
				return "", false
			}
			a, ok := f.Params[0].Attrs[0].(ir.AttrPair)
			return a.Value, ok && a.Key == "k"
		}, false},
		{"param-attr-string", func(m *ir.Module, s string) {
			p := ir.NewParam("p", types.I32)
			p.Attrs = append(p.Attrs, ir.AttrString(s))
			m.NewFunc("f", types.Void, p)
		}, func(m *ir.Module) (string, bool) {
			f := firstFunc(m)
			if len(f.Params) != 1 || len(f.Params[0].Attrs) != 1 {
				return "", false
			}
			a, ok := f.Params[0].Attrs[0].(ir.AttrString)
			return string(a), ok
		}, false},
		// (string return attributes: `declare "k"="v" i32 @f()` is printed by ir but rejected by the external llir/ll grammar - not a site of this repository)
		{"inline-asm-text", func(m *ir.Module, s string) {
			_, b := defFunc(m)
			b.NewCall(ir.NewInlineAsm(types.NewPointer(types.NewFunc(types.Void)), s, "c"))
			b.NewRet(nil)
		}, func(m *ir.Module) (string, bool) {
			c, ok := firstInst(m).(*ir.InstCall)
			if !ok {
				return "", false
			}
			a, ok := c.Callee.(*ir.InlineAsm)
			if !ok {
				return "", false
			}
			return a.Asm, a.Constraint == "c"
		}, false},
		{"inline-asm-constraint", func(m *ir.Module, s string) {
			_, b := defFunc(m)
			b.NewCall(ir.NewInlineAsm(types.NewPointer(types.NewFunc(types.Void)), "a", s))
			b.NewRet(nil)
		}, func(m *ir.Module) (string, bool) {
			c, ok := firstInst(m).(*ir.InstCall)
			if !ok {
				return "", false
			}
			a, ok := c.Callee.(*ir.InlineAsm)
			if !ok {
				return "", false
			}
			return a.Constraint, a.Asm == "a"
		}, false},
		{"operand-bundle-tag", func(m *ir.Module, s string) {
			callee := m.NewFunc("g", types.Void)
			_, b := defFunc(m)
			c := b.NewCall(callee)
			c.OperandBundles = append(c.OperandBundles, ir.NewOperandBundle(s, constant.NewInt(types.I32, 1)))
			b.NewRet(nil)
		}, func(m *ir.Module) (string, bool) {
			c, ok := firstInst(m).(*ir.InstCall)
			if !ok || len(c.OperandBundles) != 1 {
				return "", false
			}
			return c.OperandBundles[0].Tag, true
		}, false},
		{"syncscope-fence", func(m *ir.Module, s string) {
			_, b := defFunc(m)
			fn := b.NewFence(enum.AtomicOrderingSequentiallyConsistent)
			fn.SyncScope = s
			b.NewRet(nil)
		}, func(m *ir.Module) (string, bool) {
			x, ok := firstInst(m).(*ir.InstFence)
			if !ok {
				return "", false
			}
			return x.SyncScope, true
		}, true},
		{"syncscope-load", func(m *ir.Module, s string) {
			g := m.NewGlobalDef("g", constant.NewInt(types.I32, 0))
			_, b := defFunc(m)
			l := b.NewLoad(types.I32, g)
			l.Atomic, l.Ordering, l.Align, l.SyncScope = true, enum.AtomicOrderingSequentiallyConsistent, 4, s
			b.NewRet(nil)
		}, func(m *ir.Module) (string, bool) {
			x, ok := firstInst(m).(*ir.InstLoad)
			if !ok {
				return "", false
			}
			return x.SyncScope, true
		}, true},
		{"syncscope-store", func(m *ir.Module, s string) {
			g := m.NewGlobalDef("g", constant.NewInt(types.I32, 0))
			_, b := defFunc(m)
			l := b.NewStore(constant.NewInt(types.I32, 1), g)
			l.Atomic, l.Ordering, l.Align, l.SyncScope = true, enum.AtomicOrderingSequentiallyConsistent, 4, s
			b.NewRet(nil)
		}, func(m *ir.Module) (string, bool) {
			x, ok := firstInst(m).(*ir.InstStore)
			if !ok {
				return "", false
			}
			return x.SyncScope, true
		}, true},
		{"syncscope-cmpxchg", func(m *ir.Module, s string) {
			g := m.NewGlobalDef("g", constant.NewInt(types.I32, 0))
			_, b := defFunc(m)
			l := b.NewCmpXchg(g, constant.NewInt(types.I32, 1), constant.NewInt(types.I32, 2), enum.AtomicOrderingSequentiallyConsistent, enum.AtomicOrderingSequentiallyConsistent)
			l.SyncScope = s
			b.NewRet(nil)
		}, func(m *ir.Module) (string, bool) {
			x, ok := firstInst(m).(*ir.InstCmpXchg)
			if !ok {
				return "", false
			}
			return x.SyncScope, true
		}, true},
		{"syncscope-atomicrmw", func(m *ir.Module, s string) {
			g := m.NewGlobalDef("g", constant.NewInt(types.I32, 0))
			_, b := defFunc(m)
			l := b.NewAtomicRMW(enum.AtomicOpAdd, g, constant.NewInt(types.I32, 1), enum.AtomicOrderingSequentiallyConsistent)
			l.SyncScope = s
			b.NewRet(nil)
		}, func(m *ir.Module) (string, bool) {
			x, ok := firstInst(m).(*ir.InstAtomicRMW)
			if !ok {
				return "", false
			}
			return x.SyncScope, true
		}, true},
	}
	return append(sites, diStringFields()...)
}

func init() {
	var sites []strSite
	siteNames := func() []string {
		if sites == nil {
			sites = strSites()
		}
		var ns []string
		for _, s := range sites {
			ns = append(ns, s.name)
		}
		sort.Strings(ns)
		return ns
	}
	reg("rt.strsites.list", func(a []string) string { return strings.Join(siteNames(), ",") })
	reg("rt.strsites", func(a []string) string {
		siteNames()
		s := string(unhexArg(a[0]))
		for _, site := range sites {
			if s == "" && site.emptyAbsent {
				continue
			}
			r := safe(func([]string) string {
				m := ir.NewModule()
				site.build(m, s)
				text := m.String()
				m2, err := asm.ParseString("x.ll", text)
				if err != nil {
					return "FAIL " + site.name + " printed text rejected: " + firstLine(err.Error()) + " :: " + text
				}
				got, ok := site.get(m2)
				if !ok {
					return "FAIL " + site.name + " site not found after the round trip"
				}
				if got != s {
					return fmt.Sprintf("FAIL %s read back as %q", site.name, got)
				}
				if m2.String() != text {
					return "FAIL " + site.name + " not a print fixpoint: " + text + " -> " + m2.String()
				}
				return "ok"
			}, nil)
			if r != "ok" {
				if r == "panic" {
					return "FAIL " + site.name + " panic"
				}
				return r
			}
		}
		return "ok"
	})
}

func firstLine(s string) string {
	if i := strings.IndexByte(s, '\n'); i >= 0 {
		return s[:i]
	}
	return s
}
