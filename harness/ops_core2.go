//go:build verif

package main

import (
	"fmt"
	"strconv"
	"strings"

	"github.com/llir/llvm/asm"
	asmenum "github.com/llir/llvm/asm/enum"
	"github.com/llir/llvm/ir"
	"github.com/llir/llvm/ir/constant"
	"github.com/llir/llvm/ir/enum"
	"github.com/llir/llvm/ir/types"
)

// M-Core-2 descriptors (see lean/LlirModel/Drv/Core2Ops.lean)

func (p *tyParser) constant(t types.Type) constant.Constant {
	c := p.peek()
	p.pos++
	switch c {
	case 'i':
		st := p.pos
		for p.pos < len(p.s) && (p.s[p.pos] == '-' || (p.s[p.pos] >= '0' && p.s[p.pos] <= '9')) {
			p.pos++
		}
		return &constant.Int{Typ: t.(*types.IntType), X: bigArg(p.s[st:p.pos])}
	case 'z':
		return constant.NewZeroInitializer(t)
	case 'n':
		return constant.NewNull(t.(*types.PointerType))
	case 'u':
		return constant.NewUndef(t)
	case 'S', 'Q':
		p.expect('(')
		return constant.NewStruct(t.(*types.StructType), p.elems()...)
	case 'A':
		p.expect('(')
		es := p.elems()
		if len(es) == 0 {
			return &constant.Array{Typ: t.(*types.ArrayType)}
		}
		return constant.NewArray(t.(*types.ArrayType), es...)
	case 'V':
		p.expect('(')
		return constant.NewVector(t.(*types.VectorType), p.elems()...)
	}
	panic(fmt.Sprintf("harness: bad constant descriptor %q at %d", p.s, p.pos))
}

func (p *tyParser) elems() []constant.Constant {
	var es []constant.Constant
	if p.peek() == ')' {
		p.pos++
		return es
	}
	for {
		t := p.ty()
		p.expect('=')
		es = append(es, p.constant(t))
		if p.peek() == ',' {
			p.pos++
			continue
		}
		p.expect(')')
		return es
	}
}

func core2Build(a []string) *ir.Module {
	m, _ := core2BuildNamed(a)
	return m
}

func core2BuildNamed(a []string) (*ir.Module, map[string]*types.StructType) {
	m := ir.NewModule()
	named := map[string]*types.StructType{}
	type td struct{ name, body string }
	var tds []td
	if a[0] != "-" {
		for _, e := range strings.Split(a[0], "/") {
			f := strings.SplitN(e, ":", 2)
			name := string(unhexArg(f[0]))
			tds = append(tds, td{name, f[1]})
			named[name] = &types.StructType{TypeName: name}
		}
	}
	for _, d := range tds {
		st := named[d.name]
		if d.body == "o" {
			st.Opaque = true
		} else {
			body := (&tyParser{s: d.body, named: named}).ty().(*types.StructType)
			st.Fields, st.Packed = body.Fields, body.Packed
		}
		st.TypeName = ""
		m.NewTypeDef(d.name, st)
	}
	if a[1] != "-" {
		for _, e := range strings.Split(a[1], "/") {
			f := strings.SplitN(e, ":", 3)
			p := &tyParser{s: f[2], named: named}
			t := p.ty()
			p.expect('=')
			c := p.constant(t)
			if p.pos != len(p.s) {
				panic("harness: trailing junk in global " + e)
			}
			g := m.NewGlobalDef(string(unhexArg(f[0])), c)
			// the kind field may carry the optional keywords of the global variable (M-Whole): `g~<i>,<i>…` / `c~<i>,<i>…`, positions in the model's list
			// `Whole.kGLead` (linkage 0-8, preemption 9-10, visibility 11-13, DLL storage class 14-15, thread-local model 16-19, unnamed_addr 20-21,
			// externally_initialized 22)
			kind, lead, _ := strings.Cut(f[1], "~")
			lead, gtail, _ := strings.Cut(lead, "~")
			g.Immutable = kind == "c"
			// the clauses behind the initializer: `s<hex>` section, `p<hex>` partition, `l<n>` align, joined by `;`
			for _, c := range strings.Split(gtail, ";") {
				if c == "" {
					continue
				}
				switch c[0] {
				case 's':
					g.Section = string(unhexArg(c[1:]))
				case 'p':
					g.Partition = string(unhexArg(c[1:]))
				case 'l':
					n, err := strconv.ParseUint(c[1:], 10, 64)
					if err != nil {
						panic("harness: bad global clause " + c)
					}
					g.Align = ir.Align(n)
				default:
					panic("harness: bad global clause " + c)
				}
			}
			if lead != "" {
				for _, ps := range strings.Split(lead, ",") {
					i, err := strconv.Atoi(ps)
					if err != nil || i < 0 || i >= len(c2GLead) {
						panic("harness: bad global keyword position " + ps)
					}
					kw := c2GLead[i]
					switch {
					case i < 9:
						g.Linkage = asmenum.LinkageFromString(kw)
					case i < 11:
						g.Preemption = asmenum.PreemptionFromString(kw)
					case i < 14:
						g.Visibility = asmenum.VisibilityFromString(kw)
					case i < 16:
						g.DLLStorageClass = asmenum.DLLStorageClassFromString(kw)
					case i < 20:
						g.TLSModel = []enum.TLSModel{enum.TLSModelGeneric, enum.TLSModelInitialExec, enum.TLSModelLocalDynamic, enum.TLSModelLocalExec}[i-16]
					case i < 22:
						g.UnnamedAddr = asmenum.UnnamedAddrFromString(kw)
					default:
						g.ExternallyInitialized = true
					}
				}
			}
		}
	}
	return m, named
}

// the optional keywords of a global variable in the order of the model's list `Whole.kGLead`
var c2GLead = []string{"appending", "available_externally", "common", "internal", "linkonce", "linkonce_odr", "private", "weak", "weak_odr",
	"dso_local", "dso_preemptable", "default", "hidden", "protected", "dllexport", "dllimport",
	"thread_local", "thread_local(initialexec)", "thread_local(localdynamic)", "thread_local(localexec)", "unnamed_addr", "local_unnamed_addr", "externally_initialized"}

func init() {
	reg("core2.print", func(a []string) string { return hexOut([]byte(core2Build(a).String())) })
	reg("core2.reparse", func(a []string) string {
		m, err := asm.ParseString("x.ll", core2Build(a).String())
		if err != nil {
			return "error"
		}
		return hexOut([]byte(m.String()))
	})
	// the constructed module prints; the text re-parses; the re-parsed module prints the same text again (one-step fixpoint) and a
	// constant-by-constant comparison of the re-parsed initialisers with the constructed ones (Ident and type, recursively through String())
	reg("core2.rt", func(a []string) string {
		m := core2Build(a)
		text := m.String()
		m2, err := asm.ParseString("x.ll", text)
		if err != nil {
			return "FAIL reparse-error " + hexOut([]byte(err.Error()))
		}
		if len(m2.TypeDefs) != len(m.TypeDefs) || len(m2.Globals) != len(m.Globals) {
			return "FAIL count"
		}
		for i, g := range m.Globals {
			g2 := m2.Globals[i]
			if g2.Name() != g.Name() || g2.Immutable != g.Immutable || !g2.ContentType.Equal(g.ContentType) || g2.ContentType.String() != g.ContentType.String() {
				return "FAIL global-header " + hexOut([]byte(g.Ident()))
			}
			if g2.Init.String() != g.Init.String() || fmt.Sprintf("%T", g2.Init) != fmt.Sprintf("%T", g.Init) {
				return "FAIL init " + hexOut([]byte(g.Ident()))
			}
		}
		have := map[string]string{}
		for _, t := range m2.TypeDefs {
			have[t.Name()] = t.LLString()
		}
		for _, t := range m.TypeDefs {
			if have[t.Name()] != t.LLString() {
				return "FAIL typedef " + hexOut([]byte(t.Name()))
			}
		}
		t2 := m2.String()
		m3, err := asm.ParseString("x.ll", t2)
		if err != nil || m3.String() != t2 {
			return "FAIL not-a-fixpoint"
		}
		return "ok"
	})
	// core2.readconst <hex of `T V`>: the real parser on `@g = global T V`; prints `T V` as re-printed, or "error"
	reg("core2.readconst", func(a []string) string {
		text := string(unhexArg(a[0]))
		var sb strings.Builder
		seen := map[string]bool{}
		for _, nm := range tyNameRe.FindAllString(text, -1) {
			if !seen[nm] {
				seen[nm] = true
				fmt.Fprintf(&sb, "%s = type { i8 }\n", nm)
			}
		}
		fmt.Fprintf(&sb, "@g = global %s\n", text)
		m, err := asm.ParseString("x.ll", sb.String())
		if err != nil || len(m.Globals) != 1 || m.Globals[0].Init == nil {
			return "error"
		}
		return hexOut([]byte(m.Globals[0].ContentType.String() + " " + m.Globals[0].Init.Ident()))
	})
}
