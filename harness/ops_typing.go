//go:build verif

package main

import (
	"fmt"
	"strconv"
	"strings"

	"github.com/llir/llvm/asm"
	"github.com/llir/llvm/ir"
	"github.com/llir/llvm/ir/constant"
	"github.com/llir/llvm/ir/enum"
	"github.com/llir/llvm/ir/types"
	"github.com/llir/llvm/ir/value"
	"github.com/llir/llvm/verifhook"
)

func typedefsText(nm map[string]*types.StructType) string {
	var sb strings.Builder
	for name := range nm {
		s := (&types.StructType{TypeName: name}).String()
		fmt.Fprintf(&sb, "%s = type { i32, %s* }\n", s, s)
	}
	for name, text := range typeAliases {
		fmt.Fprintf(&sb, "%s = type %s\n", (&types.StructType{TypeName: name}).String(), text)
	}
	return sb.String()
}

func parseIdxList(s string) []uint64 {
	var out []uint64
	if s == "" {
		return out
	}
	for _, p := range strings.Split(s, ".") {
		out = append(out, uintArg(p))
	}
	return out
}

var binopIR = map[string]func(x, y value.Value) value.Value{
	"add": func(x, y value.Value) value.Value { return ir.NewAdd(x, y) }, "fadd": func(x, y value.Value) value.Value { return ir.NewFAdd(x, y) },
	"sub": func(x, y value.Value) value.Value { return ir.NewSub(x, y) }, "fsub": func(x, y value.Value) value.Value { return ir.NewFSub(x, y) },
	"mul": func(x, y value.Value) value.Value { return ir.NewMul(x, y) }, "fmul": func(x, y value.Value) value.Value { return ir.NewFMul(x, y) },
	"udiv": func(x, y value.Value) value.Value { return ir.NewUDiv(x, y) }, "sdiv": func(x, y value.Value) value.Value { return ir.NewSDiv(x, y) },
	"fdiv": func(x, y value.Value) value.Value { return ir.NewFDiv(x, y) }, "urem": func(x, y value.Value) value.Value { return ir.NewURem(x, y) },
	"srem": func(x, y value.Value) value.Value { return ir.NewSRem(x, y) }, "frem": func(x, y value.Value) value.Value { return ir.NewFRem(x, y) },
	"shl": func(x, y value.Value) value.Value { return ir.NewShl(x, y) }, "lshr": func(x, y value.Value) value.Value { return ir.NewLShr(x, y) },
	"ashr": func(x, y value.Value) value.Value { return ir.NewAShr(x, y) }, "and": func(x, y value.Value) value.Value { return ir.NewAnd(x, y) },
	"or": func(x, y value.Value) value.Value { return ir.NewOr(x, y) }, "xor": func(x, y value.Value) value.Value { return ir.NewXor(x, y) },
}

var binopExpr = map[string]func(x, y constant.Constant) constant.Constant{
	"add": func(x, y constant.Constant) constant.Constant { return constant.NewAdd(x, y) }, "sub": func(x, y constant.Constant) constant.Constant { return constant.NewSub(x, y) },
	"mul": func(x, y constant.Constant) constant.Constant { return constant.NewMul(x, y) }, "shl": func(x, y constant.Constant) constant.Constant { return constant.NewShl(x, y) },
	"lshr": func(x, y constant.Constant) constant.Constant { return constant.NewLShr(x, y) }, "ashr": func(x, y constant.Constant) constant.Constant { return constant.NewAShr(x, y) },
	"and": func(x, y constant.Constant) constant.Constant { return constant.NewAnd(x, y) }, "or": func(x, y constant.Constant) constant.Constant { return constant.NewOr(x, y) },
	"xor": func(x, y constant.Constant) constant.Constant { return constant.NewXor(x, y) },
}

var castExpr = map[string]func(x constant.Constant, t types.Type) constant.Constant{
	"trunc": func(x constant.Constant, t types.Type) constant.Constant { return constant.NewTrunc(x, t) }, "zext": func(x constant.Constant, t types.Type) constant.Constant { return constant.NewZExt(x, t) },
	"sext": func(x constant.Constant, t types.Type) constant.Constant { return constant.NewSExt(x, t) }, "fptrunc": func(x constant.Constant, t types.Type) constant.Constant { return constant.NewFPTrunc(x, t) },
	"fpext": func(x constant.Constant, t types.Type) constant.Constant { return constant.NewFPExt(x, t) }, "fptoui": func(x constant.Constant, t types.Type) constant.Constant { return constant.NewFPToUI(x, t) },
	"fptosi": func(x constant.Constant, t types.Type) constant.Constant { return constant.NewFPToSI(x, t) }, "uitofp": func(x constant.Constant, t types.Type) constant.Constant { return constant.NewUIToFP(x, t) },
	"sitofp": func(x constant.Constant, t types.Type) constant.Constant { return constant.NewSIToFP(x, t) }, "ptrtoint": func(x constant.Constant, t types.Type) constant.Constant { return constant.NewPtrToInt(x, t) },
	"inttoptr": func(x constant.Constant, t types.Type) constant.Constant { return constant.NewIntToPtr(x, t) }, "bitcast": func(x constant.Constant, t types.Type) constant.Constant { return constant.NewBitCast(x, t) },
	"":              func(x constant.Constant, t types.Type) constant.Constant { return constant.NewBitCast(x, t) },
	"addrspacecast": func(x constant.Constant, t types.Type) constant.Constant { return constant.NewAddrSpaceCast(x, t) },
}

// buildExpr builds the CONSTANT EXPRESSION of the kind (operands: undef constants of the given types); nil when the kind has no constant-expression form.
func buildExpr(kind string, ts []types.Type) constant.Constant {
	cs := make([]constant.Constant, len(ts))
	for i, t := range ts {
		cs[i] = constant.NewUndef(t)
	}
	k, arg := kind, ""
	if i := strings.IndexByte(kind, ':'); i >= 0 {
		k, arg = kind[:i], kind[i+1:]
	}
	switch k {
	case "fneg":
		return constant.NewFNeg(cs[0])
	case "add", "fadd", "xor":
		op := k
		if arg != "" {
			op = arg
		}
		if f, ok := binopExpr[op]; ok {
			return f(cs[0], cs[1])
		}
	case "extractelement":
		return constant.NewExtractElement(cs[0], cs[1])
	case "insertelement":
		return constant.NewInsertElement(cs[0], cs[1], cs[2])
	case "shufflevector":
		return constant.NewShuffleVector(cs[0], cs[1], cs[2])
	case "cast":
		if f, ok := castExpr[arg]; ok {
			return f(cs[0], ts[1])
		}
	case "icmp":
		return constant.NewICmp(enum.IPredEQ, cs[0], cs[1])
	case "fcmp":
		return constant.NewFCmp(enum.FPredOEQ, cs[0], cs[1])
	case "select":
		return constant.NewSelect(cs[0], cs[1], cs[2])
	}
	return nil
}

// buildIR builds the instruction through the public constructors; operands are parameters of the given types.
func buildIR(kind string, ts []types.Type) value.Value {
	ps := make([]value.Value, len(ts))
	for i, t := range ts {
		ps[i] = ir.NewParam(fmt.Sprintf("p%d", i), t)
	}
	k, arg := kind, ""
	if i := strings.IndexByte(kind, ':'); i >= 0 {
		k, arg = kind[:i], kind[i+1:]
	}
	switch k {
	case "fneg":
		return ir.NewFNeg(ps[0])
	case "add", "fadd", "xor":
		op := k
		if arg != "" {
			op = arg
		}
		if f, ok := binopIR[op]; ok {
			return f(ps[0], ps[1])
		}
		panic("harness: unknown binary operation " + op)
	case "extractelement":
		return ir.NewExtractElement(ps[0], ps[1])
	case "insertelement":
		return ir.NewInsertElement(ps[0], ps[1], ps[2])
	case "shufflevector":
		return ir.NewShuffleVector(ps[0], ps[1], ps[2])
	case "extractvalue":
		return ir.NewExtractValue(ps[0], parseIdxList(arg)...)
	case "insertvalue":
		return ir.NewInsertValue(ps[0], ps[1], parseIdxList(arg)...)
	case "alloca":
		// address space can only be set after construction: do as a user would
		inst := ir.NewAlloca(ts[0])
		inst.AddrSpace = types.AddrSpace(uintArg(arg))
		return inst
	case "load":
		return ir.NewLoad(ts[0], ps[1])
	case "cmpxchg":
		return ir.NewCmpXchg(ps[0], ps[1], ps[2], enum.AtomicOrderingSequentiallyConsistent, enum.AtomicOrderingSequentiallyConsistent)
	case "atomicrmw":
		return ir.NewAtomicRMW(enum.AtomicOpAdd, ps[0], ps[1], enum.AtomicOrderingSequentiallyConsistent)
	case "cast":
		switch arg {
		case "trunc":
			return ir.NewTrunc(ps[0], ts[1])
		case "zext":
			return ir.NewZExt(ps[0], ts[1])
		case "sext":
			return ir.NewSExt(ps[0], ts[1])
		case "fptrunc":
			return ir.NewFPTrunc(ps[0], ts[1])
		case "fpext":
			return ir.NewFPExt(ps[0], ts[1])
		case "fptoui":
			return ir.NewFPToUI(ps[0], ts[1])
		case "fptosi":
			return ir.NewFPToSI(ps[0], ts[1])
		case "uitofp":
			return ir.NewUIToFP(ps[0], ts[1])
		case "sitofp":
			return ir.NewSIToFP(ps[0], ts[1])
		case "ptrtoint":
			return ir.NewPtrToInt(ps[0], ts[1])
		case "inttoptr":
			return ir.NewIntToPtr(ps[0], ts[1])
		case "addrspacecast":
			return ir.NewAddrSpaceCast(ps[0], ts[1])
		}
		return ir.NewBitCast(ps[0], ts[1])
	case "icmp":
		return ir.NewICmp(enum.IPredEQ, ps[0], ps[1])
	case "fcmp":
		return ir.NewFCmp(enum.FPredOEQ, ps[0], ps[1])
	case "phi":
		b := ir.NewBlock("b")
		return ir.NewPhi(ir.NewIncoming(ps[0], b))
	case "select":
		return ir.NewSelect(ps[0], ps[1], ps[2])
	case "freeze":
		return &ir.InstFreeze{X: ps[0]}
	case "call":
		return ir.NewCall(ps[0], ps[1:]...)
	case "invoke":
		return ir.NewInvoke(ps[0], ps[1:], ir.NewBlock("n"), ir.NewBlock("e"))
	case "callbr":
		return ir.NewCallBr(ps[0], ps[1:], ir.NewBlock("n"))
	case "vaarg":
		return ir.NewVAArg(ps[0], ts[1])
	case "landingpad":
		return ir.NewLandingPad(ts[0])
	case "catchpad":
		cs := ir.NewCatchSwitch(constant.None, nil, nil)
		return ir.NewCatchPad(cs)
	case "cleanuppad":
		return ir.NewCleanupPad(constant.None)
	case "catchswitch":
		return ir.NewCatchSwitch(constant.None, nil, nil)
	}
	panic("harness: unknown kind " + kind)
}

// asmText renders a function containing the instruction, operands being parameters %p0.. of the given types.
func asmText(kind string, ts []types.Type, nm map[string]*types.StructType) (string, bool) {
	k, arg := kind, ""
	if i := strings.IndexByte(kind, ':'); i >= 0 {
		k, arg = kind[:i], kind[i+1:]
	}
	tv := func(i int) string { return fmt.Sprintf("%s %%p%d", ts[i], i) }
	idx := func() string {
		var sb strings.Builder
		for _, x := range parseIdxList(arg) {
			fmt.Fprintf(&sb, ", %d", x)
		}
		return sb.String()
	}
	var inst, term string
	params := make([]string, 0, len(ts))
	skipParam := map[int]bool{}
	term = "ret void"
	switch k {
	case "fneg":
		inst = "%r = fneg " + tv(0)
	case "add", "fadd", "xor":
		op := k
		if arg != "" {
			op = arg
		}
		inst = fmt.Sprintf("%%r = %s %s, %%p1", op, tv(0))
	case "extractelement":
		inst = fmt.Sprintf("%%r = extractelement %s, %s", tv(0), tv(1))
	case "insertelement":
		inst = fmt.Sprintf("%%r = insertelement %s, %s, %s", tv(0), tv(1), tv(2))
	case "shufflevector":
		inst = fmt.Sprintf("%%r = shufflevector %s, %s, %s", tv(0), tv(1), tv(2))
	case "extractvalue":
		inst = fmt.Sprintf("%%r = extractvalue %s%s", tv(0), idx())
	case "insertvalue":
		inst = fmt.Sprintf("%%r = insertvalue %s, %s%s", tv(0), tv(1), idx())
	case "alloca":
		skipParam[0] = true
		inst = fmt.Sprintf("%%r = alloca %s", ts[0])
		if arg != "" && arg != "0" {
			inst += ", addrspace(" + arg + ")"
		}
	case "load":
		skipParam[0] = true
		inst = fmt.Sprintf("%%r = load %s, %s", ts[0], tv(1))
	case "cmpxchg":
		inst = fmt.Sprintf("%%r = cmpxchg %s, %s, %s seq_cst seq_cst", tv(0), tv(1), tv(2))
	case "atomicrmw":
		inst = fmt.Sprintf("%%r = atomicrmw add %s, %s seq_cst", tv(0), tv(1))
	case "cast":
		skipParam[1] = true
		op := arg
		if op == "" {
			op = "bitcast"
		}
		inst = fmt.Sprintf("%%r = %s %s to %s", op, tv(0), ts[1])
	case "icmp":
		inst = fmt.Sprintf("%%r = icmp eq %s, %%p1", tv(0))
	case "fcmp":
		inst = fmt.Sprintf("%%r = fcmp oeq %s, %%p1", tv(0))
	case "phi":
		inst = fmt.Sprintf("%%r = phi %s [ %%p0, %%0 ]", ts[0])
	case "select":
		inst = fmt.Sprintf("%%r = select %s, %s, %s", tv(0), tv(1), tv(2))
	case "freeze":
		inst = "%r = freeze " + tv(0)
	case "vaarg":
		skipParam[1] = true
		inst = fmt.Sprintf("%%r = va_arg %s, %s", tv(0), ts[1])
	case "call", "invoke":
		pt, ok := ts[0].(*types.PointerType)
		if !ok {
			return "", false
		}
		sig, ok := pt.ElemType.(*types.FuncType)
		if !ok {
			return "", false
		}
		var args []string
		for i := 1; i < len(ts); i++ {
			args = append(args, tv(i))
		}
		lhs := "%r = "
		if types.Equal(sig.RetType, types.Void) {
			lhs = ""
		}
		// spell the callee type in full (function type) — always valid
		if k == "call" {
			inst = fmt.Sprintf("%scall %s %%p0(%s)", lhs, sig, strings.Join(args, ", "))
		} else {
			inst = ""
			term = fmt.Sprintf("%sinvoke %s %%p0(%s) to label %%n unwind label %%e\nn:\n\tret void\ne:\n\t%%lp = landingpad { i8*, i32 } cleanup\n\tret void", lhs, sig, strings.Join(args, ", "))
		}
	default:
		return "", false
	}
	for i, t := range ts {
		if !skipParam[i] {
			params = append(params, fmt.Sprintf("%s %%p%d", t, i))
		}
	}
	var sb strings.Builder
	sb.WriteString(typedefsText(nm))
	pers := ""
	if k == "invoke" {
		pers = " personality i8* null"
	}
	fmt.Fprintf(&sb, "define void @f(%s)%s {\n", strings.Join(params, ", "), pers)
	if inst != "" {
		fmt.Fprintf(&sb, "\t%s\n", inst)
	}
	fmt.Fprintf(&sb, "\t%s\n}\n", term)
	return sb.String(), true
}

func typeViaAsm(kind string, ts []types.Type, nm map[string]*types.StructType) string {
	text, ok := asmText(kind, ts, nm)
	if !ok {
		return "skip"
	}
	m, err := asm.ParseString("x.ll", text)
	if err != nil {
		return "error"
	}
	f := m.Funcs[0]
	b := f.Blocks[0]
	var v value.Value
	if strings.HasPrefix(kind, "invoke") {
		v = b.Term.(value.Value)
	} else {
		v = b.Insts[0].(value.Value)
	}
	return hexOut([]byte(v.Type().String()))
}

func parseTys(nm map[string]*types.StructType, a []string) []types.Type {
	typeAliases = map[string]string{}
	ts := make([]types.Type, len(a))
	for i := range a {
		ts[i] = parseTyIn(nm, a[i])
	}
	return ts
}

// ---- gep index descriptors ----

type idxDesc struct {
	kind string // c z v u o e n r
	ty   types.Type
	vals []int64
	sub  *idxDesc
	expr string
}

func parseIdx(nm map[string]*types.StructType, s string) *idxDesc {
	p := strings.SplitN(s, ":", 3)
	switch p[0] {
	case "c": // c:<w>:<v>
		return &idxDesc{kind: "c", ty: types.NewInt(uintArg(p[1])), vals: []int64{atoi64(p[2])}}
	case "v": // v:<w>:<v1>,<v2>
		var vs []int64
		for _, x := range strings.Split(p[2], ",") {
			vs = append(vs, atoi64(x))
		}
		return &idxDesc{kind: "v", ty: types.NewVector(uint64(len(vs)), types.NewInt(uintArg(p[1]))), vals: vs}
	case "m": // m:<w>:<e1>,<e2>: a vector with elements that are not all integer literals (`u` undef, `o` poison, else an integer)
		es := strings.Split(p[2], ",")
		return &idxDesc{kind: "m", ty: types.NewVector(uint64(len(es)), types.NewInt(uintArg(p[1]))), expr: p[2]}
	case "z", "u", "o", "n":
		return &idxDesc{kind: p[0], ty: parseTyIn(nm, p[1])}
	case "e": // e:<p|a>:<ty>
		return &idxDesc{kind: "e", expr: p[1], ty: parseTyIn(nm, p[2])}
	case "r":
		return &idxDesc{kind: "r", sub: parseIdx(nm, s[2:])}
	}
	panic("harness: bad index descriptor " + s)
}

func (d *idxDesc) typ() types.Type {
	if d.kind == "r" {
		return d.sub.typ()
	}
	return d.ty
}

func (d *idxDesc) constant() constant.Constant {
	switch d.kind {
	case "c":
		it := d.ty.(*types.IntType)
		if it.BitSize == 1 {
			return constant.NewBool(d.vals[0] != 0)
		}
		return constant.NewInt(it, d.vals[0])
	case "v":
		vt := d.ty.(*types.VectorType)
		var es []constant.Constant
		for _, x := range d.vals {
			if it := vt.ElemType.(*types.IntType); it.BitSize == 1 {
				es = append(es, constant.NewBool(x != 0))
			} else {
				es = append(es, constant.NewInt(it, x))
			}
		}
		return constant.NewVector(vt, es...)
	case "m":
		vt := d.ty.(*types.VectorType)
		it := vt.ElemType.(*types.IntType)
		var es []constant.Constant
		for _, x := range strings.Split(d.expr, ",") {
			switch x {
			case "u":
				es = append(es, constant.NewUndef(it))
			case "o":
				es = append(es, constant.NewPoison(it))
			default:
				if it.BitSize == 1 {
					es = append(es, constant.NewBool(atoi64(x) != 0))
				} else {
					es = append(es, constant.NewInt(it, atoi64(x)))
				}
			}
		}
		return constant.NewVector(vt, es...)
	case "z":
		return constant.NewZeroInitializer(d.ty)
	case "u":
		return constant.NewUndef(d.ty)
	case "o":
		return constant.NewPoison(d.ty)
	case "e":
		if d.expr == "p" {
			if vt, ok := d.ty.(*types.VectorType); ok {
				src := types.NewVector(vt.Len, types.I8Ptr)
				src.Scalable = vt.Scalable
				return constant.NewPtrToInt(constant.NewZeroInitializer(src), d.ty)
			}
			return constant.NewPtrToInt(constant.NewNull(types.I8Ptr), d.ty)
		}
		it := d.ty.(*types.IntType)
		return constant.NewAdd(constant.NewInt(it, 1), constant.NewInt(it, 2))
	case "r":
		return constant.NewIndex(d.sub.constant())
	}
	return nil
}

func gepIR(pipeline string, nm map[string]*types.StructType, a []string) string {
	return gepIRWant(pipeline, nm, a, "")
}

func firstLineOf(s string) string {
	if i := strings.IndexByte(s, '\n'); i >= 0 {
		return s[:i]
	}
	return s
}

// gepIRWant: as gepIR; the pipeline "asmexpr" (constant expression through the parser) needs the expected type (hex) to spell the text
func gepIRWant(pipeline string, nm map[string]*types.StructType, a []string, want string) string {
	elem := parseTyIn(nm, a[0])
	src := parseTyIn(nm, a[1])
	var ds []*idxDesc
	for _, s := range a[2:] {
		ds = append(ds, parseIdx(nm, s))
	}
	switch pipeline {
	case "inst":
		var idx []value.Value
		for i, d := range ds {
			if d.kind == "n" {
				idx = append(idx, ir.NewParam(fmt.Sprintf("i%d", i), d.ty))
			} else {
				idx = append(idx, d.constant())
			}
		}
		return hexOut([]byte(ir.NewGetElementPtr(elem, ir.NewParam("p", src), idx...).Type().String()))
	case "expr":
		var idx []constant.Constant
		for _, d := range ds {
			if d.kind == "n" {
				return "skip"
			}
			idx = append(idx, d.constant())
		}
		var base constant.Constant
		if pt, ok := src.(*types.PointerType); ok {
			base = constant.NewNull(pt)
		} else {
			base = constant.NewZeroInitializer(src)
		}
		return hexOut([]byte(constant.NewGetElementPtr(elem, base, idx...).Type().String()))
	case "asm", "asmexpr":
		var sb strings.Builder
		sb.WriteString(typedefsText(nm))
		params := []string{fmt.Sprintf("%s %%p", src)}
		var idxs []string
		for i, d := range ds {
			if d.kind == "r" && pipeline == "asm" {
				return "skip" // inrange is only grammatical inside constant expressions
			}
			if d.kind == "n" {
				if pipeline == "asmexpr" {
					return "skip"
				}
				params = append(params, fmt.Sprintf("%s %%i%d", d.ty, i))
				idxs = append(idxs, fmt.Sprintf("%s %%i%d", d.ty, i))
			} else {
				c := d.constant()
				if d.kind == "r" {
					idxs = append(idxs, "inrange "+d.sub.constant().String())
				} else {
					idxs = append(idxs, c.String())
				}
			}
		}
		if pipeline == "asm" {
			fmt.Fprintf(&sb, "define void @f(%s) {\n\t%%r = getelementptr %s, %s %%p", strings.Join(params, ", "), elem, src)
			for _, s := range idxs {
				sb.WriteString(", " + s)
			}
			sb.WriteString("\n\tret void\n}\n")
			m, err := asm.ParseString("x.ll", sb.String())
			if err != nil {
				return "error"
			}
			return hexOut([]byte(m.Funcs[0].Blocks[0].Insts[0].(value.Value).Type().String()))
		}
		// constant expression in the parser: the parser checks the type written in front of a constant expression against the type it computes
		// itself, so the expression is given as a global initialiser of the EXPECTED type: accepted <=> the parser computed that type
		if want == "" {
			return "skip"
		}
		var base string
		if _, ok := src.(*types.PointerType); ok {
			base = fmt.Sprintf("%s null", src)
		} else {
			base = fmt.Sprintf("%s zeroinitializer", src)
		}
		expr := fmt.Sprintf("getelementptr (%s, %s", elem, base)
		for _, s := range idxs {
			expr += ", " + s
		}
		expr += ")"
		wantTy := string(unhexArg(want))
		fmt.Fprintf(&sb, "@r = global %s %s\n", wantTy, expr)
		m, err := asm.ParseString("x.ll", sb.String())
		if err != nil {
			return "error " + hexOut([]byte(firstLineOf(err.Error())))
		}
		return hexOut([]byte(m.Globals[0].Init.Type().String()))
	}
	return "skip"
}

func init() {
	reg("typ.ir", func(a []string) string {
		nm := map[string]*types.StructType{}
		return hexOut([]byte(buildIR(a[0], parseTys(nm, a[1:])).Type().String()))
	})
	reg("typ.expr", func(a []string) string {
		nm := map[string]*types.StructType{}
		c := buildExpr(a[0], parseTys(nm, a[1:]))
		if c == nil {
			return "skip"
		}
		return hexOut([]byte(c.Type().String()))
	})
	reg("typ.asm", func(a []string) string {
		nm := map[string]*types.StructType{}
		ts := parseTys(nm, a[1:])
		return typeViaAsm(a[0], ts, nm)
	})
	// typ.ok <kind> <tys...> <expect-hex>: IR type == parser type == expected (LLVM's rule, computed from the spec)
	reg("typ.ok", func(a []string) string {
		nm := map[string]*types.StructType{}
		n := len(a)
		ts := parseTys(nm, a[1:n-1])
		want := a[n-1]
		got1 := safe(func([]string) string { return hexOut([]byte(buildIR(a[0], ts).Type().String())) }, nil)
		if got1 != want {
			return "FAIL ir " + got1
		}
		got2 := safe(func([]string) string { return typeViaAsm(a[0], ts, nm) }, nil)
		if got2 != "skip" && got2 != want {
			return "FAIL asm " + got2
		}
		return "ok"
	})
	// typ.use <kind> <tys...> <expect-hex>: the one-instruction function with a USE of the result spelled at LLVM's type
	// (`%u = freeze T %r`): parse, print; the printed module must spell the use at the same type (the printer takes it from the
	// parser-computed type of %r), i.e. parse-then-print preserves the text
	// typ.usetext <kind> <tys...> <want-hex>: the text typ.use feeds the parser (the instruction plus a use of its result at the expected type), and the same
	// text WITHOUT the use (control): handed to LLVM's own assembler to validate the expected type (LLVMSpec) against LLVM
	reg("typ.usetext", func(a []string) string {
		nm := map[string]*types.StructType{}
		n := len(a)
		ts := parseTys(nm, a[1:n-1])
		want := string(unhexArg(a[n-1]))
		text, ok := asmText(a[0], ts, nm)
		if !ok || want == "void" || !strings.Contains(text, "\t%r = ") || strings.HasPrefix(a[0], "invoke") || strings.HasPrefix(a[0], "callbr") {
			return "skip"
		}
		i := strings.Index(text, "\t%r = ")
		j := i + strings.Index(text[i:], "\n")
		use := fmt.Sprintf("\t%%u = freeze %s %%r", want)
		return hexOut([]byte(text)) + " " + hexOut([]byte(text[:j+1]+use+"\n"+text[j+1:]))
	})
	reg("typ.use", func(a []string) string {
		nm := map[string]*types.StructType{}
		n := len(a)
		ts := parseTys(nm, a[1:n-1])
		want := string(unhexArg(a[n-1]))
		text, ok := asmText(a[0], ts, nm)
		if !ok || want == "void" || !strings.Contains(text, "\t%r = ") || strings.HasPrefix(a[0], "invoke") || strings.HasPrefix(a[0], "callbr") {
			return "ok"
		}
		i := strings.Index(text, "\t%r = ")
		j := i + strings.Index(text[i:], "\n")
		use := fmt.Sprintf("\t%%u = freeze %s %%r", want)
		text = text[:j+1] + use + "\n" + text[j+1:]
		m, err := asm.ParseString("x.ll", text)
		if err != nil {
			return "ok" // the construct is not expressible this way (e.g. token results): nothing to compare
		}
		out := m.String()
		if !strings.Contains(out, use+"\n") {
			k := strings.Index(out, "%u = ")
			got := ""
			if k >= 0 {
				got = out[k:]
				if e := strings.IndexByte(got, '\n'); e >= 0 {
					got = got[:e]
				}
			}
			return "FAIL use-printed-as " + hexOut([]byte(got))
		}
		return "ok"
	})
	// cs.type <call|invoke|callbr> <sig descriptor F(ret;params)|G(ret;params)> <nextra>: the type spelled at the printed call site
	// of a callee with that signature, called with its parameters plus <nextra> additional i32 arguments (variadic callees)
	reg("cs.type", func(a []string) string {
		nm := map[string]*types.StructType{}
		sig := parseTyIn(nm, a[1]).(*types.FuncType)
		nextra := int(uintArg(a[2]))
		var ps []*ir.Param
		for i, pt := range sig.Params {
			ps = append(ps, ir.NewParam(fmt.Sprintf("a%d", i), pt))
		}
		fn := ir.NewFunc("callee", sig.RetType, ps...)
		fn.Sig.Variadic = sig.Variadic
		// the callee VALUE: the function itself, or any other value of type pointer-to-signature
		kind := "func"
		if len(a) > 3 {
			kind = a[3]
		}
		f := ir.NewFunc("f", types.Void)
		b, b1, b2 := f.NewBlock("entry"), f.NewBlock("b1"), f.NewBlock("b2")
		var callee value.Value = fn
		pty := types.NewPointer(sig)
		switch kind {
		case "func":
		case "param":
			callee = ir.NewParam("fp", pty)
		case "load":
			slot := ir.NewGlobal("slot", pty)
			ld := b.NewLoad(pty, slot)
			ld.SetName("fp")
			callee = ld
		case "bitcast":
			callee = constant.NewBitCast(ir.NewFunc("other", types.Void), pty)
		case "alias":
			callee = ir.NewAlias("al", fn)
		case "asm":
			callee = ir.NewInlineAsm(pty, "nop", "")
		default:
			return "FAIL unknown callee kind"
		}
		var args []value.Value
		for _, pt := range sig.Params {
			args = append(args, constant.NewUndef(pt))
		}
		for i := 0; i < nextra; i++ {
			args = append(args, constant.NewInt(types.I32, int64(i)))
		}
		var text, kw string
		switch a[0] {
		case "call":
			text, kw = b.NewCall(callee, args...).LLString(), "call "
		case "invoke":
			text, kw = b.NewInvoke(callee, args, b1, b2).LLString(), "invoke "
		default:
			text, kw = b.NewCallBr(callee, args, b1, b2).LLString(), "callbr "
		}
		i := strings.Index(text, kw)
		j := strings.Index(text, " "+callee.Ident()+"(")
		if i < 0 || j < 0 {
			return "FAIL shape " + hexOut([]byte(text))
		}
		return hexOut([]byte(text[i+len(kw) : j]))
	})
	reg("gep.rt", func(a []string) string {
		nm := map[string]*types.StructType{}
		elem := parseTyIn(nm, a[0])
		src := parseTyIn(nm, a[1])
		var idx []verifhook.GepIndex
		for _, s := range a[2:] {
			p := strings.Split(s, ":")
			ix := verifhook.GepIndex{HasVal: p[0] == "1", Val: atoi64(p[1]), VectorLen: uintArg(p[2])}
			if len(p) > 3 {
				ix.Scalable = p[3] == "1"
			}
			idx = append(idx, ix)
		}
		return hexOut([]byte(verifhook.GepResultType(elem, src, idx).String()))
	})
	for _, pl := range []string{"inst", "expr", "asm"} {
		pl := pl
		reg("gep."+pl, func(a []string) string { return gepIR(pl, map[string]*types.StructType{}, a) })
	}
	// gep.usetext <elem> <src> <idx...> <want-hex>: control text and text with the result used at the expected type, for LLVM's assembler
	reg("gep.usetext", func(a []string) string {
		n := len(a)
		nm := map[string]*types.StructType{}
		want := string(unhexArg(a[n-1]))
		elem := parseTyIn(nm, a[0])
		src := parseTyIn(nm, a[1])
		var sb strings.Builder
		params := []string{fmt.Sprintf("%s %%p", src)}
		var idxs []string
		for i, s := range a[2 : n-1] {
			d := parseIdx(nm, s)
			if d.kind == "r" {
				return "skip"
			}
			if d.kind == "n" {
				params = append(params, fmt.Sprintf("%s %%i%d", d.ty, i))
				idxs = append(idxs, fmt.Sprintf("%s %%i%d", d.ty, i))
			} else {
				idxs = append(idxs, d.constant().String())
			}
		}
		sb.WriteString(typedefsText(nm))
		fmt.Fprintf(&sb, "define void @f(%s) {\n\t%%r = getelementptr %s, %s %%p", strings.Join(params, ", "), elem, src)
		for _, s := range idxs {
			sb.WriteString(", " + s)
		}
		head := sb.String()
		return hexOut([]byte(head+"\n\tret void\n}\n")) + " " + hexOut([]byte(head+fmt.Sprintf("\n\t%%u = freeze %s %%r\n\tret void\n}\n", want)))
	})
	reg("gep.ok", func(a []string) string {
		n := len(a)
		want := a[n-1]
		for _, pl := range []string{"inst", "expr", "asm", "asmexpr"} {
			got := safe(func([]string) string { return gepIRWant(pl, map[string]*types.StructType{}, a[:n-1], want) }, nil)
			if got != "skip" && got != want {
				return "FAIL " + pl + " " + got
			}
		}
		return "ok"
	})
}

var _ = strconv.Itoa
