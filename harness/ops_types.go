//go:build verif

package main

import (
	"fmt"
	"regexp"
	"strconv"
	"strings"

	"github.com/llir/llvm/asm"
	"github.com/llir/llvm/ir/types"
)

var tyNameRe = regexp.MustCompile(`%"[^"]*"|%[-a-zA-Z$._0-9]+`)

// tyParser parses the compact type descriptors of the line protocol.
type tyParser struct {
	s     string
	pos   int
	named map[string]*types.StructType
}

func (p *tyParser) peek() byte {
	if p.pos < len(p.s) {
		return p.s[p.pos]
	}
	return 0
}

func (p *tyParser) digits() uint64 {
	st := p.pos
	for p.pos < len(p.s) && p.s[p.pos] >= '0' && p.s[p.pos] <= '9' {
		p.pos++
	}
	if st == p.pos {
		return 0
	}
	x, err := strconv.ParseUint(p.s[st:p.pos], 10, 64)
	if err != nil {
		panic("harness: bad number in type " + p.s)
	}
	return x
}

func (p *tyParser) expect(c byte) {
	if p.peek() != c {
		panic(fmt.Sprintf("harness: bad type descriptor %q at %d: want %c", p.s, p.pos, c))
	}
	p.pos++
}

var floatKinds = []types.FloatKind{types.FloatKindHalf, types.FloatKindFloat, types.FloatKindDouble, types.FloatKindFP128, types.FloatKindX86_FP80, types.FloatKindPPC_FP128}

func (p *tyParser) ty() types.Type {
	c := p.peek()
	p.pos++
	switch c {
	case 'v':
		return &types.VoidType{}
	case 'm':
		return &types.MMXType{}
	case 'l':
		return &types.LabelType{}
	case 't':
		return &types.TokenType{}
	case 'M':
		return &types.MetadataType{}
	case 'i':
		return types.NewInt(p.digits())
	case 'f':
		return &types.FloatType{Kind: floatKinds[p.digits()]}
	case 'n':
		st := p.pos
		for p.pos < len(p.s) && strings.IndexByte("0123456789abcdef-", p.s[p.pos]) >= 0 {
			p.pos++
		}
		name := string(unhexArg(p.s[st:p.pos]))
		if t, ok := p.named[name]; ok {
			return t
		}
		t := &types.StructType{TypeName: name}
		// self-referential body: { i32, %name* } so that recursion through names is really exercised
		t.Fields = []types.Type{types.I32, types.NewPointer(t)}
		p.named[name] = t
		return t
	case 'N':
		// N<hexname>(<type>): the type under a NAME of its own (`%name = type <type>`: an alias; for a struct literal an identified struct)
		st := p.pos
		for p.pos < len(p.s) && strings.IndexByte("0123456789abcdef-", p.s[p.pos]) >= 0 {
			p.pos++
		}
		name := string(unhexArg(p.s[st:p.pos]))
		p.expect('(')
		t := p.ty()
		p.expect(')')
		typeAliases[name] = t.LLString()
		t.SetName(name)
		return t
	case 'p':
		as := p.digits()
		p.expect('(')
		e := p.ty()
		p.expect(')')
		pt := types.NewPointer(e)
		pt.AddrSpace = types.AddrSpace(as)
		return pt
	case 'V', 'S':
		n := p.digits()
		p.expect('(')
		e := p.ty()
		p.expect(')')
		v := types.NewVector(n, e)
		v.Scalable = c == 'S'
		return v
	case 'a':
		n := p.digits()
		p.expect('(')
		e := p.ty()
		p.expect(')')
		return types.NewArray(n, e)
	case 's', 'P':
		p.expect('(')
		st := types.NewStruct(p.tys()...)
		st.Packed = c == 'P'
		return st
	case 'F', 'G':
		p.expect('(')
		ret := p.ty()
		p.expect(';')
		ft := types.NewFunc(ret, p.tys()...)
		ft.Variadic = c == 'G'
		return ft
	}
	panic(fmt.Sprintf("harness: bad type descriptor %q at %d", p.s, p.pos))
}

// observe does what a client does with a type it holds: print it and compare it (with itself and with another type)
func observe(t types.Type) {
	_ = t.String()
	_ = t.LLString()
	_ = t.Equal(t)
	_ = t.Equal(types.I8Ptr)
	_ = types.I8Ptr.Equal(t)
}

// stagedTy builds the type of the descriptor the way a front end does, in STAGES: every composite type is created incomplete (a struct without fields and
// without name, a function type before its variadic flag is set, a pointer / vector before address space / scalability are set), OBSERVED (printed and
// compared) and only then completed through its exported fields and SetName; the result must be the type a one-step construction gives
func (p *tyParser) stagedTy() types.Type {
	c := p.peek()
	switch c {
	case 'n':
		p.pos++
		st := p.pos
		for p.pos < len(p.s) && strings.IndexByte("0123456789abcdef-", p.s[p.pos]) >= 0 {
			p.pos++
		}
		name := string(unhexArg(p.s[st:p.pos]))
		if t, ok := p.named[name]; ok {
			return t
		}
		t := &types.StructType{}
		pt := types.NewPointer(t)
		observe(pt)
		observe(t)
		t.SetName(name)
		observe(pt)
		t.Fields = []types.Type{types.I32, pt}
		p.named[name] = t
		return t
	case 'N':
		p.pos++
		st := p.pos
		for p.pos < len(p.s) && strings.IndexByte("0123456789abcdef-", p.s[p.pos]) >= 0 {
			p.pos++
		}
		name := string(unhexArg(p.s[st:p.pos]))
		p.expect('(')
		t := p.stagedTy()
		p.expect(')')
		outer := types.NewPointer(t)
		observe(outer)
		typeAliases[name] = t.LLString()
		t.SetName(name)
		observe(outer)
		return t
	case 'p':
		p.pos++
		as := p.digits()
		p.expect('(')
		e := p.stagedTy()
		p.expect(')')
		pt := types.NewPointer(e)
		observe(pt)
		pt.AddrSpace = types.AddrSpace(as)
		return pt
	case 'V', 'S':
		p.pos++
		n := p.digits()
		p.expect('(')
		e := p.stagedTy()
		p.expect(')')
		v := types.NewVector(n, e)
		observe(v)
		v.Scalable = c == 'S'
		return v
	case 'a':
		p.pos++
		n := p.digits()
		p.expect('(')
		e := p.stagedTy()
		p.expect(')')
		at := types.NewArray(1, e)
		observe(at)
		at.Len = n
		return at
	case 's', 'P':
		p.pos++
		p.expect('(')
		st := types.NewStruct()
		ptr := types.NewPointer(st)
		observe(st)
		observe(ptr)
		var ts []types.Type
		if p.peek() == ')' {
			p.pos++
		} else {
			for {
				ts = append(ts, p.stagedTy())
				if p.peek() == ',' {
					p.pos++
					continue
				}
				p.expect(')')
				break
			}
		}
		st.Fields = ts
		observe(ptr)
		st.Packed = c == 'P'
		return st
	case 'F', 'G':
		p.pos++
		p.expect('(')
		ret := p.stagedTy()
		p.expect(';')
		var ts []types.Type
		if p.peek() == ')' {
			p.pos++
		} else {
			for {
				ts = append(ts, p.stagedTy())
				if p.peek() == ',' {
					p.pos++
					continue
				}
				p.expect(')')
				break
			}
		}
		ft := types.NewFunc(ret)
		fp := types.NewPointer(ft)
		observe(ft)
		observe(fp)
		ft.Params = ts
		observe(fp)
		ft.Variadic = c == 'G'
		return ft
	}
	return p.ty()
}

func (p *tyParser) tys() []types.Type {
	var ts []types.Type
	if p.peek() == ')' {
		p.pos++
		return ts
	}
	for {
		ts = append(ts, p.ty())
		if p.peek() == ',' {
			p.pos++
			continue
		}
		p.expect(')')
		return ts
	}
}

// alias definitions met by the descriptor parser since the last reset (name -> the type's text): the typing ops render them as type definitions
var typeAliases = map[string]string{}

func parseTyIn(named map[string]*types.StructType, s string) types.Type {
	p := &tyParser{s: s, named: named}
	t := p.ty()
	if p.pos != len(s) {
		panic("harness: trailing junk in type " + s)
	}
	return t
}

func parseTy(s string) types.Type { return parseTyIn(map[string]*types.StructType{}, s) }

func init() {
	reg("ty.string", func(a []string) string { return hexOut([]byte(parseTy(a[0]).String())) })
	reg("ty.equal", func(a []string) string {
		nm := map[string]*types.StructType{}
		// distinct objects for the two sides even when they carry the same name: equality must go by name
		t := parseTyIn(nm, a[0])
		u := parseTy(a[1])
		return strconv.FormatBool(t.Equal(u))
	})
	// the left type built in stages with observations in between (stagedTy), the right one in one step: both directions of Equal, and the text of the left
	reg("ty.staged", func(a []string) string {
		p := &tyParser{s: a[0], named: map[string]*types.StructType{}}
		t := p.stagedTy()
		u := parseTy(a[1])
		return strconv.FormatBool(t.Equal(u)) + " " + strconv.FormatBool(u.Equal(t)) + " " + hexOut([]byte(t.String()))
	})
	reg("ty.laws", func(a []string) string {
		x, y, z := parseTy(a[0]), parseTy(a[1]), parseTy(a[2])
		ts := []types.Type{x, y, z}
		for _, t := range ts {
			if !t.Equal(t) {
				return "FAIL refl"
			}
		}
		for _, t := range ts {
			for _, u := range ts {
				if t.Equal(u) != u.Equal(t) {
					return "FAIL symm"
				}
				for _, w := range ts {
					if t.Equal(u) && u.Equal(w) && !t.Equal(w) {
						return "FAIL trans"
					}
				}
			}
		}
		return "ok"
	})
	// distinct descriptors must be unequal and print differently; equal descriptors equal
	reg("ty.inj", func(a []string) string {
		t, u := parseTy(a[0]), parseTy(a[1])
		same := a[0] == a[1]
		if t.Equal(u) != same {
			return "FAIL equal"
		}
		if (t.String() == u.String()) != same {
			return "FAIL string"
		}
		return "ok"
	})
	// ty.parse <hex text>: the real parser on the text of a type (as the parameter of a declaration; every %name
	// occurring in the text is defined as an opaque type); prints the parsed type, or "error"
	reg("ty.parse", func(a []string) string {
		text := string(unhexArg(a[0]))
		var sb strings.Builder
		seen := map[string]bool{}
		for _, nm := range tyNameRe.FindAllString(text, -1) {
			if !seen[nm] {
				seen[nm] = true
				fmt.Fprintf(&sb, "%s = type opaque\n", nm)
			}
		}
		fmt.Fprintf(&sb, "declare void @f(%s)\n", text)
		m, err := asm.ParseString("x.ll", sb.String())
		if err != nil || len(m.Funcs) != 1 || len(m.Funcs[0].Sig.Params) != 1 || m.Funcs[0].Sig.Variadic {
			return "error"
		}
		return hexOut([]byte(m.Funcs[0].Sig.Params[0].String()))
	})
	// ty.text <desc>: the module text ty.rt feeds the parser (the type as a parameter of a declaration), for LLVM's own assembler
	reg("ty.text", func(a []string) string {
		nm := map[string]*types.StructType{}
		t := parseTyIn(nm, a[0])
		var sb strings.Builder
		for name := range nm {
			fmt.Fprintf(&sb, "%s = type { i32, %s* }\n", (&types.StructType{TypeName: name}).String(), (&types.StructType{TypeName: name}).String())
		}
		use := t
		if _, ok := t.(*types.FuncType); ok {
			use = types.NewPointer(t)
		}
		fmt.Fprintf(&sb, "declare void @f(%s)\n", use)
		return hexOut([]byte(sb.String()))
	})
	// printing a type and parsing it back preserves equality
	reg("ty.rt", func(a []string) string {
		nm := map[string]*types.StructType{}
		t := parseTyIn(nm, a[0])
		var sb strings.Builder
		for name := range nm {
			fmt.Fprintf(&sb, "%s = type { i32, %s* }\n", (&types.StructType{TypeName: name}).String(), (&types.StructType{TypeName: name}).String())
		}
		use := t
		if _, ok := t.(*types.FuncType); ok {
			use = types.NewPointer(t)
		}
		fmt.Fprintf(&sb, "declare void @f(%s)\n", use)
		m, err := asm.ParseString("x.ll", sb.String())
		if err != nil {
			return "FAIL error"
		}
		got := m.Funcs[0].Sig.Params[0]
		if !use.Equal(got) || !got.Equal(use) || got.String() != use.String() {
			return "FAIL"
		}
		return "ok"
	})
}
