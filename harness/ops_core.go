//go:build verif

package main

import (
	"strings"

	"github.com/llir/llvm/asm"
	"github.com/llir/llvm/ir"
	"github.com/llir/llvm/ir/constant"
	"github.com/llir/llvm/ir/types"
)

type coreGlobal struct {
	name string
	w    uint64
	x    string
}

func coreArgs(a []string) ([]string, []coreGlobal) {
	var ts []string
	if a[0] != "-" {
		for _, h := range strings.Split(a[0], ",") {
			ts = append(ts, string(unhexArg(h)))
		}
	}
	var gs []coreGlobal
	if a[1] != "-" {
		for _, t := range strings.Split(a[1], ",") {
			p := strings.Split(t, ":")
			gs = append(gs, coreGlobal{string(unhexArg(p[0])), uintArg(p[1]), p[2]})
		}
	}
	return ts, gs
}

// coreBuild constructs the module through the public API.
func coreBuild(ts []string, gs []coreGlobal) *ir.Module {
	m := ir.NewModule()
	for _, n := range ts {
		st := types.NewStruct()
		st.Opaque = true
		m.NewTypeDef(n, st)
	}
	for _, g := range gs {
		m.NewGlobalDef(g.name, &constant.Int{Typ: types.NewInt(g.w), X: bigArg(g.x)})
	}
	return m
}

func init() {
	reg("core.print", func(a []string) string {
		ts, gs := coreArgs(a)
		return hexOut([]byte(coreBuild(ts, gs).String()))
	})
	reg("core.reparse", func(a []string) string {
		ts, gs := coreArgs(a)
		m, err := asm.ParseString("x.ll", coreBuild(ts, gs).String())
		if err != nil {
			return "error"
		}
		return hexOut([]byte(m.String()))
	})
	// C03/C01 oracle: the constructed module prints, re-parses to the same names/widths/values, and the text is stable
	reg("core.rt", func(a []string) string {
		ts, gs := coreArgs(a)
		m := coreBuild(ts, gs)
		text := m.String()
		m2, err := asm.ParseString("x.ll", text)
		if err != nil {
			return "FAIL reparse-error"
		}
		if len(m2.TypeDefs) != len(ts) || len(m2.Globals) != len(gs) {
			return "FAIL count"
		}
		have := map[string]bool{}
		for _, t := range m2.TypeDefs {
			have[t.Name()] = true
		}
		for _, n := range ts {
			if !have[n] {
				return "FAIL typedef-name"
			}
		}
		for i, g := range gs {
			g2 := m2.Globals[i]
			c, ok := g2.Init.(*constant.Int)
			if g2.Name() != g.name && g2.GlobalName != g.name {
				return "FAIL global-name"
			}
			if !ok || c.X.Cmp(bigArg(g.x)) != 0 || c.Typ.BitSize != g.w {
				return "FAIL value"
			}
		}
		text2 := m2.String()
		m3, err := asm.ParseString("x.ll", text2)
		if err != nil || m3.String() != text2 {
			return "FAIL unstable"
		}
		return "ok"
	})
}
