//go:build verif

package main

import (
	"fmt"
	"strconv"
	"strings"

	"github.com/llir/llvm/asm"
	"github.com/llir/llvm/ir"
	"github.com/llir/llvm/ir/metadata"
	"github.com/llir/llvm/ir/types"
)

// M-Meta descriptors (see lean/LlirModel/Drv/MetaOps.lean): the metadata section of a module built through the ir / ir/metadata API.
//   meta.print <named> <defs>
//   named: `-` or `<hexname>:<id>,<id>...` joined by `|`;   defs: `-` or `<id>:<d|n>:<fields>` joined by `|`
//   fields: `-` or field,field...;  field: `n` | `r<id>` | `s<hex>.` | `v<ty>=<const>` | `t(<fields>)`

type mdDesc struct {
	id     int64
	dist   bool
	fields string
}

type mdBuilder struct {
	p    *tyParser
	defs map[int64]*metadata.Tuple
}

func (b *mdBuilder) field() metadata.Field {
	p := b.p
	switch c := p.peek(); c {
	case 'n':
		p.pos++
		return metadata.Null
	case 'r':
		p.pos++
		id := int64(p.digits())
		d, ok := b.defs[id]
		if !ok {
			panic("harness: undefined metadata ID in descriptor")
		}
		return d
	case 's':
		p.pos++
		i := strings.IndexByte(p.s[p.pos:], '.')
		h := p.s[p.pos : p.pos+i]
		p.pos += i + 1
		return &metadata.String{Value: string(unhexArg(hexOrEmpty(h)))}
	case 'v':
		p.pos++
		t := p.ty()
		p.expect('=')
		return p.constant(t)
	case 't':
		p.pos++
		p.expect('(')
		t := &metadata.Tuple{MetadataID: -1, Fields: b.fields()}
		p.expect(')')
		return t
	default:
		panic(fmt.Sprintf("harness: bad metadata field descriptor at %q", p.s[p.pos:]))
	}
}

func hexOrEmpty(h string) string {
	if h == "" {
		return "-"
	}
	return h
}

func (b *mdBuilder) fields() []metadata.Field {
	var out []metadata.Field
	p := b.p
	if p.pos >= len(p.s) || p.peek() == ')' || p.peek() == '-' {
		if p.pos < len(p.s) && p.peek() == '-' {
			p.pos++
		}
		return out
	}
	for {
		out = append(out, b.field())
		if p.pos < len(p.s) && p.peek() == ',' {
			p.pos++
			continue
		}
		return out
	}
}

func metaBuild(a []string) *ir.Module {
	m := ir.NewModule()
	metaFill(m, map[string]*types.StructType{}, a)
	return m
}

func metaFill(m *ir.Module, named map[string]*types.StructType, a []string) {
	var descs []mdDesc
	if a[1] != "-" {
		for _, ds := range strings.Split(a[1], "|") {
			f := strings.SplitN(ds, ":", 3)
			id, err := strconv.ParseInt(f[0], 10, 64)
			if err != nil {
				panic("harness: bad metadata id")
			}
			descs = append(descs, mdDesc{id, f[1] == "d", f[2]})
		}
	}
	b := &mdBuilder{defs: map[int64]*metadata.Tuple{}}
	for _, d := range descs {
		t := &metadata.Tuple{MetadataID: metadata.MetadataID(d.id), Distinct: d.dist}
		b.defs[d.id] = t
		m.MetadataDefs = append(m.MetadataDefs, t)
	}
	for _, d := range descs {
		b.p = &tyParser{s: d.fields, named: named}
		b.defs[d.id].Fields = b.fields()
	}
	if a[0] != "-" {
		for _, ns := range strings.Split(a[0], "|") {
			f := strings.SplitN(ns, ":", 2)
			nd := &metadata.NamedDef{Name: string(unhexArg(f[0]))}
			if f[1] != "" {
				for _, is := range strings.Split(f[1], ",") {
					id, _ := strconv.ParseInt(is, 10, 64)
					d, ok := b.defs[id]
					if !ok {
						panic("harness: undefined metadata ID in descriptor")
					}
					nd.Nodes = append(nd.Nodes, d)
				}
			}
			m.NamedMetadataDefs[nd.Name] = nd
		}
	}
}

func init() {
	reg("meta.print", func(a []string) string { return hexOut([]byte(metaBuild(a).String())) })
	// constructed -> printed -> parsed -> printed: byte-identical; references of the parsed module are the listed definitions (identity)
	reg("meta.rt", func(a []string) string {
		m := metaBuild(a)
		text := m.String()
		m2, err := asm.ParseString("x.ll", text)
		if err != nil {
			return "FAIL printed text rejected: " + firstLineOf(err.Error())
		}
		if t2 := m2.String(); t2 != text {
			return "FAIL not-fixpoint " + firstDiff(text, t2)
		}
		if len(m2.MetadataDefs) != len(m.MetadataDefs) || len(m2.NamedMetadataDefs) != len(m.NamedMetadataDefs) {
			return "FAIL shape"
		}
		if r := closureCheck(m2); r != "ok" {
			return r
		}
		return "ok"
	})
	// the real parser on the text of a metadata section
	reg("meta.parse", func(a []string) string {
		m, o := parseOutcome(string(unhexArg(a[0])))
		if m == nil {
			return "error"
		}
		_ = o
		out := safe(func([]string) string { return hexOut([]byte(m.String())) }, nil)
		if out == "panic" {
			return "error"
		}
		return "ok " + out
	})
}
