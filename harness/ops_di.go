//go:build verif

package main

import (
	"fmt"
	"math/big"
	"os"
	"reflect"
	"strconv"
	"strings"
	"sync"

	"github.com/llir/llvm/asm"
	asmenum "github.com/llir/llvm/asm/enum"
	"github.com/llir/llvm/ir/enum"
	"github.com/llir/llvm/ir/metadata"
)

// M-DI (lean/LlirModel/DI.lean): the specialised metadata nodes, built by REFLECTION from a generic descriptor — the table of kinds and fields is
// the one `harness facts` extracts from the current source, so field indices mean the same on both sides.

var diProtos = []interface{}{&metadata.DIBasicType{}, &metadata.DICommonBlock{}, &metadata.DICompileUnit{}, &metadata.DICompositeType{}, &metadata.DIDerivedType{},
	&metadata.DIEnumerator{}, &metadata.DIFile{}, &metadata.DIGlobalVariable{}, &metadata.DIGlobalVariableExpression{}, &metadata.DIImportedEntity{}, &metadata.DILabel{},
	&metadata.DILexicalBlock{}, &metadata.DILexicalBlockFile{}, &metadata.DILocalVariable{}, &metadata.DILocation{}, &metadata.DIMacro{}, &metadata.DIMacroFile{},
	&metadata.DIModule{}, &metadata.DINamespace{}, &metadata.DIObjCProperty{}, &metadata.DIStringType{}, &metadata.DISubprogram{}, &metadata.DISubrange{},
	&metadata.DISubroutineType{}, &metadata.DITemplateTypeParameter{}, &metadata.DITemplateValueParameter{}}

type diKind struct {
	name   string
	fields []map[string]interface{}
}

var (
	diOnce  sync.Once
	diTable []diKind
)

func diKinds() []diKind {
	diOnce.Do(func() {
		repo := "/repo"
		if v := os.Getenv("VERIF_REPO"); v != "" {
			repo = v
		}
		for _, k := range diFacts(repo) {
			fs, _ := k["fields"].([]map[string]interface{})
			if len(fs) == 0 || !k["regular"].(bool) {
				continue
			}
			diTable = append(diTable, diKind{k["kind"].(string), fs})
		}
	})
	return diTable
}

func diWordEnum(gotype, w string) (uint64, bool) {
	if n, err := strconv.ParseUint(w, 10, 64); err == nil {
		return n, true
	}
	switch gotype {
	case "enum.DwarfTag":
		return uint64(asmenum.DwarfTagFromString(w)), true
	case "enum.DwarfAttEncoding":
		return uint64(asmenum.DwarfAttEncodingFromString(w)), true
	case "enum.DwarfLang":
		return uint64(asmenum.DwarfLangFromString(w)), true
	case "enum.DwarfCC":
		return uint64(asmenum.DwarfCCFromString(w)), true
	case "enum.DwarfVirtuality":
		return uint64(asmenum.DwarfVirtualityFromString(w)), true
	case "enum.DwarfMacinfo":
		return uint64(asmenum.DwarfMacinfoFromString(w)), true
	case "enum.EmissionKind":
		return uint64(asmenum.EmissionKindFromString(w)), true
	case "enum.NameTableKind":
		return uint64(asmenum.NameTableKindFromString(w)), true
	case "enum.ChecksumKind":
		return uint64(asmenum.ChecksumKindFromString(w)), true
	case "enum.DIFlag":
		var v enum.DIFlag
		for _, p := range strings.Split(w, " | ") {
			v |= asmenum.DIFlagFromString(p)
		}
		return uint64(v), true
	case "enum.DISPFlag":
		var v enum.DISPFlag
		for _, p := range strings.Split(w, " | ") {
			v |= asmenum.DISPFlagFromString(p)
		}
		return uint64(v), true
	}
	return 0, false
}

// diBuild constructs the node of the descriptor `<kind index> <0|1> <fields>`
func diBuild(a []string) (metadata.Definition, string) {
	ks := diKinds()
	ki, err := strconv.Atoi(a[0])
	if err != nil || ki >= len(ks) {
		return nil, "harness: bad kind " + a[0]
	}
	k := ks[ki]
	var proto interface{}
	for _, p := range diProtos {
		if reflect.TypeOf(p).Elem().Name() == k.name {
			proto = p
		}
	}
	if proto == nil {
		return nil, "harness: no prototype of " + k.name
	}
	nv := reflect.New(reflect.TypeOf(proto).Elem())
	nv.Elem().FieldByName("MetadataID").SetInt(-1)
	nv.Elem().FieldByName("Distinct").SetBool(a[1] == "1")
	mentioned := map[int]bool{}
	if a[2] != "-" {
		for _, fs := range strings.Split(a[2], ";") {
			p := strings.SplitN(fs, "=", 2)
			fi, _ := strconv.Atoi(p[0])
			mentioned[fi] = true
			spec := k.fields[fi]
			fv := nv.Elem().FieldByName(spec["gofield"].(string))
			gotype := spec["gotype"].(string)
			val := p[1]
			switch val[0] {
			case 'i':
				n, ok := new(big.Int).SetString(val[1:], 10)
				if !ok {
					return nil, "harness: bad integer " + val
				}
				if fv.Kind() == reflect.Int64 || fv.Kind() == reflect.Int || fv.Kind() == reflect.Int32 {
					if n.IsInt64() {
						fv.SetInt(n.Int64())
					} else {
						fv.SetInt(int64(n.Uint64())) // (DIEnumerator: an unsigned value beyond 2^63 lives in the int64 field)
					}
				} else {
					fv.SetUint(n.Uint64())
				}
			case 's':
				fv.SetString(string(unhexArg(val[1:])))
			case 'b':
				fv.SetBool(val[1] == '1')
			case 'w':
				w := string(unhexArg(val[1:]))
				switch {
				case strings.HasPrefix(gotype, "enum."):
					n, ok := diWordEnum(gotype, w)
					if !ok {
						return nil, "harness: no enum reader for " + gotype
					}
					switch fv.Kind() {
					case reflect.Int, reflect.Int8, reflect.Int16, reflect.Int32, reflect.Int64:
						fv.SetInt(int64(n))
					default:
						fv.SetUint(n)
					}
				case strings.HasPrefix(w, "!"):
					id, _ := strconv.ParseInt(w[1:], 10, 64)
					if fv.Kind() == reflect.Ptr {
						ref := reflect.New(fv.Type().Elem())
						ref.Elem().FieldByName("MetadataID").SetInt(id)
						fv.Set(ref)
					} else {
						fv.Set(reflect.ValueOf(&metadata.Tuple{MetadataID: metadata.MetadataID(id)}))
					}
				default:
					n, err := strconv.ParseInt(w, 10, 64)
					if err != nil {
						return nil, "harness: bad word " + w
					}
					fv.Set(reflect.ValueOf(metadata.IntLit(n)))
				}
			}
		}
	}
	// a field the descriptor does not mention holds the value the printer OMITS: Go's zero value, except for a boolean printed when false
	for fi, spec := range k.fields {
		if spec["cond"].(string) == "false" && !mentioned[fi] {
			nv.Elem().FieldByName(spec["gofield"].(string)).SetBool(true)
		}
	}
	return nv.Interface().(metadata.Definition), ""
}

func init() {
	reg("di.kinds", func(a []string) string {
		var ns []string
		for _, k := range diKinds() {
			ns = append(ns, k.name)
		}
		return strings.Join(ns, ",")
	})
	// (every generated node is meant to be well-formed: the model's decidable predicate must say so)
	reg("di.wf", func(a []string) string { return "true" })
	reg("di.print", func(a []string) string {
		d, msg := diBuild(a)
		if d == nil {
			return msg
		}
		return hexOut([]byte(d.(interface{ LLString() string }).LLString()))
	})
	// constructed -> printed -> parsed -> printed: byte-identical
	reg("di.rt", func(a []string) string {
		d, msg := diBuild(a)
		if d == nil {
			return msg
		}
		text := d.(interface{ LLString() string }).LLString()
		m, err := asm.ParseString("x.ll", "!0 = "+text+"\n"+string(unhexArg(a[3])))
		if err != nil {
			return "FAIL printed node rejected: " + firstLineOf(err.Error())
		}
		for _, md := range m.MetadataDefs {
			if md.ID() == 0 {
				if t2 := md.LLString(); t2 != text {
					return "FAIL not a fixpoint " + firstDiff(text, t2)
				}
				return "ok"
			}
		}
		return "FAIL node !0 not in the parsed module"
	})
	// the real parser on the text of ONE node (second argument: the definitions of the nodes it refers to)
	reg("di.parse", func(a []string) string {
		m, _ := parseOutcome("!0 = " + string(unhexArg(a[0])) + "\n" + string(unhexArg(a[1])))
		if m == nil {
			return "error"
		}
		for _, md := range m.MetadataDefs {
			if md.ID() == 0 {
				out := safe(func([]string) string { return hexOut([]byte(md.LLString())) }, nil)
				if out == "panic" {
					return "error"
				}
				return "ok " + out
			}
		}
		return "error"
	})
}

var _ = fmt.Sprint
