//go:build verif

package main

func tables() {}
