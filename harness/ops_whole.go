//go:build verif

package main

import (
	"strconv"

	"github.com/llir/llvm/asm"
	"github.com/llir/llvm/ir"
	"github.com/llir/llvm/ir/metadata"
	"github.com/llir/llvm/ir/value"
)

// M-Whole descriptors (see lean/LlirModel/Drv/WholeOps.lean): one module with type definitions and globals (M-Core-2 descriptors), a metadata section
// (M-Meta descriptors) and function definitions (M-Core-3 descriptors):
//   whole.print <typedefs> <globals> <named md> <md defs> <n> (<ret> <hexname> <params> <blocks>)*n

func wholeBuild(a []string) *ir.Module {
	m, named := core2BuildNamed(a[0:2])
	metaFill(m, named, a[2:4])
	n, err := strconv.Atoi(a[4])
	if err != nil || len(a) != 5+4*n {
		panic("harness: bad whole-module descriptor")
	}
	globals := map[string]value.Value{}
	for _, g := range m.Globals {
		globals[g.GlobalName] = g
	}
	var finish []func(map[string]value.Value)
	for i := 0; i < n; i++ {
		f, fin := core3Prepare(named, a[5+4*i:9+4*i])
		f.Parent = m
		m.Funcs = append(m.Funcs, f)
		globals[f.GlobalName] = f
		finish = append(finish, fin)
	}
	c3MdDefs = map[int64]metadata.Definition{}
	for _, d := range m.MetadataDefs {
		c3MdDefs[d.ID()] = d
	}
	defer func() { c3MdDefs = nil }()
	for _, fin := range finish {
		fin(globals)
	}
	return m
}

func init() {
	reg("whole.print", func(a []string) string { return hexOut([]byte(wholeBuild(a).String())) })
	reg("whole.rt", func(a []string) string {
		m := wholeBuild(a)
		text := m.String()
		m2, err := asm.ParseString("x.ll", text)
		if err != nil {
			return "FAIL printed text rejected: " + firstLineOf(err.Error())
		}
		if t2 := m2.String(); t2 != text {
			return "FAIL not-fixpoint " + firstDiff(text, t2)
		}
		if len(m2.Funcs) != len(m.Funcs) || len(m2.Globals) != len(m.Globals) || len(m2.TypeDefs) != len(m.TypeDefs) || len(m2.MetadataDefs) != len(m.MetadataDefs) {
			return "FAIL shape"
		}
		if r := closureCheck(m2); r != "ok" {
			return r
		}
		return "ok"
	})
	reg("whole.parse", func(a []string) string {
		m, _ := parseOutcome(string(unhexArg(a[0])))
		if m == nil {
			return "error"
		}
		out := safe(func([]string) string { return hexOut([]byte(m.String())) }, nil)
		if out == "panic" {
			return "error"
		}
		return "ok " + out
	})
}
