//go:build verif

package main

import (
	"fmt"
	"strings"

	"github.com/llir/llvm/asm"
	"github.com/llir/llvm/ir"
	"github.com/llir/llvm/ir/constant"
	"github.com/llir/llvm/ir/metadata"
	"github.com/llir/llvm/ir/types"
	"github.com/llir/llvm/ir/value"
)

// histRun replays an editing history on the real API. Tokens: i<pos>:u|n|s  r<pos>  n<pos>:0|1  p  q
func histRun(toks []string, withObservers bool) []string {
	m := ir.NewModule()
	f := m.NewFunc("f", types.Void)
	b := f.NewBlock("entry")
	b.NewRet(nil)
	zero := constant.NewInt(types.I32, 0)
	k := 0
	var outs []string
	show := func() string {
		var ids []string
		for _, in := range b.Insts {
			if a, ok := in.(*ir.InstAdd); ok {
				if a.IsUnnamed() {
					ids = append(ids, fmt.Sprint(a.ID()))
				} else {
					ids = append(ids, "n")
				}
			}
		}
		return strings.Join(ids, ",")
	}
	doPrint := func() string {
		res := safe(func([]string) string { _ = m.String(); return "ok" }, nil)
		if res != "ok" {
			return "panic"
		}
		return "[" + show() + "]"
	}
	for _, t := range toks {
		switch t[0] {
		case 'i':
			p := strings.Split(t[1:], ":")
			pos := int(atoi64(p[0]))
			var in ir.Instruction
			switch p[1] {
			case "u":
				in = ir.NewAdd(zero, zero)
			case "n":
				a := ir.NewAdd(zero, zero)
				k++
				a.SetName(fmt.Sprintf("v%d", k))
				in = a
			default:
				in = ir.NewStore(zero, constant.NewNull(types.I32Ptr))
			}
			b.Insts = append(b.Insts[:pos], append([]ir.Instruction{in}, b.Insts[pos:]...)...)
		case 'r':
			pos := int(atoi64(t[1:]))
			b.Insts = append(b.Insts[:pos], b.Insts[pos+1:]...)
		case 'n':
			p := strings.Split(t[1:], ":")
			pos := int(atoi64(p[0]))
			if a, ok := b.Insts[pos].(*ir.InstAdd); ok {
				if p[1] == "1" {
					k++
					a.SetName(fmt.Sprintf("v%d", k))
				} else {
					a.SetName("")
				}
			}
		case 'p':
			if withObservers {
				outs = append(outs, doPrint())
			}
		case 'q':
			if withObservers {
				for _, in := range b.Insts {
					_ = in.LLString()
					_ = in.Operands()
					if a, ok := in.(*ir.InstAdd); ok {
						_ = a.Type()
						_ = a.Ident()
					}
				}
				_ = b.Term.Succs()
				_ = f.Type()
			}
		}
	}
	outs = append(outs, doPrint())
	return outs
}

// fieldHistory: construct an object, edit fields that feed a lazily cached type AFTER construction (a SEQUENCE of edits, e.g. address space
// 5, then 0 again), use the object as a typed operand and print. With observers, pure queries (Type, String, Ident, LLString) are made after
// construction and after every edit but the last.
func fieldHistory(kind string, seq []int, observers bool) string {
	m := ir.NewModule()
	user := m.NewFunc("user", types.Void)
	ub := user.NewBlock("entry")
	type typed interface {
		Type() types.Type
		String() string
		Ident() string
	}
	var objs []typed
	observe := func() {
		if observers {
			for _, v := range objs {
				_ = v.Type()
				_ = v.String()
				_ = v.Ident()
				_ = v.Type().String()
			}
			if ub.Term != nil {
				_ = m.String()
			}
		}
	}
	var edits []func()
	use := func() {}
	early := false
	// a bystander: the text of another entity that was BUILT WITH a type object this one handed out earlier; no edit below touches it, so it must not change
	var bystander func() string
	switch kind {
	case "func-type-shared":
		f := m.NewFunc("handler", types.Void)
		g := m.NewFunc("bystander", types.Void, ir.NewParam("cb", f.Type()))
		objs = append(objs, f)
		edits = []func(){func() { f.AddrSpace = 1 }, func() { f.AddrSpace = 0 }, func() { f.AddrSpace = 2 }}
		use = func() { ub.NewICmp(1, f, f) }
		bystander = func() string { return g.LLString() }
	case "global-type-shared":
		gl := m.NewGlobalDef("g", constant.NewInt(types.I32, 0))
		g := m.NewFunc("bystander", types.Void, ir.NewParam("p", gl.Type()))
		objs = append(objs, gl)
		edits = []func(){func() { gl.AddrSpace = 3 }, func() { gl.AddrSpace = 0 }, func() { gl.AddrSpace = 5 }}
		use = func() { ub.NewLoad(types.I32, gl) }
		bystander = func() string { return g.LLString() }
	case "alloca-type-shared":
		a := ub.NewAlloca(types.I32)
		a.SetName("slot")
		g := m.NewFunc("bystander", types.Void, ir.NewParam("p", a.Type()))
		objs = append(objs, a)
		edits = []func(){func() { a.AddrSpace = 5 }, func() { a.AddrSpace = 0 }, func() { a.AddrSpace = 3 }}
		use = func() { ub.NewStore(constant.NewInt(types.I32, 1), a) }
		bystander = func() string { return g.LLString() }
	case "alias-type-shared":
		g0 := m.NewGlobalDef("g", constant.NewInt(types.I32, 0))
		h0 := m.NewGlobalDef("h", constant.NewInt(types.I64, 0))
		al := m.NewAlias("al", g0)
		g := m.NewFunc("bystander", types.Void, ir.NewParam("p", al.Type()))
		objs = append(objs, al)
		edits = []func(){func() { al.Aliasee = h0 }, func() { al.Aliasee = g0 }, func() { al.Aliasee = h0 }}
		use = func() { ub.NewICmp(1, al, al) }
		bystander = func() string { return g.LLString() }
	case "func-addrspace":
		f := m.NewFunc("handler", types.Void)
		objs = append(objs, f)
		edits = []func(){func() { f.AddrSpace = 1 }, func() { f.AddrSpace = 0 }, func() { f.AddrSpace = 2 }}
		use = func() { ub.NewICmp(1, f, f) }
	case "func-sig":
		f := m.NewFunc("handler", types.Void)
		objs = append(objs, f)
		edits = []func(){func() { f.Sig.Variadic = true }, func() { f.Sig.Variadic = false }, func() { f.Sig.RetType = types.I32 }}
		use = func() { ub.NewICmp(1, f, f) }
	case "global-addrspace":
		g := m.NewGlobalDef("g", constant.NewInt(types.I32, 0))
		objs = append(objs, g)
		edits = []func(){func() { g.AddrSpace = 3 }, func() { g.AddrSpace = 0 }, func() { g.AddrSpace = 5 }}
		use = func() { ub.NewLoad(types.I32, g) }
	case "global-contenttype":
		g := m.NewGlobal("g", types.I32)
		objs = append(objs, g)
		edits = []func(){func() { g.ContentType = types.I64 }, func() { g.ContentType = types.I32 }, func() { g.ContentType = types.I8 }}
		use = func() { ub.NewLoad(g.ContentType, g) }
	case "alloca-addrspace":
		a := ub.NewAlloca(types.I32)
		a.SetName("slot")
		objs = append(objs, a)
		edits = []func(){func() { a.AddrSpace = 5 }, func() { a.AddrSpace = 0 }, func() { a.AddrSpace = 3 }}
		use = func() { ub.NewStore(constant.NewInt(types.I32, 1), a) }
	case "alias-aliasee":
		g := m.NewGlobalDef("g", constant.NewInt(types.I32, 0))
		h := m.NewGlobalDef("h", constant.NewInt(types.I64, 0))
		k := m.NewGlobalDef("k", constant.NewInt(types.I8, 0))
		al := m.NewAlias("al", g)
		objs = append(objs, al)
		edits = []func(){func() { al.Aliasee = h }, func() { al.Aliasee = g }, func() { al.Aliasee = k }}
		use = func() { ub.NewLoad(types.I64, al) }
	case "param-type":
		p := ir.NewParam("p", types.I32)
		f := m.NewFunc("callee", types.Void, p)
		objs = append(objs, f, p)
		edits = []func(){func() { p.Typ = types.I64 }, func() { p.Typ = types.I32 }, func() { p.Typ = types.I8 }}
		use = func() { ub.NewCall(f, constant.NewInt(types.I64, 1)) }
	case "invoke-invokee", "call-callee", "callbr-callee":
		g32 := m.NewFunc("g32", types.I32)
		g64 := m.NewFunc("g64", types.I64)
		g8 := m.NewFunc("g8", types.I8)
		b1, b2 := user.NewBlock("b1"), user.NewBlock("b2")
		b1.NewRet(nil)
		b2.NewRet(nil)
		early = true
		switch kind {
		case "invoke-invokee":
			t := ub.NewInvoke(g32, nil, b1, b2)
			t.SetName("r")
			objs = append(objs, t)
			edits = []func(){func() { t.Invokee = g64 }, func() { t.Invokee = g32 }, func() { t.Invokee = g8 }}
		case "callbr-callee":
			t := ub.NewCallBr(g32, nil, b1, b2)
			t.SetName("r")
			objs = append(objs, t)
			edits = []func(){func() { t.Callee = g64 }, func() { t.Callee = g32 }, func() { t.Callee = g8 }}
		default:
			c := ub.NewCall(g32)
			c.SetName("r")
			ub.NewBr(b1)
			objs = append(objs, c)
			edits = []func(){func() { c.Callee = g64 }, func() { c.Callee = g32 }, func() { c.Callee = g8 }}
		}
	case "add-operands", "icmp-operands", "select-operands", "phi-incoming", "extractvalue-x", "gep-src", "cast-from":
		p32 := ir.NewParam("p32", types.I32)
		p64 := ir.NewParam("p64", types.I64)
		p8 := ir.NewParam("p8", types.I8)
		agg32 := ir.NewParam("a32", types.NewStruct(types.I32))
		agg64 := ir.NewParam("a64", types.NewStruct(types.I64))
		agg8 := ir.NewParam("a8", types.NewStruct(types.I8))
		ptr32 := ir.NewParam("q32", types.NewPointer(types.NewArray(2, types.I32)))
		ptr64 := ir.NewParam("q64", types.NewPointer(types.NewArray(2, types.I64)))
		ptr8 := ir.NewParam("q8", types.NewPointer(types.NewArray(2, types.I8)))
		cond := ir.NewParam("c", types.I1)
		user.Params = append(user.Params, p32, p64, p8, agg32, agg64, agg8, ptr32, ptr64, ptr8, cond)
		user.Sig.Params = []types.Type{types.I32, types.I64, types.I8, agg32.Typ, agg64.Typ, agg8.Typ, ptr32.Typ, ptr64.Typ, ptr8.Typ, types.I1}
		var res value.Value
		switch kind {
		case "add-operands":
			i := ub.NewAdd(p32, p32)
			i.SetName("r")
			objs, res = append(objs, i), i
			edits = []func(){func() { i.X, i.Y = p64, p64 }, func() { i.X, i.Y = p32, p32 }, func() { i.X, i.Y = p8, p8 }}
		case "icmp-operands":
			v32 := ir.NewParam("v32", types.NewVector(2, types.I32))
			v64 := ir.NewParam("v64", types.NewVector(4, types.I64))
			user.Params = append(user.Params, v32, v64)
			user.Sig.Params = append(user.Sig.Params, v32.Typ, v64.Typ)
			i := ub.NewICmp(1, p32, p32)
			i.SetName("r")
			objs, res = append(objs, i), i
			edits = []func(){func() { i.X, i.Y = v32, v32 }, func() { i.X, i.Y = p32, p32 }, func() { i.X, i.Y = v64, v64 }}
		case "select-operands":
			i := ub.NewSelect(cond, p32, p32)
			i.SetName("r")
			objs, res = append(objs, i), i
			edits = []func(){func() { i.ValueTrue, i.ValueFalse = p64, p64 }, func() { i.ValueTrue, i.ValueFalse = p32, p32 }, func() { i.ValueTrue, i.ValueFalse = p8, p8 }}
		case "phi-incoming":
			i := ub.NewPhi(ir.NewIncoming(p32, ub))
			i.SetName("r")
			objs, res = append(objs, i), i
			edits = []func(){func() { i.Incs[0].X = p64 }, func() { i.Incs[0].X = p32 }, func() { i.Incs[0].X = p8 }}
		case "extractvalue-x":
			i := ub.NewExtractValue(agg32, 0)
			i.SetName("r")
			objs, res = append(objs, i), i
			edits = []func(){func() { i.X = agg64 }, func() { i.X = agg32 }, func() { i.X = agg8 }}
		case "gep-src":
			zero := constant.NewInt(types.I64, 0)
			i := ub.NewGetElementPtr(types.NewArray(2, types.I32), ptr32, zero, zero)
			i.SetName("r")
			objs, res = append(objs, i), i
			edits = []func(){func() { i.ElemType, i.Src = types.NewArray(2, types.I64), ptr64 }, func() { i.ElemType, i.Src = types.NewArray(2, types.I32), ptr32 },
				func() { i.ElemType, i.Src = types.NewArray(2, types.I8), ptr8 }}
		case "cast-from":
			i := ub.NewZExt(p32, types.I64)
			i.SetName("r")
			objs, res = append(objs, i), i
			edits = []func(){func() { i.To = types.I128 }, func() { i.To = types.I64 }, func() { i.To = types.NewInt(40) }}
		}
		use = func() { ub.Insts = append(ub.Insts, &ir.InstFreeze{X: res}) }
	default:
		return "unknown-kind"
	}
	return safe(func([]string) string {
		if !early {
			ub.NewRet(nil)
		}
		before := ""
		if bystander != nil {
			before = bystander()
		}
		observe()
		for k, e := range seq {
			if e < 0 || e >= len(edits) {
				return "bad-seq"
			}
			edits[e]()
			if k+1 < len(seq) {
				observe()
			}
		}
		use()
		text := m.String()
		if bystander != nil {
			if after := bystander(); after != before {
				return "BYSTANDER-CHANGED " + hexOut([]byte(before)) + " -> " + hexOut([]byte(after))
			}
		}
		return hexOut([]byte(text))
	}, nil)
}

// twiceScenario: a constructed module that must print the same text twice in a row (also with a function printed on its own in between), and whose
// text the parser accepts
func twiceScenario(name string) *ir.Module {
	m := ir.NewModule()
	switch name {
	case "fwd-blockaddress-no-globals", "fwd-blockaddress-with-global":
		// an EARLIER function uses the address of an unnamed block of a LATER function (behind an unnamed parameter and the entry block); no global
		// variable, alias or ifunc in the first variant
		user := m.NewFunc("user", types.I8Ptr)
		g := m.NewFunc("g", types.Void, ir.NewParam("", types.I32))
		b0, b1, b2 := g.NewBlock(""), g.NewBlock(""), g.NewBlock("")
		b0.NewBr(b1)
		b1.NewBr(b2)
		b2.NewRet(nil)
		ub := user.NewBlock("entry")
		sel := ub.NewSelect(constant.True, constant.NewBlockAddress(g, b1), constant.NewBlockAddress(g, b2))
		ub.NewRet(sel)
		if name == "fwd-blockaddress-with-global" {
			m.NewGlobalDef("tbl", constant.NewBlockAddress(g, b2))
		}
	case "float-kinds":
		for i, lit := range []struct {
			t *types.FloatType
			s string
		}{{types.Half, "0xH3C00"}, {types.Float, "1.5"}, {types.Double, "0x3FF0000000000001"}, {types.X86_FP80, "0xK3FFF8000000000000000"},
			{types.FP128, "0xL00000000000000003FFF000000000000"}, {types.PPC_FP128, "0xM3FF00000000000000000000000000000"},
			{types.PPC_FP128, "0xM3FF00000000000003C90000000000000"}, {types.PPC_FP128, "0xMC0000000000000000000000000000000"}} {
			c, err := constant.NewFloatFromString(lit.t, lit.s)
			if err != nil {
				panic(err)
			}
			m.NewGlobalDef(fmt.Sprintf("f%d", i), c)
		}
	default:
		return nil
	}
	return m
}

// qobsHistory: a never-printed function with an unnamed parameter, an unnamed entry block and unnamed values; with observers, every NON-PRINT query is made on
// every part; then ONE edit that shifts the numbering; then the module is printed
func qobsHistory(edit string, observers bool) string {
	m := ir.NewModule()
	f := m.NewFunc("f", types.I32, ir.NewParam("", types.I32))
	b := f.NewBlock("")
	x := b.NewAdd(f.Params[0], constant.NewInt(types.I32, 1))
	y := b.NewMul(x, x)
	b2 := f.NewBlock("")
	b.NewBr(b2)
	z := b2.NewSub(y, x)
	b2.NewRet(z)
	if observers {
		for _, p := range f.Params {
			_, _, _ = p.String(), p.Ident(), p.Type()
		}
		for _, blk := range f.Blocks {
			_, _, _ = blk.String(), blk.Ident(), blk.Type()
			for _, in := range blk.Insts {
				_ = in.Operands()
				if v, ok := in.(value.Named); ok {
					_, _, _ = v.String(), v.Ident(), v.Type()
				}
			}
			_ = blk.Term.Succs()
			_ = blk.Term.Operands()
		}
		_, _, _ = f.String(), f.Ident(), f.Type()
	}
	switch edit {
	case "insert-front":
		b.Insts = append([]ir.Instruction{ir.NewAdd(f.Params[0], f.Params[0])}, b.Insts...)
	case "remove-first":
		// (the multiplication no longer uses the removed value)
		y.X, y.Y = f.Params[0], f.Params[0]
		z.Y = f.Params[0]
		b.Insts = b.Insts[1:]
	case "name-first":
		x.SetName("named")
	case "append":
		b2.Insts = append(b2.Insts, ir.NewAdd(z, z))
	case "block-front":
		nb := ir.NewBlock("")
		nb.Parent = f
		nb.NewBr(b)
		f.Blocks = append([]*ir.Block{nb}, f.Blocks...)
	case "param-front":
		f.Params = append([]*ir.Param{ir.NewParam("", types.I64)}, f.Params...)
		f.Sig.Params = append([]types.Type{types.I64}, f.Sig.Params...)
	default:
		return "unknown-edit"
	}
	return safe(func([]string) string { return m.String() }, nil)
}

func init() {
	reg("hist.qobs", func(a []string) string {
		with, without := qobsHistory(a[0], true), qobsHistory(a[0], false)
		if with == "unknown-edit" {
			return "FAIL unknown-edit"
		}
		if without == "panic" {
			return "FAIL unobserved-history-panics"
		}
		if with != without {
			return "FAIL observers-changed-the-result " + firstDiff(without, with)
		}
		return "ok"
	})
	// C17 / C14: metadata definitions REPLACED between two prints (the list keeps its length): every definition has its own ID, the replaced node is numbered,
	// and the reference from named metadata prints the ID of the node it points to
	reg("md.replace", func(a []string) string {
		n, i := int(atoi64(a[0])), int(atoi64(a[1]))
		m := ir.NewModule()
		var nodes []*metadata.Tuple
		for k := 0; k < n; k++ {
			t := &metadata.Tuple{MetadataID: -1, Fields: []metadata.Field{&metadata.String{Value: fmt.Sprintf("old%d", k)}}}
			nodes = append(nodes, t)
			m.MetadataDefs = append(m.MetadataDefs, t)
		}
		nd := &metadata.NamedDef{Name: "n"}
		for _, t := range nodes {
			nd.Nodes = append(nd.Nodes, t)
		}
		m.NamedMetadataDefs["n"] = nd
		_ = m.String()
		fresh := &metadata.Tuple{MetadataID: -1, Fields: []metadata.Field{&metadata.String{Value: "fresh"}}}
		m.MetadataDefs[i] = fresh
		nd.Nodes[i] = fresh
		s := safe(func([]string) string { return m.String() }, nil)
		if s == "panic" {
			return "FAIL print-panic"
		}
		m2, err := asm.ParseString("x.ll", s)
		if err != nil {
			return "FAIL reparse-error " + firstDiff("", s)
		}
		if len(m2.MetadataDefs) != n {
			return fmt.Sprintf("FAIL %d definitions read back, want %d", len(m2.MetadataDefs), n)
		}
		seen := map[int64]bool{}
		for _, d := range m2.MetadataDefs {
			if seen[d.ID()] {
				return "FAIL duplicate-id"
			}
			seen[d.ID()] = true
		}
		nm := m2.NamedMetadataDefs["n"]
		if nm == nil || len(nm.Nodes) != n {
			return "FAIL named-metadata-shape"
		}
		tp, ok := nm.Nodes[i].(*metadata.Tuple)
		if !ok || len(tp.Fields) != 1 || tp.Fields[0].(*metadata.String).Value != "fresh" {
			return "FAIL reference-does-not-name-the-new-node"
		}
		found := false
		for _, d := range m2.MetadataDefs {
			if metadata.Definition(tp) == d {
				found = true
			}
		}
		if !found {
			return "FAIL reference-is-an-inline-copy"
		}
		return "ok"
	})
	// C14: a metadata definition PREPENDED between two prints: the IDs the first print stored stay, so the final text differs from the text of the same
	// construction printed once (recorded finding)
	reg("md.prepend", func(a []string) string {
		build := func(printBetween bool) string {
			m := ir.NewModule()
			old := &metadata.Tuple{MetadataID: -1, Fields: []metadata.Field{&metadata.String{Value: "old"}}}
			m.MetadataDefs = append(m.MetadataDefs, old)
			if printBetween {
				_ = m.String()
			}
			fresh := &metadata.Tuple{MetadataID: -1, Fields: []metadata.Field{&metadata.String{Value: "fresh"}}}
			m.MetadataDefs = append([]metadata.Definition{fresh}, m.MetadataDefs...)
			return safe(func([]string) string { return m.String() }, nil)
		}
		with, without := build(true), build(false)
		if with != without {
			return "FAIL print-then-prepend " + firstDiff(without, with)
		}
		return "ok"
	})
	reg("hist.twice.list", func(a []string) string { return "fwd-blockaddress-no-globals,fwd-blockaddress-with-global,float-kinds" })
	reg("hist.twice", func(a []string) string {
		m := twiceScenario(a[0])
		if m == nil {
			return "FAIL unknown-scenario"
		}
		s1 := m.String()
		for _, f := range m.Funcs {
			_ = f.LLString()
		}
		s2 := m.String()
		s3 := m.String()
		if s1 != s2 || s2 != s3 {
			return "FAIL printed-twice-differs " + firstDiff(s1, s2+s3)
		}
		// an unobserved twin prints the same text
		if t := twiceScenario(a[0]).String(); t != s1 {
			return "FAIL twin-differs " + firstDiff(s1, t)
		}
		m2, err := asm.ParseString("x.ll", s1)
		if err != nil {
			return "FAIL reparse-error"
		}
		if s4 := m2.String(); s4 != s1 {
			return "FAIL reparse-differs " + firstDiff(s1, s4)
		}
		return "ok"
	})
	// C14 oracle on cached-type state: the same construction/edit history prints the same text with and without interleaved pure observers
	reg("hist.fobs", func(a []string) string {
		seq := []int{0}
		if len(a) > 1 {
			seq = nil
			for _, t := range strings.Split(a[1], ",") {
				seq = append(seq, int(atoi64(t)))
			}
		}
		with := fieldHistory(a[0], seq, true)
		without := fieldHistory(a[0], seq, false)
		if with == "unknown-kind" {
			return "FAIL unknown-kind"
		}
		if strings.HasPrefix(with, "BYSTANDER") || strings.HasPrefix(without, "BYSTANDER") {
			return "FAIL an entity that no step touched changed its text (a type object it shares was edited in place): " + with + " / " + without
		}
		if with != without {
			return "FAIL observers-changed-the-text " + with + " vs " + without
		}
		return "ok"
	})
	reg("hist.run", func(a []string) string { return strings.Join(histRun(a, true), "|") })
	// C14 oracle: the final print with observers equals the final print without them
	reg("hist.obs", func(a []string) string {
		with := histRun(a, true)
		without := histRun(a, false)
		w, wo := with[len(with)-1], without[len(without)-1]
		if w == wo {
			return "ok"
		}
		return "FAIL with=" + w + " without=" + wo
	})
}
