//go:build verif

package main

import (
	"fmt"
	"strings"

	"github.com/llir/llvm/ir"
	"github.com/llir/llvm/ir/constant"
	"github.com/llir/llvm/ir/types"
)

// histRun replays an editing history on the real API. Tokens: i<pos>:u|n|s  r<pos>  n<pos>:0|1  p  q
func histRun(toks []string, withObservers bool) []string {
	m := ir.NewModule()
	f := m.NewFunc("f", types.Void)
	b := f.NewBlock("entry")
	b.NewRet(nil)
	zero := constant.NewInt(types.I32, 0)
	k := 0
	var outs []string
	show := func() string {
		var ids []string
		for _, in := range b.Insts {
			if a, ok := in.(*ir.InstAdd); ok {
				if a.IsUnnamed() {
					ids = append(ids, fmt.Sprint(a.ID()))
				} else {
					ids = append(ids, "n")
				}
			}
		}
		return strings.Join(ids, ",")
	}
	doPrint := func() string {
		res := safe(func([]string) string { _ = m.String(); return "ok" }, nil)
		if res != "ok" {
			return "panic"
		}
		return "[" + show() + "]"
	}
	for _, t := range toks {
		switch t[0] {
		case 'i':
			p := strings.Split(t[1:], ":")
			pos := int(atoi64(p[0]))
			var in ir.Instruction
			switch p[1] {
			case "u":
				in = ir.NewAdd(zero, zero)
			case "n":
				a := ir.NewAdd(zero, zero)
				k++
				a.SetName(fmt.Sprintf("v%d", k))
				in = a
			default:
				in = ir.NewStore(zero, constant.NewNull(types.I32Ptr))
			}
			b.Insts = append(b.Insts[:pos], append([]ir.Instruction{in}, b.Insts[pos:]...)...)
		case 'r':
			pos := int(atoi64(t[1:]))
			b.Insts = append(b.Insts[:pos], b.Insts[pos+1:]...)
		case 'n':
			p := strings.Split(t[1:], ":")
			pos := int(atoi64(p[0]))
			if a, ok := b.Insts[pos].(*ir.InstAdd); ok {
				if p[1] == "1" {
					k++
					a.SetName(fmt.Sprintf("v%d", k))
				} else {
					a.SetName("")
				}
			}
		case 'p':
			if withObservers {
				outs = append(outs, doPrint())
			}
		case 'q':
			if withObservers {
				for _, in := range b.Insts {
					_ = in.LLString()
					_ = in.Operands()
					if a, ok := in.(*ir.InstAdd); ok {
						_ = a.Type()
						_ = a.Ident()
					}
				}
				_ = b.Term.Succs()
				_ = f.Type()
			}
		}
	}
	outs = append(outs, doPrint())
	return outs
}

// fieldHistory: construct an object, edit a field that feeds a lazily cached type AFTER construction, use the object as a typed
// operand and print. With observers, pure queries (Type, String, Ident, LLString) are made between construction and the edit.
func fieldHistory(kind string, observers bool) string {
	m := ir.NewModule()
	user := m.NewFunc("user", types.Void)
	ub := user.NewBlock("entry")
	observe := func(v interface {
		Type() types.Type
		String() string
		Ident() string
	}) {
		if observers {
			_ = v.Type()
			_ = v.String()
			_ = v.Ident()
			_ = v.Type().String()
		}
	}
	switch kind {
	case "func-addrspace":
		f := m.NewFunc("handler", types.Void)
		observe(f)
		f.AddrSpace = 1
		ub.NewICmp(1, f, f)
	case "func-sig":
		f := m.NewFunc("handler", types.Void)
		observe(f)
		f.Sig.Variadic = true
		ub.NewICmp(1, f, f)
	case "global-addrspace":
		g := m.NewGlobalDef("g", constant.NewInt(types.I32, 0))
		observe(g)
		g.AddrSpace = 3
		ub.NewLoad(types.I32, g)
	case "global-contenttype":
		g := m.NewGlobal("g", types.I32)
		observe(g)
		g.ContentType = types.I64
		ub.NewLoad(types.I64, g)
	case "alloca-addrspace":
		a := ub.NewAlloca(types.I32)
		a.SetName("slot")
		observe(a)
		a.AddrSpace = 5
		ub.NewStore(constant.NewInt(types.I32, 1), a)
	case "alias-aliasee":
		g := m.NewGlobalDef("g", constant.NewInt(types.I32, 0))
		h := m.NewGlobalDef("h", constant.NewInt(types.I64, 0))
		al := m.NewAlias("al", g)
		observe(al)
		al.Aliasee = h
		ub.NewLoad(types.I64, al)
	case "param-type":
		p := ir.NewParam("p", types.I32)
		f := m.NewFunc("callee", types.Void, p)
		observe(f)
		observe(p)
		p.Typ = types.I64
		ub.NewCall(f, constant.NewInt(types.I64, 1))
	case "invoke-invokee", "call-callee", "callbr-callee":
		g32 := m.NewFunc("g32", types.I32)
		g64 := m.NewFunc("g64", types.I64)
		b1, b2 := user.NewBlock("b1"), user.NewBlock("b2")
		b1.NewRet(nil)
		b2.NewRet(nil)
		switch kind {
		case "invoke-invokee":
			t := ub.NewInvoke(g32, nil, b1, b2)
			t.SetName("r")
			observe(t)
			t.Invokee = g64
		case "callbr-callee":
			t := ub.NewCallBr(g32, nil, b1, b2)
			t.SetName("r")
			observe(t)
			t.Callee = g64
		default:
			c := ub.NewCall(g32)
			c.SetName("r")
			observe(c)
			c.Callee = g64
			ub.NewBr(b1)
		}
		return safe(func([]string) string { return hexOut([]byte(m.String())) }, nil)
	case "add-operands", "icmp-operands", "select-operands", "phi-incoming", "extractvalue-x", "gep-src", "cast-from":
		p32 := ir.NewParam("p32", types.I32)
		p64 := ir.NewParam("p64", types.I64)
		agg32 := ir.NewParam("a32", types.NewStruct(types.I32))
		agg64 := ir.NewParam("a64", types.NewStruct(types.I64))
		ptr32 := ir.NewParam("q32", types.NewPointer(types.NewArray(2, types.I32)))
		ptr64 := ir.NewParam("q64", types.NewPointer(types.NewArray(2, types.I64)))
		cond := ir.NewParam("c", types.I1)
		user.Params = append(user.Params, p32, p64, agg32, agg64, ptr32, ptr64, cond)
		user.Sig.Params = []types.Type{types.I32, types.I64, agg32.Typ, agg64.Typ, ptr32.Typ, ptr64.Typ, types.I1}
		switch kind {
		case "add-operands":
			i := ub.NewAdd(p32, p32)
			i.SetName("r")
			observe(i)
			i.X, i.Y = p64, p64
			ub.Insts = append(ub.Insts, &ir.InstFreeze{X: i})
		case "icmp-operands":
			i := ub.NewICmp(1, p32, p32)
			i.SetName("r")
			observe(i)
			i.X, i.Y = p64, p64
			ub.Insts = append(ub.Insts, &ir.InstFreeze{X: i})
		case "select-operands":
			i := ub.NewSelect(cond, p32, p32)
			i.SetName("r")
			observe(i)
			i.ValueTrue, i.ValueFalse = p64, p64
			ub.Insts = append(ub.Insts, &ir.InstFreeze{X: i})
		case "phi-incoming":
			i := ub.NewPhi(ir.NewIncoming(p32, ub))
			i.SetName("r")
			observe(i)
			i.Incs[0].X = p64
			ub.Insts = append(ub.Insts, &ir.InstFreeze{X: i})
		case "extractvalue-x":
			i := ub.NewExtractValue(agg32, 0)
			i.SetName("r")
			observe(i)
			i.X = agg64
			ub.Insts = append(ub.Insts, &ir.InstFreeze{X: i})
		case "gep-src":
			zero := constant.NewInt(types.I64, 0)
			i := ub.NewGetElementPtr(types.NewArray(2, types.I32), ptr32, zero, zero)
			i.SetName("r")
			observe(i)
			i.ElemType, i.Src = types.NewArray(2, types.I64), ptr64
			ub.Insts = append(ub.Insts, &ir.InstFreeze{X: i})
		case "cast-from":
			i := ub.NewZExt(p32, types.I64)
			i.SetName("r")
			observe(i)
			i.To = types.I128
			ub.Insts = append(ub.Insts, &ir.InstFreeze{X: i})
		}
	default:
		return "unknown-kind"
	}
	ub.NewRet(nil)
	return safe(func([]string) string { return hexOut([]byte(m.String())) }, nil)
}

func init() {
	// C14 oracle on cached-type state: the same construction/edit history prints the same text with and without interleaved pure observers
	reg("hist.fobs", func(a []string) string {
		with := fieldHistory(a[0], true)
		without := fieldHistory(a[0], false)
		if with == "unknown-kind" {
			return "FAIL unknown-kind"
		}
		if with != without {
			return "FAIL observers-changed-the-text " + with + " vs " + without
		}
		return "ok"
	})
	reg("hist.run", func(a []string) string { return strings.Join(histRun(a, true), "|") })
	// C14 oracle: the final print with observers equals the final print without them
	reg("hist.obs", func(a []string) string {
		with := histRun(a, true)
		without := histRun(a, false)
		w, wo := with[len(with)-1], without[len(without)-1]
		if w == wo {
			return "ok"
		}
		return "FAIL with=" + w + " without=" + wo
	})
}
