//go:build verif

// Package opsan analyses, by reflection on a live instance, which value slots an instruction or
// terminator has and which of them its Operands() / Succs() views expose.
package opsan

import (
	"fmt"
	"reflect"
	"sort"
	"strings"

	"github.com/llir/llvm/ir"
	"github.com/llir/llvm/ir/metadata"
	"github.com/llir/llvm/ir/value"
)

var valueType = reflect.TypeOf((*value.Value)(nil)).Elem()

type slot struct {
	path string
	addr uintptr
	v    reflect.Value
}

// fill populates every value slot reachable from v (struct fields, slices, helper structs of package ir) with a
// distinct fresh *ir.Block (a block is acceptable wherever a value.Value is stored, and Succs() needs blocks).
// sparse: the FIRST element of every list of helper structs gets EMPTY inner lists (`[ "deopt"(), "gc-live"(i32 %x) ]`: an empty bundle before a
// non-empty one); the second variant of every row is analysed in this shape
var sparse bool

func fill(v reflect.Value, path string, slots *[]slot, n *int) { fillIn(v, path, slots, n, false) }

func fillIn(v reflect.Value, path string, slots *[]slot, n *int, emptyLists bool) {
	switch v.Kind() {
	case reflect.Interface:
		if v.Type() == valueType {
			*n++
			b := ir.NewBlock(fmt.Sprintf("s%d", *n))
			v.Set(reflect.ValueOf(b))
			*slots = append(*slots, slot{path, v.Addr().Pointer(), v})
		}
	case reflect.Slice:
		et := v.Type().Elem()
		if et == valueType || (et.Kind() == reflect.Ptr && et.Elem().Kind() == reflect.Struct && et.Elem().PkgPath() == "github.com/llir/llvm/ir" && isHelper(et.Elem().Name())) {
			if emptyLists && et == valueType {
				v.Set(reflect.MakeSlice(v.Type(), 0, 0))
				return
			}
			s := reflect.MakeSlice(v.Type(), 2, 2)
			v.Set(s)
			for i := 0; i < 2; i++ {
				e := v.Index(i)
				if et.Kind() == reflect.Ptr {
					e.Set(reflect.New(et.Elem()))
					fillIn(e.Elem(), fmt.Sprintf("%s[%d]", path, i), slots, n, sparse && i == 0)
				} else {
					fillIn(e, fmt.Sprintf("%s[%d]", path, i), slots, n, emptyLists)
				}
			}
		}
	case reflect.Struct:
		t := v.Type()
		for i := 0; i < v.NumField(); i++ {
			f := t.Field(i)
			if !f.IsExported() || f.Name == "Metadata" || f.Name == "Successors" || f.Name == "Parent" {
				continue
			}
			p := f.Name
			if path != "" {
				p = path + "." + f.Name
			}
			if f.Anonymous {
				continue // LocalIdent etc.
			}
			fillIn(v.Field(i), p, slots, n, emptyLists)
		}
	}
}

func isHelper(name string) bool {
	switch name {
	case "Incoming", "Case", "Clause", "OperandBundle", "Arg":
		return true
	}
	return false
}

type operander interface{ Operands() []*value.Value }
type succer interface{ Succs() []*ir.Block }

// Row describes one instruction/terminator type.
type Row struct {
	Type     string
	Slots    []string // every value slot (sorted)
	Operands []string // what Operands() exposes, in order ("?" = an address that is no slot of the instance)
	Succs    []string // for terminators: the slots holding the blocks Succs() returns, in order; "-" for instructions
	Live     bool     // writing through every exposed slot changes the instance's field
	SuccLive bool     // after retargeting every slot, Succs() returns the new blocks
	Flags    bool     // analysed with every exported boolean field of the instance set
}

// setFlags sets every exported boolean field of the instance (Cleanup, Volatile, InBounds, ...): the views must not depend on them.
func setFlags(v reflect.Value) {
	t := v.Type()
	for i := 0; i < v.NumField(); i++ {
		if t.Field(i).IsExported() && v.Field(i).Kind() == reflect.Bool && v.Field(i).CanSet() {
			v.Field(i).SetBool(true)
		}
	}
}

// Analyse builds an instance of the (pointer to struct) type of x and inspects its views.
func Analyse(x interface{}) Row { return AnalyseWith(x, false) }

// AnalyseWith: with flags, every exported boolean field of the instance is set before the views are taken.
func AnalyseWith(x interface{}, flags bool) Row {
	// the variant with the boolean fields set is also the one analysed in the sparse shape
	sparse = flags
	defer func() { sparse = false }()
	t := reflect.TypeOf(x).Elem()
	inst := reflect.New(t)
	var slots []slot
	n := 0
	fill(inst.Elem(), "", &slots, &n)
	if flags {
		setFlags(inst.Elem())
	}
	row := Row{Type: t.Name(), Flags: flags, Live: true, SuccLive: true}
	byAddr := map[uintptr]string{}
	for _, s := range slots {
		row.Slots = append(row.Slots, s.path)
		byAddr[s.addr] = s.path
	}
	sort.Strings(row.Slots)
	ops := inst.Interface().(operander).Operands()
	for _, p := range ops {
		a := reflect.ValueOf(p).Pointer()
		if path, ok := byAddr[a]; ok {
			row.Operands = append(row.Operands, path)
		} else {
			row.Operands = append(row.Operands, "?")
		}
	}
	blockSlot := func(b *ir.Block) string {
		for _, s := range slots {
			if cur, ok := s.v.Interface().(*ir.Block); ok && cur == b {
				return s.path
			}
		}
		return "?"
	}
	if sc, ok := inst.Interface().(succer); ok {
		row.Succs = []string{}
		func() {
			defer func() {
				if e := recover(); e != nil {
					row.Succs = []string{"panic"}
				}
			}()
			for _, b := range sc.Succs() {
				row.Succs = append(row.Succs, blockSlot(b))
			}
		}()
	} else {
		row.Succs = []string{"-"}
	}
	// liveness: write fresh blocks through the exposed slots
	for i, p := range ops {
		nb := ir.NewBlock(fmt.Sprintf("w%d", i))
		*p = nb
	}
	for i, p := range ops {
		a := reflect.ValueOf(p).Pointer()
		found := false
		for _, s := range slots {
			if s.addr == a {
				if cur, ok := s.v.Interface().(*ir.Block); ok && cur.Name() == fmt.Sprintf("w%d", i) {
					found = true
				}
			}
		}
		if !found {
			row.Live = false
		}
	}
	if sc, ok := inst.Interface().(succer); ok && len(row.Succs) > 0 && row.Succs[0] != "panic" {
		func() {
			defer func() {
				if e := recover(); e != nil {
					row.SuccLive = false
				}
			}()
			for _, b := range sc.Succs() {
				if !strings.HasPrefix(b.Name(), "w") {
					row.SuccLive = false
				}
			}
		}()
	}
	// the view must be derived from the receiver on EVERY call: (a) scrambling a previously returned slice must not change what the
	// next call returns; (b) a shallow copy of the instruction made after a first call must expose ITS OWN fields
	func() {
		defer func() {
			if e := recover(); e != nil {
				row.Live = false
			}
		}()
		inst3 := reflect.New(t)
		var slots3 []slot
		n3 := 0
		fill(inst3.Elem(), "", &slots3, &n3)
		if flags {
			setFlags(inst3.Elem())
		}
		o := inst3.Interface().(operander)
		first := o.Operands()
		want := make([]uintptr, len(first))
		for i, p := range first {
			want[i] = reflect.ValueOf(p).Pointer()
		}
		for i := range first { // scramble the caller's slice
			first[i] = first[0]
		}
		second := o.Operands()
		if len(second) != len(want) {
			row.Live = false
		}
		for i := range second {
			if i < len(want) && reflect.ValueOf(second[i]).Pointer() != want[i] {
				row.Live = false
			}
		}
		// shallow copy: direct (non-slice) value fields of the copy have their own addresses
		cp := reflect.New(t)
		cp.Elem().Set(inst3.Elem())
		origDirect := map[uintptr]bool{}
		for _, s3 := range slots3 {
			if !strings.Contains(s3.path, "[") {
				origDirect[s3.addr] = true
			}
		}
		for _, p := range cp.Interface().(operander).Operands() {
			if origDirect[reflect.ValueOf(p).Pointer()] {
				row.Live = false // the copy exposes a field of the ORIGINAL
			}
		}
	}()
	// (c) equal VALUES stored in different slots are still different slots: with one and the same value in every slot the view must expose
	// exactly the slots it exposes when the values differ (a view built by comparing operand values drops or merges uses)
	func() {
		defer func() {
			if e := recover(); e != nil {
				row.Live = false
			}
		}()
		inst4 := reflect.New(t)
		var slots4 []slot
		n4 := 0
		fill(inst4.Elem(), "", &slots4, &n4)
		if flags {
			setFlags(inst4.Elem())
		}
		shared := reflect.ValueOf(ir.NewBlock("same"))
		by4 := map[uintptr]string{}
		for _, s4 := range slots4 {
			s4.v.Set(shared)
			by4[s4.addr] = s4.path
		}
		var got []string
		for _, p := range inst4.Interface().(operander).Operands() {
			if path, ok := by4[reflect.ValueOf(p).Pointer()]; ok {
				got = append(got, path)
			} else {
				got = append(got, "?")
			}
		}
		if strings.Join(got, ",") != strings.Join(row.Operands, ",") {
			row.Live = false
		}
		if sc, ok := inst4.Interface().(succer); ok && len(row.Succs) > 0 && row.Succs[0] != "panic" && row.Succs[0] != "-" {
			if len(sc.Succs()) != len(row.Succs) {
				row.SuccLive = false
			}
		}
	}()
	// (d) an instruction may USE ITSELF (`%p = phi i32 [ %n, %entry ], [ %p, %loop ]`, a call in its own unreachable argument list): with the instruction
	// itself stored in every slot the view must still expose exactly those slots
	func() {
		defer func() {
			if e := recover(); e != nil {
				row.Live = false
			}
		}()
		inst5 := reflect.New(t)
		self, ok := inst5.Interface().(value.Value)
		if !ok {
			return
		}
		var slots5 []slot
		n5 := 0
		fill(inst5.Elem(), "", &slots5, &n5)
		if flags {
			setFlags(inst5.Elem())
		}
		by5 := map[uintptr]string{}
		for _, s5 := range slots5 {
			s5.v.Set(reflect.ValueOf(self))
			by5[s5.addr] = s5.path
		}
		var got []string
		for _, p := range inst5.Interface().(operander).Operands() {
			if path, ok := by5[reflect.ValueOf(p).Pointer()]; ok {
				got = append(got, path)
			} else {
				got = append(got, "?")
			}
		}
		if strings.Join(got, ",") != strings.Join(row.Operands, ",") {
			row.Live = false
		}
	}()
	// (f) arguments that carry parameter attributes (`call void @f(i32 signext %x)`): the argument list of a call / invoke / callbr then holds an
	// *ir.Arg wrapping the value. The value the instruction USES is the wrapped one: the view must expose a slot that HOLDS it (substituting a value
	// through the slots of its users finds it by identity) and a write through that slot must reach the printed argument and keep the attributes
	func() {
		defer func() {
			if e := recover(); e != nil {
				row.Live = false
			}
		}()
		if _, ok := t.FieldByName("Callee"); !ok {
			return
		}
		inst7 := reflect.New(t)
		var slots7 []slot
		n7 := 0
		fill(inst7.Elem(), "", &slots7, &n7)
		af := inst7.Elem().FieldByName("Args")
		if !af.IsValid() || af.Kind() != reflect.Slice || af.Type().Elem() != valueType {
			return
		}
		var inner []*ir.Block
		var wrappers []*ir.Arg
		for i := 0; i < af.Len(); i++ {
			b := ir.NewBlock(fmt.Sprintf("inner%d", i))
			w := ir.NewArg(b)
			inner = append(inner, b)
			wrappers = append(wrappers, w)
			af.Index(i).Set(reflect.ValueOf(w))
		}
		ops7 := inst7.Interface().(operander).Operands()
		for i, b := range inner {
			found := false
			for _, p := range ops7 {
				if cur, ok := (*p).(*ir.Block); ok && cur == b {
					found = true
					nb := ir.NewBlock(fmt.Sprintf("written%d", i))
					*p = nb
					// the write reaches the argument the instruction prints, and the wrapper (with its attributes) is still in place
					w, ok := af.Index(i).Interface().(*ir.Arg)
					if !ok || w != wrappers[i] || w.Value != value.Value(nb) {
						row.Live = false
					}
				}
			}
			if !found {
				row.Live = false
			}
		}
	}()
	// (g) arguments passed AS METADATA (`call void @llvm.dbg.value(metadata i32 %x, ...)`): the argument list holds a *metadata.Value. Whatever the view exposes
	// for such an argument, every exposed slot must be LIVE: a write through it is read back by the next call of Operands() at the same position (a slot that is
	// the address of a copy loses the write)
	func() {
		defer func() {
			if e := recover(); e != nil {
				row.Live = false
			}
		}()
		if _, ok := t.FieldByName("Callee"); !ok {
			return
		}
		inst8 := reflect.New(t)
		var slots8 []slot
		n8 := 0
		fill(inst8.Elem(), "", &slots8, &n8)
		af := inst8.Elem().FieldByName("Args")
		if !af.IsValid() || af.Kind() != reflect.Slice || af.Type().Elem() != valueType {
			return
		}
		for i := 0; i < af.Len(); i++ {
			af.Index(i).Set(reflect.ValueOf(&metadata.Value{Value: ir.NewBlock(fmt.Sprintf("md%d", i))}))
		}
		ops8 := inst8.Interface().(operander).Operands()
		for i, p := range ops8 {
			nb := ir.NewBlock(fmt.Sprintf("mdw%d", i))
			*p = nb
			again := inst8.Interface().(operander).Operands()
			if len(again) != len(ops8) || *again[i] != value.Value(nb) {
				row.Live = false
			}
		}
	}()
	// (e) a list-valued operand field of length ZERO next to non-empty helper lists (`call void @f() [ "deopt"(i32 %x) ]`: no arguments, but operand
	// bundles with inputs): the view must expose every remaining slot
	func() {
		defer func() {
			if e := recover(); e != nil {
				row.Live = false
			}
		}()
		inst6 := reflect.New(t)
		var slots6 []slot
		n6 := 0
		fill(inst6.Elem(), "", &slots6, &n6)
		if flags {
			setFlags(inst6.Elem())
		}
		emptied := map[string]bool{}
		v6 := inst6.Elem()
		for i := 0; i < v6.NumField(); i++ {
			f := t.Field(i)
			if f.IsExported() && v6.Field(i).Kind() == reflect.Slice && v6.Field(i).Type().Elem() == valueType && v6.Field(i).CanSet() {
				v6.Field(i).Set(reflect.MakeSlice(v6.Field(i).Type(), 0, 0))
				emptied[f.Name] = true
			}
		}
		if len(emptied) == 0 {
			return
		}
		top := func(path string) string {
			if i := strings.IndexAny(path, "[."); i >= 0 {
				return path[:i]
			}
			return path
		}
		by6 := map[uintptr]string{}
		for _, s6 := range slots6 {
			if !emptied[top(s6.path)] {
				by6[s6.addr] = s6.path
			}
		}
		var got, want []string
		for _, p := range inst6.Interface().(operander).Operands() {
			if path, ok := by6[reflect.ValueOf(p).Pointer()]; ok {
				got = append(got, path)
			} else {
				got = append(got, "?")
			}
		}
		for _, p := range row.Operands {
			if !emptied[top(p)] {
				want = append(want, p)
			}
		}
		if strings.Join(got, ",") != strings.Join(want, ",") {
			row.Live = false
		}
	}()
	// one slot at a time, with the successor list already computed once (a cached list must not survive ANY single retargeting)
	if _, ok := inst.Interface().(succer); ok && len(row.Succs) > 0 && row.Succs[0] != "panic" {
		for k := range row.Succs {
			func() {
				defer func() {
					if e := recover(); e != nil {
						row.SuccLive = false
					}
				}()
				inst2 := reflect.New(t)
				var slots2 []slot
				n2 := 0
				fill(inst2.Elem(), "", &slots2, &n2)
				if flags {
					setFlags(inst2.Elem())
				}
				sc2 := inst2.Interface().(succer)
				_ = sc2.Succs()
				for _, s2 := range slots2 {
					if s2.path == row.Succs[k] {
						s2.v.Set(reflect.ValueOf(ir.NewBlock(fmt.Sprintf("x%d", k))))
					}
				}
				got := sc2.Succs()
				if len(got) != len(row.Succs) {
					row.SuccLive = false
					return
				}
				for j, b := range got {
					for _, s2 := range slots2 {
						if s2.path == row.Succs[j] {
							if cur, ok := s2.v.Interface().(*ir.Block); !ok || cur != b {
								row.SuccLive = false
							}
						}
					}
				}
			}()
		}
	}
	return row
}
