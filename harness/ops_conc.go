//go:build verif

package main

import (
	"crypto/sha256"
	"fmt"
	"reflect"
	"sort"
	"strings"

	"github.com/llir/llvm/asm"
	"github.com/llir/llvm/ir"
)

// deepHash fingerprints every field (exported or not) of every object reachable from v; pointers are replaced by the order of first visit.
type hasher struct {
	sb   strings.Builder
	seen map[uintptr]int
	path []string
	log  map[string]string // path -> scalar value, for diffing
}

func (h *hasher) scalar(s string) {
	h.sb.WriteString(s)
	h.sb.WriteByte(';')
	if h.log != nil {
		h.log[strings.Join(h.path, "")] = s
	}
}

func (h *hasher) walk(v reflect.Value, depth int) {
	if depth > 400 {
		return
	}
	switch v.Kind() {
	case reflect.Ptr:
		if v.IsNil() {
			h.scalar("nil")
			return
		}
		if id, ok := h.seen[v.Pointer()]; ok {
			h.scalar(fmt.Sprintf("ref%d", id))
			return
		}
		h.seen[v.Pointer()] = len(h.seen)
		h.walk(v.Elem(), depth+1)
	case reflect.Interface:
		if v.IsNil() {
			h.scalar("nil")
			return
		}
		h.sb.WriteString(v.Elem().Type().String())
		h.walk(v.Elem(), depth+1)
	case reflect.Struct:
		t := v.Type()
		if t.PkgPath() == "sync" {
			return
		}
		for i := 0; i < v.NumField(); i++ {
			h.path = append(h.path, "."+t.Field(i).Name)
			h.walk(v.Field(i), depth+1)
			h.path = h.path[:len(h.path)-1]
		}
	case reflect.Slice, reflect.Array:
		if v.Kind() == reflect.Slice && v.IsNil() {
			h.scalar("nilslice")
			return
		}
		h.scalar(fmt.Sprintf("len%d", v.Len()))
		for i := 0; i < v.Len(); i++ {
			h.path = append(h.path, fmt.Sprintf("[%d]", i))
			h.walk(v.Index(i), depth+1)
			h.path = h.path[:len(h.path)-1]
		}
	case reflect.Map:
		keys := v.MapKeys()
		if len(keys) > 0 && keys[0].Kind() == reflect.String {
			sort.Slice(keys, func(i, j int) bool { return keys[i].String() < keys[j].String() })
			for _, k := range keys {
				h.path = append(h.path, "["+k.String()+"]")
				h.scalar(k.String())
				h.walk(v.MapIndex(k), depth+1)
				h.path = h.path[:len(h.path)-1]
			}
		} else {
			h.scalar(fmt.Sprintf("maplen%d", len(keys)))
		}
	case reflect.String:
		h.scalar(v.String())
	case reflect.Bool:
		h.scalar(fmt.Sprint(v.Bool()))
	case reflect.Int, reflect.Int8, reflect.Int16, reflect.Int32, reflect.Int64:
		h.scalar(fmt.Sprint(v.Int()))
	case reflect.Uint, reflect.Uint8, reflect.Uint16, reflect.Uint32, reflect.Uint64, reflect.Uintptr:
		h.scalar(fmt.Sprint(v.Uint()))
	case reflect.Float32, reflect.Float64:
		h.scalar(fmt.Sprint(v.Float()))
	}
}

func deepState(m *ir.Module) (string, map[string]string) {
	h := &hasher{seen: map[uintptr]int{}, log: map[string]string{}}
	h.walk(reflect.ValueOf(m), 0)
	return fmt.Sprintf("%x", sha256.Sum256([]byte(h.sb.String()))), h.log
}

func firstFieldDiff(a, b map[string]string) string {
	var keys []string
	for k := range a {
		keys = append(keys, k)
	}
	for k := range b {
		if _, ok := a[k]; !ok {
			keys = append(keys, k)
		}
	}
	sort.Strings(keys)
	for _, k := range keys {
		if a[k] != b[k] {
			return fmt.Sprintf("%s: %q -> %q", k, a[k], b[k])
		}
	}
	return "?"
}

func init() {
	// conc.readonly <hex text>: after the numbering passes (the only writers, run under the locks) the printers must not write:
	// parse; AssignIDs / AssignGlobalIDs / AssignMetadataIDs; fingerprint every reachable field; print at every level; fingerprint again
	reg("conc.readonly", func(a []string) string {
		m, err := asm.ParseString("x.ll", string(unhexArg(a[0])))
		if err != nil {
			return "ok"
		}
		for _, f := range m.Funcs {
			if err := f.AssignIDs(); err != nil {
				return "ok"
			}
		}
		if err := m.AssignGlobalIDs(); err != nil {
			return "ok"
		}
		if err := m.AssignMetadataIDs(); err != nil {
			return "ok"
		}
		h1, l1 := deepState(m)
		_ = m.String()
		for _, f := range m.Funcs {
			_ = f.LLString()
			for _, b := range f.Blocks {
				_ = b.LLString()
			}
		}
		h2, l2 := deepState(m)
		if h1 != h2 {
			return "FAIL printing-wrote " + hexOut([]byte(firstFieldDiff(l1, l2)))
		}
		return "ok"
	})
}
