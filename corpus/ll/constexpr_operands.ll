@a = global [4 x i32] zeroinitializer
@g = global i32 0
@h = global i64 0

declare void @sink(<2 x i32*> %0, i32* %1, <2 x i64> %2)

define <2 x i32*> @vecgep() {
	ret <2 x i32*> getelementptr (i32, i32* @g, <2 x i64> <i64 0, i64 1>)
}

define <2 x i32*> @vecgep_zero() {
	ret <2 x i32*> getelementptr (i32, i32* @g, <2 x i64> zeroinitializer)
}

define <2 x i32*> @vecgep_base() {
	ret <2 x i32*> getelementptr (i32, <2 x i32*> <i32* @g, i32* @g>, i64 1)
}

define <vscale x 2 x i32*> @vecgep_scalable() {
	ret <vscale x 2 x i32*> getelementptr (i32, i32* @g, <vscale x 2 x i64> zeroinitializer)
}

define i32* @scalargep() {
	ret i32* getelementptr inbounds ([4 x i32], [4 x i32]* @a, i64 0, i64 2)
}

define void @users() {
	call void @sink(<2 x i32*> getelementptr (i32, i32* @g, <2 x i64> <i64 1, i64 2>), i32* getelementptr ([4 x i32], [4 x i32]* @a, i32 0, i32 1), <2 x i64> ptrtoint (<2 x i32*> getelementptr (i32, i32* @g, <2 x i64> <i64 3, i64 4>) to <2 x i64>))
	%1 = icmp eq <2 x i32*> getelementptr (i32, i32* @g, <2 x i64> <i64 0, i64 1>), zeroinitializer
	%2 = select <2 x i1> icmp ne (<2 x i32*> getelementptr (i32, i32* @g, <2 x i64> <i64 0, i64 1>), <2 x i32*> zeroinitializer), <2 x i64> <i64 1, i64 2>, <2 x i64> ptrtoint (<2 x i32*> getelementptr (i32, i32* @g, <2 x i64> <i64 5, i64 6>) to <2 x i64>)
	%3 = add i64 add (i64 ptrtoint (i64* @h to i64), i64 4), sub (i64 ptrtoint (i32* @g to i64), i64 ptrtoint (i64* @h to i64))
	%4 = fcmp oeq <2 x double> sitofp (<2 x i64> ptrtoint (<2 x i32*> getelementptr (i32, i32* @g, <2 x i64> <i64 0, i64 1>) to <2 x i64>) to <2 x double>), zeroinitializer
	ret void
}
