define void @f(i32 %v) {
entry:
	%a = alloca i32, addrspace(5)
	%b = alloca i64, align 8, addrspace(3)
	store i32 %v, i32 addrspace(5)* %a
	br label %next

next:
	%x = load i32, i32 addrspace(5)* %a
	store i64 1, i64 addrspace(3)* %b
	%c = icmp eq i32 addrspace(5)* %a, null
	ret void
}
