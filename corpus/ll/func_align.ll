$g = comdat any
$h = comdat any

define void @f() align 2 {
0:
	ret void
}

define void @g() align 2 comdat {
; <label>:0
	ret void
}

define void @h() comdat align 2 {
; <label>:0
	ret void
}
