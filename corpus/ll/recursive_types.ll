%node = type { i32, %node addrspace(1)* }
%tree = type { %tree*, %tree addrspace(2)*, [2 x %tree addrspace(3)*] }
%ping = type { %pong addrspace(1)* }
%pong = type { %ping addrspace(2)*, <2 x %pong addrspace(1)*> }
%cb = type { void (%cb addrspace(1)*)* }

@head = global %node zeroinitializer
@root = global %tree addrspace(2)* null
@p = addrspace(1) global %ping zeroinitializer
@q = global %pong addrspace(1)* null
@c = global %cb zeroinitializer

define %node addrspace(1)* @next(%node addrspace(1)* %n) {
	%1 = getelementptr %node, %node addrspace(1)* %n, i32 0, i32 1
	%2 = load %node addrspace(1)*, %node addrspace(1)* addrspace(1)* %1
	ret %node addrspace(1)* %2
}
