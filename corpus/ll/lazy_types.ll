declare void @g() addrspace(1)

define void @f(i32 %v) {
entry:
	%x = alloca i32, addrspace(5)
	%0 = alloca i64, align 8, addrspace(3)
	store i32 %v, i32 addrspace(5)* %x
	store i64 1, i64 addrspace(3)* %0
	%y = load i32, i32 addrspace(5)* %x
	%p = getelementptr i32, i32 addrspace(5)* %x, i64 1
	ret void
}

define void @h() {
	%slot = alloca { i32, i8 }, addrspace(2)
	call addrspace(1) void @g()
	%c = icmp eq void () addrspace(1)* @g, null
	%q = bitcast { i32, i8 } addrspace(2)* %slot to i8 addrspace(2)*
	ret void
}
