@plain = global i8* blockaddress(@f, %b1)
@e.add = global i64 add (i64 ptrtoint (i8* blockaddress(@f, %b2) to i64), i64 ptrtoint (i8* blockaddress(@f, %b1) to i64))
@n.add = global i64 add (i64 add (i64 ptrtoint (i8* blockaddress(@f, %b2) to i64), i64 1), i64 ptrtoint (i8* blockaddress(@f, %b1) to i64))
@e.sub = global i64 sub (i64 ptrtoint (i8* blockaddress(@f, %b2) to i64), i64 ptrtoint (i8* blockaddress(@f, %b1) to i64))
@n.sub = global i64 sub (i64 sub (i64 ptrtoint (i8* blockaddress(@f, %b2) to i64), i64 1), i64 ptrtoint (i8* blockaddress(@f, %b1) to i64))
@e.mul = global i64 mul (i64 ptrtoint (i8* blockaddress(@f, %b2) to i64), i64 ptrtoint (i8* blockaddress(@f, %b1) to i64))
@n.mul = global i64 mul (i64 mul (i64 ptrtoint (i8* blockaddress(@f, %b2) to i64), i64 1), i64 ptrtoint (i8* blockaddress(@f, %b1) to i64))
@e.shl = global i64 shl (i64 ptrtoint (i8* blockaddress(@f, %b2) to i64), i64 ptrtoint (i8* blockaddress(@f, %b1) to i64))
@n.shl = global i64 shl (i64 shl (i64 ptrtoint (i8* blockaddress(@f, %b2) to i64), i64 1), i64 ptrtoint (i8* blockaddress(@f, %b1) to i64))
@e.lshr = global i64 lshr (i64 ptrtoint (i8* blockaddress(@f, %b2) to i64), i64 ptrtoint (i8* blockaddress(@f, %b1) to i64))
@n.lshr = global i64 lshr (i64 lshr (i64 ptrtoint (i8* blockaddress(@f, %b2) to i64), i64 1), i64 ptrtoint (i8* blockaddress(@f, %b1) to i64))
@e.ashr = global i64 ashr (i64 ptrtoint (i8* blockaddress(@f, %b2) to i64), i64 ptrtoint (i8* blockaddress(@f, %b1) to i64))
@n.ashr = global i64 ashr (i64 ashr (i64 ptrtoint (i8* blockaddress(@f, %b2) to i64), i64 1), i64 ptrtoint (i8* blockaddress(@f, %b1) to i64))
@e.and = global i64 and (i64 ptrtoint (i8* blockaddress(@f, %b2) to i64), i64 ptrtoint (i8* blockaddress(@f, %b1) to i64))
@n.and = global i64 and (i64 and (i64 ptrtoint (i8* blockaddress(@f, %b2) to i64), i64 1), i64 ptrtoint (i8* blockaddress(@f, %b1) to i64))
@e.or = global i64 or (i64 ptrtoint (i8* blockaddress(@f, %b2) to i64), i64 ptrtoint (i8* blockaddress(@f, %b1) to i64))
@n.or = global i64 or (i64 or (i64 ptrtoint (i8* blockaddress(@f, %b2) to i64), i64 1), i64 ptrtoint (i8* blockaddress(@f, %b1) to i64))
@e.xor = global i64 xor (i64 ptrtoint (i8* blockaddress(@f, %b2) to i64), i64 ptrtoint (i8* blockaddress(@f, %b1) to i64))
@n.xor = global i64 xor (i64 xor (i64 ptrtoint (i8* blockaddress(@f, %b2) to i64), i64 1), i64 ptrtoint (i8* blockaddress(@f, %b1) to i64))
@e.icmp = global i1 icmp eq (i8* blockaddress(@f, %b1), i8* blockaddress(@f, %b2))
@e.gep = global i8* getelementptr (i8, i8* blockaddress(@f, %b1), i64 1)
@e.gepidx = global i8* getelementptr (i8, i8* null, i64 ptrtoint (i8* blockaddress(@f, %b2) to i64))
@e.bitcast = global i32* bitcast (i8* blockaddress(@f, %b1) to i32*)
@e.addrspacecast = global i8 addrspace(1)* addrspacecast (i8* blockaddress(@f, %b2) to i8 addrspace(1)*)
@e.ptrtoint = global i64 ptrtoint (i8* blockaddress(@f, %b1) to i64)
@e.inttoptr = global i8* inttoptr (i64 ptrtoint (i8* blockaddress(@f, %b2) to i64) to i8*)
@e.trunc = global i32 trunc (i64 ptrtoint (i8* blockaddress(@f, %b1) to i64) to i32)
@e.zext = global i128 zext (i64 ptrtoint (i8* blockaddress(@f, %b1) to i64) to i128)
@e.sext = global i128 sext (i64 ptrtoint (i8* blockaddress(@f, %b2) to i64) to i128)
@e.uitofp = global double uitofp (i64 ptrtoint (i8* blockaddress(@f, %b1) to i64) to double)
@e.sitofp = global double sitofp (i64 ptrtoint (i8* blockaddress(@f, %b2) to i64) to double)
@e.fptoui = global i64 fptoui (double uitofp (i64 ptrtoint (i8* blockaddress(@f, %b1) to i64) to double) to i64)
@e.fptosi = global i64 fptosi (double sitofp (i64 ptrtoint (i8* blockaddress(@f, %b2) to i64) to double) to i64)
@e.fptrunc = global float fptrunc (double uitofp (i64 ptrtoint (i8* blockaddress(@f, %b1) to i64) to double) to float)
@e.fpext = global fp128 fpext (double uitofp (i64 ptrtoint (i8* blockaddress(@f, %b2) to i64) to double) to fp128)
@e.fneg = global double fneg (double uitofp (i64 ptrtoint (i8* blockaddress(@f, %b1) to i64) to double))
@e.fcmp = global i1 fcmp oeq (double uitofp (i64 ptrtoint (i8* blockaddress(@f, %b1) to i64) to double), double sitofp (i64 ptrtoint (i8* blockaddress(@f, %b2) to i64) to double))
@e.select = global i8* select (i1 icmp eq (i8* blockaddress(@f, %b1), i8* blockaddress(@f, %b2)), i8* blockaddress(@f, %b2), i8* blockaddress(@f, %b1))
@e.extractelement = global i8* extractelement (<2 x i8*> <i8* blockaddress(@f, %b1), i8* blockaddress(@f, %b2)>, i32 0)
@e.insertelement = global <2 x i8*> insertelement (<2 x i8*> zeroinitializer, i8* blockaddress(@f, %b2), i32 1)
@e.shufflevector = global <2 x i8*> shufflevector (<2 x i8*> <i8* blockaddress(@f, %b1), i8* blockaddress(@f, %b2)>, <2 x i8*> undef, <2 x i32> <i32 1, i32 0>)
@c.struct = global { i8*, [2 x i8*] } { i8* blockaddress(@f, %b1), [2 x i8*] [i8* blockaddress(@f, %b2), i8* blockaddress(@f, %b1)] }
@c.vector = global <2 x i8*> <i8* blockaddress(@f, %b2), i8* blockaddress(@f, %b1)>
@c.packed = global <{ i8*, i64 }> <{ i8* blockaddress(@f, %b1), i64 ptrtoint (i8* blockaddress(@f, %b2) to i64) }>

define void @user(i8* %p) {
	%x = sub i64 sub (i64 ptrtoint (i8* blockaddress(@f, %b2) to i64), i64 ptrtoint (i8* blockaddress(@f, %b1) to i64)), 1
	%y = select i1 icmp ne (i8* blockaddress(@f, %b1), i8* blockaddress(@f, %b2)), i8* blockaddress(@f, %b1), i8* blockaddress(@f, %b2)
	store i8* getelementptr (i8, i8* blockaddress(@f, %b2), i64 sub (i64 ptrtoint (i8* blockaddress(@f, %b1) to i64), i64 ptrtoint (i8* blockaddress(@f, %b2) to i64))), i8** null
	indirectbr i8* %y, []
}

define void @f() {
	br label %b1

b1:
	br label %b2

b2:
	ret void
}
