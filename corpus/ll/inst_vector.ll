define void @f() {
0:
	%1 = extractelement <2 x i32> <i32 1, i32 2>, i64 1
	%2 = insertelement <2 x i32> <i32 4, i32 6>, i32 5, i64 1
	%3 = shufflevector <2 x i32> <i32 7, i32 8>, <2 x i32> <i32 9, i32 10>, <4 x i32> <i32 3, i32 2, i32 1, i32 0>
	ret void
}
