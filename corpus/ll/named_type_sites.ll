%D = type double
%F = type float
%I = type i64
%J = type i32
%P = type i32*
%T = type { i32, i64 }
%V = type <2 x i32>

@g = global i32 0
@t = global %T zeroinitializer
@c.ptrtoint = global %I ptrtoint (i32* @g to %I)
@c.inttoptr = global %P inttoptr (%I 5 to %P)
@c.bitcast = global %I* bitcast (i32* @g to %I*)
@c.addrspacecast = global %T addrspace(1)* addrspacecast (%T* @t to %T addrspace(1)*)
@c.trunc = global %J trunc (%I ptrtoint (i32* @g to %I) to %J)
@c.zext = global %I zext (%J ptrtoint (i32* @g to %J) to %I)
@c.sext = global %I sext (%J ptrtoint (i32* @g to %J) to %I)
@c.fpext = global %D fpext (%F 1.0 to %D)
@c.fptrunc = global %F fptrunc (%D 1.0 to %F)
@c.fptoui = global %I fptoui (%F 1.0 to %I)
@c.fptosi = global %I fptosi (%F 1.0 to %I)
@c.uitofp = global %F uitofp (%I ptrtoint (i32* @g to %I) to %F)
@c.sitofp = global %D sitofp (%I ptrtoint (i32* @g to %I) to %D)
@c.gep = global i64* getelementptr (%T, %T* @t, %I 0, i32 1)
@c.icmp = global i1 icmp eq (%I ptrtoint (i32* @g to %I), %I 0)
@c.select = global %I select (i1 icmp eq (i32* @g, %P null), %I 1, %I 2)
@c.add = global %I add (%I ptrtoint (i32* @g to %I), %I 1)
@c.extractelement = global %J extractelement (%V <i32 1, i32 2>, %J 0)
@c.insertelement = global %V insertelement (%V <i32 1, i32 2>, %J 3, %J 0)
@c.array = global [2 x %I] [%I 1, %I 2]
@c.struct = global { %I, %P } { %I 1, i32* @g }

declare %I @ext(%I %0, %P %1)

declare i32 @pers(...)

define %I @insts(%I %a, %P %p, %T* %q, %T %agg, %V %v, %F %f, i8** %ap) personality i8* bitcast (i32 (...)* @pers to i8*) {
entry:
	%s = alloca %T
	%s2 = alloca %I, %J 2
	%l = load %I, %I* %s2
	store %I %l, %I* %s2
	%e = getelementptr %T, %T* %q, %I 0, i32 1
	%c1 = trunc %I %a to %J
	%c2 = zext %J %c1 to %I
	%c3 = ptrtoint %P %p to %I
	%c4 = inttoptr %I %c3 to %P
	%c5 = bitcast %P %p to %I*
	%c6 = addrspacecast %T* %q to %T addrspace(1)*
	%c7 = fpext %F %f to %D
	%c8 = fptosi %F %f to %I
	%c9 = sitofp %I %a to %D
	%x = extractvalue %T %agg, 1
	%y = insertvalue %T %agg, i64 %x, 1
	%z = extractelement %V %v, %J 0
	%w = insertelement %V %v, i32 %z, %J 1
	%k = icmp eq %I %a, 0
	%m = select i1 %k, %I %a, i64 %x
	%va = va_arg i8** %ap, %I
	%r = call %I @ext(%I %m, %P %p)
	%r2 = invoke %I @ext(%I %r, %P %c4)
		to label %ok unwind label %lp

ok:
	%ph = phi %I [ %r2, %entry ]
	ret %I %ph

lp:
	%lpad = landingpad %T
		cleanup
	resume %T %lpad
}
