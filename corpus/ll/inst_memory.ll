@s = constant [4 x i8] c"foo\00"

define void @f() {
0:
	%ptr = alloca i32
	%1 = load i32, i32* %ptr
	store i32 42, i32* %ptr
	fence acquire
	%2 = cmpxchg i32* %ptr, i32 10, i32 20 acquire monotonic
	%3 = atomicrmw add i32* %ptr, i32 30 acq_rel
	%4 = getelementptr [4 x i8], [4 x i8]* @s, i64 0, i64 0
	ret void
}
