define void @f() {
0:
	%1 = trunc i32 321 to i8
	%2 = zext i8 123 to i32
	%3 = sext i8 -123 to i32
	%4 = fptrunc double 1.0 to float
	%5 = fpext float 2.0 to double
	%6 = fptoui double 3.0 to i32
	%7 = fptosi double -4.0 to i32
	%8 = uitofp i32 5 to double
	%9 = sitofp i32 -6 to double
	%10 = ptrtoint i8* null to i32
	%11 = inttoptr i32 1234 to i8*
	%12 = bitcast { i32, i32 }* null to i64*
	%13 = addrspacecast i8* null to i8 addrspace(1)*
	ret void
}
