!bar = !{!DIExpression(42)}
!baz = !{!DIExpression(42, DW_OP_addr)}
!foo = !{!DIExpression()}
