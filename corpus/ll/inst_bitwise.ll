define void @f() {
0:
	%1 = shl i32 1, 2
	%2 = lshr i32 3, 4
	%3 = ashr i32 5, 6
	%4 = and i32 7, 8
	%5 = or i32 9, 10
	%6 = xor i32 11, 12
	ret void
}
