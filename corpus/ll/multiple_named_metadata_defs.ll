!foo = !{!DIExpression(1)}
!foo = !{!DIExpression(2)}
