define void @f() {
0:
	%1 = extractvalue { i8, { i32, i64 } } { i8 1, { i32, i64 } { i32 2, i64 3 } }, 1, 1
	%2 = insertvalue { i8, { i32, i64 } } { i8 1, { i32, i64 } { i32 2, i64 3 } }, i64 4, 1, 1
	ret void
}
