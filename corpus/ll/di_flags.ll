; debug-info nodes whose flag fields carry SEVERAL members (every printer of these nodes builds the text of the set), many combinations, with unnamed
; globals and locals so that printing also numbers them
@0 = global i32 0, !dbg !0

define i32 @1(i32) !dbg !20 {
	%2 = add i32 %0, 1
	ret i32 %2
}

!llvm.dbg.cu = !{!2}
!llvm.module.flags = !{!9}

!0 = !DIGlobalVariableExpression(var: !1, expr: !DIExpression())
!1 = distinct !DIGlobalVariable(name: "g", scope: !2, file: !3, line: 1, type: !4, isLocal: false, isDefinition: true)
!2 = distinct !DICompileUnit(language: DW_LANG_C_plus_plus, file: !3, producer: "x", isOptimized: false, runtimeVersion: 0, emissionKind: FullDebug, retainedTypes: !{!4, !5, !6, !7, !8, !10, !11, !12, !13, !14})
!3 = !DIFile(filename: "a.cc", directory: "/")
!4 = !DIBasicType(name: "int", size: 32, encoding: DW_ATE_signed, flags: DIFlagBigEndian | DIFlagArtificial)
!5 = !DIDerivedType(tag: DW_TAG_member, name: "m", scope: !3, file: !3, line: 3, baseType: !4, size: 8, flags: DIFlagPublic | DIFlagStaticMember)
!6 = !DIDerivedType(tag: DW_TAG_member, name: "n", scope: !3, file: !3, line: 4, baseType: !4, size: 8, flags: DIFlagPrivate | DIFlagBitField | DIFlagArtificial)
!7 = !DICompositeType(tag: DW_TAG_structure_type, name: "s", file: !3, line: 1, size: 64, flags: DIFlagFwdDecl | DIFlagTypePassByValue, elements: !{})
!8 = !DICompositeType(tag: DW_TAG_class_type, name: "c", file: !3, line: 2, size: 64, flags: DIFlagProtected | DIFlagVirtual | DIFlagNonTrivial, elements: !{})
!9 = !{i32 2, !"Debug Info Version", i32 3}
!10 = !DISubroutineType(flags: DIFlagLValueReference | DIFlagPrototyped, types: !{})
!11 = !DISubprogram(name: "p", scope: !3, file: !3, line: 5, type: !10, flags: DIFlagPublic | DIFlagPrototyped | DIFlagExplicit, spFlags: DISPFlagLocalToUnit | DISPFlagOptimized)
!12 = !DISubprogram(name: "q", scope: !3, file: !3, line: 6, type: !10, flags: DIFlagPrivate | DIFlagNoReturn, spFlags: DISPFlagPureVirtual | DISPFlagElemental | DISPFlagPure)
!13 = !DIDerivedType(tag: DW_TAG_member, name: "o", scope: !3, file: !3, line: 7, baseType: !4, size: 8, flags: DIFlagProtected | DIFlagArtificial | DIFlagObjectPointer)
!14 = !DICompositeType(tag: DW_TAG_enumeration_type, name: "e", file: !3, line: 8, size: 32, flags: DIFlagEnumClass | DIFlagFwdDecl, elements: !{})
!20 = distinct !DISubprogram(name: "f", scope: !3, file: !3, line: 9, type: !10, scopeLine: 9, flags: DIFlagPrototyped | DIFlagAllCallsDescribed, spFlags: DISPFlagDefinition | DISPFlagOptimized, unit: !2)
