@a = global half 0xH4400
@b = global half 0xH2E66
