@fmt = global [4 x i8] c"%d\0A\00"
@slot = global i32 (i8*, ...)* @printf

declare i32 @printf(i8*, ...)

declare void @vv(...)

declare i32 @plain(i32)

define i32 @direct(i32 %n) {
	%1 = getelementptr [4 x i8], [4 x i8]* @fmt, i64 0, i64 0
	%2 = call i32 (i8*, ...) @printf(i8* %1, i32 %n)
	%3 = call i32 (i8*, ...) @printf(i8* %1, i32 %n, i32 %2, double 1.0)
	call void (...) @vv()
	call void (...) @vv(i32 1, i8* null)
	%4 = call i32 @plain(i32 %3)
	%5 = tail call fastcc i32 @plain(i32 %4)
	ret i32 %5
}

define i32 @indirect(i32 (i8*, ...)* %fp, i32 %n) {
	%1 = load i32 (i8*, ...)*, i32 (i8*, ...)** @slot
	%2 = call i32 (i8*, ...) %fp(i8* null, i32 %n)
	%3 = call i32 (i8*, ...) %1(i8* null, i32 %2, i32 %n)
	%4 = call i32 (i8*, ...) bitcast (i32 (i32)* @plain to i32 (i8*, ...)*)(i8* null, i32 %3)
	ret i32 %4
}

define i32 @terminators(i32 %n) personality i8* null {
	%1 = invoke i32 (i8*, ...) @printf(i8* null, i32 %n)
		to label %2 unwind label %5

2:
	%3 = invoke i32 @plain(i32 %1)
		to label %4 unwind label %5

4:
	invoke void (...) @vv(i32 %3)
		to label %7 unwind label %5

5:
	%6 = landingpad { i8*, i32 }
		cleanup
	ret i32 0

7:
	ret i32 %3
}
