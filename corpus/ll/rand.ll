@seed = global i32 0

declare i32 @abs(i32 %x)

define i32 @rand() {
0:
	%1 = load i32, i32* @seed
	%2 = mul i32 %1, 22695477
	%3 = add i32 %2, 1
	store i32 %3, i32* @seed
	%4 = call i32 @abs(i32 %3)
	ret i32 %4
}
