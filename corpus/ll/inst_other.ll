define i32 @g() {
0:
	ret i32 42
}

define void @h(i32 %x) {
0:
	ret void
}

define void @f() {
0:
	%1 = icmp eq i32 1, 2
	br i1 %1, label %foo, label %baz

foo:
	%2 = fcmp oeq double 3.0, 4.0
	br i1 %2, label %bar, label %baz

bar:
	br label %baz

baz:
	%3 = phi i32 [ 10, %foo ], [ 20, %bar ], [ 30, %baz ]
	%4 = select i1 true, i32 11, i32 22
	%5 = call i32 @g()
	call void @h(i32 30)
	%6 = va_arg i8* null, i32
	%7 = landingpad { i8*, i32 }
		catch i8** null
	ret void

handler0:
	%8 = catchpad within %cs [i8** null]
	ret void

handler1:
	%9 = cleanuppad within %cs [i8** null]
	ret void

dispatch:
	%cs = catchswitch within none [label %handler0, label %handler1] unwind to caller
}
