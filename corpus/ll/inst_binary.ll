define void @f() {
0:
	%1 = add i32 1, 2
	%2 = fadd double 3.0, 4.0
	%3 = sub i32 5, 6
	%4 = fsub double 7.0, 8.0
	%5 = mul i32 9, 10
	%6 = fmul double 11.0, 12.0
	%7 = udiv i32 13, 14
	%8 = sdiv i32 15, 16
	%9 = fdiv double 17.0, 18.0
	%10 = urem i32 19, 20
	%11 = srem i32 21, 22
	%12 = frem double 23.0, 24.0
	ret void
}
