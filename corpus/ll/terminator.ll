define void @f(i8* %target) {
0:
	indirectbr i8* %target, [label %foo]

foo:
	br label %bar

bar:
	ret void
}
