@g = global i32 0, align 1, section "foo"
@h = global i32 0, section "foo", align 1
