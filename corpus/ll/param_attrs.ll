%struct.T = type { i8, i32 }

define void @f(%struct.T* byval(%struct.T) align 4 %0) {
1:
	ret void
}

define void @g(%struct.T* byval align 4 %0) {
1:
	ret void
}
